"""C03 — fork-resolution verdict equals the protocol's keystone scoring.

Pure scoring core: internal::comparePopScoreImpl instantiated by harness/h_score.cpp on
synthetic publication views (no block trees), the keystone_util functions, the default
parameters.  Model: coq/Score/CmpDefs.v (impl as coded, spec), coq/Gen/KeystoneGen.v
(generated from keystone_util.cpp), extracted to OCaml.

Oracles evaluated on the IMPLEMENTATION's results (a failure is a concrete failing input):
  * sign(comparePopScoreImpl(A,B)) = sign(spec A B) for every generated profile pair, in the
    reading that matches the kind of view (holes view -> pub reading, real view -> inf reading)
  * antisymmetry under role swap and 0 without keystones (inside the harness)
  * keystone_util results = the mathematical definitions on the proved range
A disagreement between the as-coded model and the implementation that none of these oracles
turns into a failing input is reported as a broken correspondence.
"""
import os
import vlib
from props import _score as E2E
from props import _xcheck as X

LEVEL = "proof"
ASSUMPTIONS = [
    "publication heights lie in [0, 2^31-1 - finalityDelay - table size) (block heights of the SP chain); "
    "number of keystones * max table entry < 2^31; lookup table non-empty",
    "both views start at the same first keystone and share the config object (asserted by the code)",
    "end-to-end stream: ALT chains protected by VBK only (ATVs); VBK chains protected by BTC (VTBs) are not generated; "
    "regtest parameters; time adjustment is switched on in the harness by a subclass of the regtest VBK parameters; the "
    "mirror of the miner's block timestamps (BASE + number of mining operations) is checked against the registry on every pair; "
    "the publication view of a chain is computed from the registry-level description by props/_score.py (not proved)",
]
HARNESSES = [("h_score", "rel"), ("h_score_e2e", "rel")]
META = {
    "text": "Theorems (Coq 8.16, closed under the global context, for ALL views with any number of keystones, by "
            "induction over the keystone list): (1) impl_sign_eq_spec[_gen]/impl_real_sign_eq_spec: "
            "comparePopScoreImpl as coded (int scores, NO_ENDORSEMENT=INT32_MAX sentinel, int64 gap test, early "
            "breaks, signed overflow / empty-table read as explicit Ub outcome) returns Ok r with sgn r = sgn of a "
            "declarative keystone-by-keystone scorer over unbounded Z with option/extended heights, no sentinel, no "
            "early exit, explicit alive flags - both for views with holes (getKeystone = nullptr: 'missing keystone' "
            "reading) and for the production ReducedPublicationView (context holding INT32_MAX: 'infinitely late "
            "publication' reading); hypotheses: table non-empty with entries >= 0, finality delay >= 0, heights in "
            "[0, INT32_MAX - fd) and <= INT32_MAX - table size, #keystones * max entry <= INT32_MAX, discharged for "
            "the defaults generated from /repo (default_params_ok). (2) impl_antisym: exact antisymmetry "
            "impl(b,a) = -impl(a,b) whenever defined and != INT32_MIN (+ Ub symmetric). (3) cmp_zero_no_keystone, "
            "view_empty_iff_not_crossed. (4) outer comparePopScore short-cuts as a decision function: never "
            "favours an invalid candidate, failing payloads, or a fork below a finalized block. (5) the eight "
            "functions of keystone_util.cpp, regenerated from the clang AST on every run, equal floor/ceiling "
            "keystone arithmetic with outcome Ok on the stated int32/uint32 ranges and Abort on negative heights. "
            "REFUTED (real_view_pub_reading_refuted, a finding): on the production view the verdict is NOT the "
            "'missing keystone' reading that the repo's own unit tests pin on their mock view.",
    "note": "Trusted: Coq kernel, extraction (ExtrOcamlBasic), OCaml driver, C++ harness incl. its synthetic view "
            "(mimics ReducedPublicationView on top of the library's keystone_util), tools/gen_keystone.py (clang "
            "JSON AST -> Gallina, tiny subset, fails closed), tools/gen_scoreparams.py (regex, fails closed, "
            "cross-checked against the linked library at run time). End-to-end stream (props/_score.py, "
            "harness/h_score_e2e.cpp on the shared World runner): pairs of fully valid competing ALT branches with "
            "ATVs on real trees; the view per chain (earliest block of proof on the best VBK chain among "
            "endorsements of the keystone's window [k, min(k+ki+1, tip)]) is computed from the registry ids and fed "
            "to the extracted impl/spec/outer_cmp; AltBlockTree::comparePopScore must return that sign; role swap "
            "on a second instance, zero without keystone crossing, invalidated candidate and candidate forking "
            "below a finalized block are direct oracles. Not generated: VBK forks resolved by BTC publications "
            "(VTBs). About half of the duels run with EnableTimeAdjustment()==true (SP parameters subclassed in the "
            "harness) and explicit ALT timestamps around the VBK ones; getKeystoneContext incl. the adjustment is the "
            "extracted Coq ktx (proved = minimum of the adjusted heights, monotone, order independent). No axioms. "
            "A sample of 240 cases per run (every op of the model driver except the sweep checksum loop) is re-evaluated "
            "inside Coq by vm_compute and compared with the extracted model's output, so extraction is cross-checked, "
            "not trusted blindly (props/_xcheck.py).",
    "technique": "Coq proof (refinement invariant, induction over the keystone list; lia) + source-generated leaf "
                 "functions and parameters + extraction-based differential correspondence with direct oracles "
                 "(spec sign, antisymmetry, zero, keystone maths) and exhaustive small-scope sweeps",
}

MAXI = 2 ** 31 - 1
DEFAULT_TABLE = [100, 100, 95, 89, 80, 69, 56, 40, 21]
# (table, finality delay, keystone interval)
CONFIGS = [
    (DEFAULT_TABLE, 100, 5), (DEFAULT_TABLE, 11, 20), ([100, 100, 95], 2, 5), ([3, 2, 1], 1, 3),
    ([5], 5, 2), ([7, 7], 0, 1), ([0, 7, 0, 4], 3, 25), ([0x1fffffff, 1], 2, 7),
]
SWEEP_TABLES = [[100, 100, 95], [3, 2, 1], [5]]
SWEEP_FDS = [1, 2, 5]


def hx(v):
    return ("-%x" % -v) if v < 0 else "%x" % v


def csv(l):
    return ",".join(hx(x) for x in l) if l else "-"


def slots(profile, reading):
    """profile: list of int|None; the view handed to comparePopScoreImpl"""
    if not profile:
        return "-"
    none = "n" if reading == "pub" else hx(MAXI)
    return ",".join(none if h is None else hx(h) for h in profile)


def pslots(profile):
    return ",".join("n" if h is None else hx(h) for h in profile) if profile else "-"


class Cases:
    def __init__(self):
        self.cases = []      # (id, op, args) fed to model and harness
        self.spec = []       # (id, op, args) fed to the model only; same id as the cmp case it belongs to
        self.k = 0
        self.hist = {}

    def add(self, op, *args):
        self.k += 1
        cid = "c%d" % self.k
        self.cases.append((cid, op, [str(a) for a in args]))
        self.hist[op] = self.hist.get(op, 0) + 1
        return cid

    def pair(self, cfg, reading, pa, pb):
        table, fd, ki = cfg
        cid = self.add("cmp", hx(fd), csv(table), hx(ki), hx(ki), slots(pa, reading), slots(pb, reading))
        self.spec.append((cid, "spec", [reading, hx(fd), csv(table), pslots(pa), pslots(pb)]))
        return cid


def default_configs():
    """the defaults of the repo under test, as generated into coq/Gen/ScoreParams.v by tools/gen_scoreparams.py
    (compared with the linked library by the `params` case)"""
    import re
    try:
        src = open(os.path.join(vlib.COQ, "Gen", "ScoreParams.v")).read()
        out = []
        for pre in ("alt", "vbk"):
            ki = int(re.search(r"Definition %s_keystone_interval : Z := (\d+)\." % pre, src).group(1))
            fd = int(re.search(r"Definition %s_finality_delay : Z := (\d+)\." % pre, src).group(1))
            tb = [int(x) for x in re.search(r"Definition %s_fr_table : list Z := \[([^\]]*)\]\." % pre, src).group(1).split(";")]
            out.append((tb, fd, ki))
        return out
    except (OSError, AttributeError, ValueError):
        return [(DEFAULT_TABLE, 100, 5), (DEFAULT_TABLE, 11, 20)]


def gen_profile(r, cfg, high=False):
    table, fd, ki = cfg
    maxn = max(0, min(8, (MAXI // max(table)) if max(table) > 0 else 8))
    if cfg in DEFAULTS:
        maxn = 8    # production defaults: always exercised, whatever the table says
    n = r.choice([0, 1, 1, 2, 2, 3, 3, 4, 5, 6, 8])
    n = min(n, maxn, 4 if high else 8)
    incs = [0, 0, 1, 1, 2, 3, fd - 1, fd, fd, fd + 1, fd + 1, fd + 2, len(table) - 1, len(table), len(table) + 1, 2 * fd + 1]
    incs = [i for i in incs if i >= 0 and (not high or i <= 12)]
    h = (MAXI - fd - len(table) - 60) if high else r.choice([0, 1, 50, 100, 1000])
    prof = []
    for _ in range(n):
        if r.chance(1, 5):
            prof.append(None)
            continue
        if r.chance(1, 6):
            h = max(0, h - r.choice([1, 2, fd, fd + 1]))
        else:
            h += r.choice(incs)
        prof.append(h)
    return prof


def mutate(r, cfg, p):
    table, fd, ki = cfg
    p = list(p)
    k = r.below(7)
    if not p:
        return gen_profile(r, cfg)
    i = r.below(len(p))
    if k == 0:
        p[i] = None
    elif k == 1 and p[i] is not None:
        p[i] = max(0, p[i] + r.choice([-1, 1, -fd, fd, fd + 1, -(fd + 1), len(table), -len(table)]))
    elif k == 2:
        p = p[:i]
    elif k == 3:
        base = max([x for x in p if x is not None] or [0])
        p = p + [r.choice([None, base, base + 1, base + fd, base + fd + 1])]
    elif k == 4 and p[i] is None:
        prev = [x for x in p[:i] if x is not None]
        p[i] = (prev[-1] if prev else 0) + r.choice([0, 1, fd, fd + 1])
    elif k == 5:
        p = [None if x is None else x + 1 for x in p]
    return p


DEFAULTS = []


def gen_cases(ctx, cs, n_random):
    r = ctx.rng
    DEFAULTS[:] = default_configs()
    CONFIGS[0:2] = DEFAULTS
    cs.add("params")
    # ---- keystone_util: exhaustive over heights -5..300 x intervals 1..25 ----
    for ki in range(1, 26):
        for h in range(-5, 301):
            cs.add("k2", hx(h), hx(ki))
            for n in range(0, 4):
                cs.add("gpk", hx(h), hx(ki), hx(n))
            for t in sorted({h, h + 1, h + ki - 1, h + ki, h + 2 * ki, h - 1, ki * ((h // ki) + 1) - 1, ki * ((h // ki) + 1)}):
                cs.add("k3", hx(h), hx(t), hx(ki))
    # boundary values of the int32 / uint32 ranges (defined behaviour only; Ub cases are dropped below)
    for h in (0, 1, MAXI - 1, MAXI, MAXI - 20, -MAXI - 1, -1):
        for ki in (1, 2, 20, 2 ** 31 - 1, 2 ** 31, 2 ** 31 + 1, 2 ** 32 - 1):
            cs.add("k2", hx(h), hx(ki))
            cs.add("k3", hx(h), hx(max(h, 5)), hx(ki))
            cs.add("gpk", hx(h), hx(ki), hx(0))
            cs.add("gpk", hx(h), hx(ki), hx(3))
    # ---- scoring core: random + boundary profile pairs ----
    for i in range(n_random):
        cfg = CONFIGS[i % len(CONFIGS)]
        reading = "pub" if (i // len(CONFIGS)) % 2 == 0 else "inf"
        high = r.chance(1, 25)
        pa = gen_profile(r, cfg, high)
        kind = r.below(4)
        if kind == 0:
            pb = gen_profile(r, cfg, high)
        elif kind == 1:
            pb = list(pa)
        else:
            pb = mutate(r, cfg, pa)
            if kind == 3:
                pb = mutate(r, cfg, pb)
        if high:
            lim = MAXI - cfg[1] - len(cfg[0]) - 1
            pa = [None if x is None else min(x, lim) for x in pa]
            pb = [None if x is None else min(x, lim) for x in pb]
        cs.pair(cfg, reading, pa, pb)
    # missing keystone at each position / role swap on a fixed ladder, every config and reading
    for cfg in CONFIGS:
        table, fd, ki = cfg
        n = 5 if cfg in DEFAULTS else min(5, MAXI // max(1, max(table)))
        ladder = [10 + i for i in range(n)]
        for reading in ("pub", "inf"):
            for i in range(n + 1):
                for j in range(n + 1):
                    pa = [None if k == i else ladder[k] for k in range(n)]
                    pb = [None if k == j else ladder[k] + (k % 2) for k in range(n)]
                    cs.pair(cfg, reading, pa, pb)
                    cs.pair(cfg, reading, pb[:j], pa)
    # views that mix nullptr and NO_ENDORSEMENT contexts, heights next to INT32_MAX: model vs implementation only
    for i in range(n_random // 10):
        cfg = CONFIGS[i % len(CONFIGS)]
        table, fd, ki = cfg

        def raw():
            n = min(r.below(5), MAXI // max(1, max(table)))
            out = []
            for _ in range(n):
                k = r.below(6)
                out.append("n" if k == 0 else hx(MAXI) if k == 1 else hx(MAXI - r.below(fd + len(table) + 3)) if k == 2
                           else hx(r.below(2 * fd + 5)))
            return ",".join(out) if out else "-"
        cs.add("cmp", hx(fd), csv(table), hx(ki), hx(ki), raw(), raw())


def sweep_plan(tier):
    """(reading, table, fd, ki, maxk, heights) of the exhaustive sweeps"""
    plan = []
    if tier == "quick":
        for t in SWEEP_TABLES:
            for fd in (1, 2):
                for reading in ("pub", "inf"):
                    plan.append((reading, t, fd, 5, 3, [0, 1, 2, 3, 4]))
    else:
        for t in SWEEP_TABLES:
            for fd in SWEEP_FDS:
                for reading in ("pub", "inf"):
                    plan.append((reading, t, fd, 5, 3, list(range(8))))
                    plan.append((reading, t, fd, 5, 4, [0, 1, 2, 3]))
    return plan


def enum_profiles(maxk, hs):
    vals = [None] + list(hs)
    out = []
    for k in range(maxk + 1):
        idx = [0] * k
        while True:
            out.append([vals[i] for i in idx])
            i = k - 1
            while i >= 0:
                idx[i] += 1
                if idx[i] < len(vals):
                    break
                idx[i] = 0
                i -= 1
            if i < 0:
                break
    return out


def write_cases(path, cases):
    with open(path, "w") as f:
        for cid, op, args in cases:
            f.write("%s %s %s\n" % (cid, op, " ".join(args)))


def sgn_of(res):
    """'ok:<hex>' -> sign, else None"""
    if not res or not res.startswith("ok:"):
        return None
    t = res[3:]
    return -1 if t.startswith("-") else (0 if t == "0" else 1)


def evaluate(ctx, model, harness, cases, spec, tag):
    """run explicit cases on model and implementation, apply all oracles. Returns number of comparisons."""
    inp = os.path.join(ctx.work, tag + "-cases.txt")
    write_cases(inp, cases)
    rc1, mres, _, merr = vlib.run_lines([model], inp)
    # undefined behaviour (signed overflow, x/0) is outside the domain: never executed on the implementation
    defined = [c for c in cases if "ub" not in (mres.get(c[0]) or "").split() and (mres.get(c[0]) or "") != "ub"]
    ctx.cov["ub_cases_skipped"] = ctx.cov.get("ub_cases_skipped", 0) + len(cases) - len(defined)
    inp2 = os.path.join(ctx.work, tag + "-impl.txt")
    write_cases(inp2, defined)
    rc2, ires, orc, ierr = vlib.run_lines([harness], inp2)
    sres = {}
    if spec:
        inp3 = os.path.join(ctx.work, tag + "-spec.txt")
        write_cases(inp3, spec)
        rc3, sres, _, serr = vlib.run_lines([model], inp3)
        if rc3 != 0:
            ctx.broken.append("runner: spec model rc=%d %s" % (rc3, serr[-200:]))
    if rc1 != 0 or rc2 != 0:
        ctx.broken.append("runner(%s): model rc=%d impl rc=%d %s" % (tag, rc1, rc2, (merr + ierr)[-300:]))
    XLOG.extend((c[0], c[1], c[2], mres.get(c[0])) for c in cases)
    XLOG.extend((c[0], c[1], c[2], sres.get(c[0])) for c in spec)
    byid = {c[0]: c for c in cases}
    specby = {c[0]: c for c in spec}
    reported = set()

    def report(cid, what, extra=None):
        if cid in reported:
            return
        reported.add(cid)
        obj = {"kind": "input", "cases": [byid[cid]] if cid in byid else [], "spec": [specby[cid]] if cid in specby else [],
               "model": mres.get(cid), "impl": ires.get(cid), "spec_sign": sres.get(cid), "what": what}
        if extra:
            obj.update(extra)
        ctx.violation(obj)
    # 1. direct oracles evaluated inside the harness
    for cid, text in orc:
        report(cid, "direct oracle failed on the implementation: " + text)
    # 2. sign of the implementation's verdict vs the protocol scorer
    nspec = 0
    for cid, _, _ in spec:
        if cid not in ires:
            continue
        nspec += 1
        s = sgn_of(ires[cid])
        if s is None or str(s) != sres.get(cid):
            report(cid, "sign of comparePopScoreImpl differs from the protocol scorer (spec)")
    # 3. keystone_util vs the mathematical definitions on the proved range
    math = []
    for cid, op, args in defined:
        if op == "k2":
            h, ki = int(args[0], 16), int(args[1], 16)
            if 0 <= h and 0 < ki and h + ki + 1 <= MAXI:
                math.append((cid, "m2", args))
        elif op == "k3":
            a, b, ki = int(args[0], 16), int(args[1], 16), int(args[2], 16)
            if 0 <= a <= MAXI and 0 <= b <= MAXI and 0 < ki < 2 ** 32:
                math.append((cid, "m3", args))
        elif op == "gpk":
            h, ki, n = int(args[0], 16), int(args[1], 16), int(args[2], 16)
            if 0 <= h <= MAXI and 0 < ki and 0 <= n and (n + 1) * ki <= MAXI:
                math.append((cid, "mgpk", args))
    if math:
        inp4 = os.path.join(ctx.work, tag + "-math.txt")
        write_cases(inp4, math)
        _, mm, _, _ = vlib.run_lines([model], inp4)
        XLOG.extend((c[0], c[1], c[2], mm.get(c[0])) for c in math)
        for cid, _, _ in math:
            if mm.get(cid) != ires.get(cid):
                report(cid, "keystone_util result differs from the mathematical definition (k*ki, floor(h/ki))",
                       {"math": mm.get(cid)})
    # 4. as-coded model vs implementation
    bad = vlib.diff_results({c[0]: mres.get(c[0]) for c in defined}, ires)
    for cid in bad:
        if cid in reported:
            continue
        c = byid.get(cid)
        if c and c[1] == "params":
            ctx.broken.append("corr:Gen.ScoreParams: generated defaults %r differ from the linked library %r"
                              % (mres.get(cid), ires.get(cid)))
        else:
            ctx.broken.append("corr:Score.%s: first disagreeing input %r model=%r impl=%r (no oracle fails on it)"
                              % (c[1] if c else "?", c, mres.get(cid), ires.get(cid)))
            break
    ctx.cov["spec_sign_checks"] = ctx.cov.get("spec_sign_checks", 0) + nspec
    ctx.cov["math_checks"] = ctx.cov.get("math_checks", 0) + len(math)
    for c in cases[:2] + cases[-2:]:
        ctx.sample({"case": c, "model": mres.get(c[0]), "impl": ires.get(c[0]), "spec_sign": sres.get(c[0])})
    return len(defined), len(bad)


# ---------------------------------------------------------------- in-Coq cross-check of the extraction
XLOG = []     # (id, op, args, answer) of every explicit case the extracted model answered in this run
XC_REQUIRES = "Score.CInt Gen.KeystoneGen Gen.ScoreParams Score.KeystoneDefs Score.CmpDefs Score.ViewDefs"
XC_PREAMBLE = """
Definition xr_z (r : res Z) : list Z := match r with CInt.Ok v => [0; v] | CInt.Abort => [1] | CInt.Ub => [2] end.
Definition xr_b (r : res bool) : list Z := match r with CInt.Ok v => [0; xc_b v] | CInt.Abort => [1] | CInt.Ub => [2] end.
Definition xo_n (o : option nat) : list Z := match o with Some v => [1; Z.of_nat v] | None => [0] end.
Definition xpar (ki fd : Z) (t : list Z) : list Z := [ki; fd; Z.of_nat (length t)] ++ t.
"""
XC_SKIPPED = ["sweep"]     # checksum loop written in OCaml around impl/spec: no single Gallina term


def xc_res(tok, val=X.unhex):
    """'ok:<v>' | 'abort' | 'ub' as the xr_z / xr_b encoding"""
    return [0, val(tok[3:])] if tok.startswith("ok:") else {"abort": [1], "ub": [2]}[tok]


def xc_term(op, a, ans):
    """(Gallina term : list Z mirroring ocaml/Score_driver.ml, expected encoding of the driver's answer) or None"""
    Z = lambda t: X.z(X.unhex(t))
    zl = lambda t: X.zlist([] if t == "-" else [X.unhex(x) for x in t.split(",")])
    sl = lambda t: X.ozlist([] if t == "-" else [None if x == "n" else X.unhex(x) for x in t.split(",")])
    cfg = lambda fd, tb: "(Build_config %s %s)" % (Z(fd), zl(tb))
    bit = lambda t: int(t)
    r = ans.split()
    if op == "cmp":
        return "xr_z (impl %s %s %s)" % (cfg(a[0], a[1]), sl(a[4]), sl(a[5])), xc_res(ans)
    if op == "spec":
        prof = {"pub": "pub_profile", "inf": "inf_profile"}[a[0]]
        return "[Z.sgn (spec %s (%s %s) (%s %s))]" % (cfg(a[1], a[2]), prof, sl(a[3]), prof, sl(a[4])), [int(ans)]
    if op == "k2":
        h, ki = Z(a[0]), Z(a[1])
        t = " ++ ".join(["xr_z (highestKeystoneAtOrBefore %s %s)", "xr_z (blockHeightToKeystoneNumber %s %s)",
                         "xr_b (isKeystone %s %s)", "xr_z (firstKeystoneAfter %s %s)",
                         "xr_z (highestBlockWhichConnectsKeystoneToPrevious %s %s)"]) % ((h, ki) * 5)
        return t, xc_res(r[0]) + xc_res(r[1]) + xc_res(r[2], bit) + xc_res(r[3]) + xc_res(r[4])
    if op == "k3":
        x = (Z(a[0]), Z(a[1]), Z(a[2]))
        return ("xr_b (isCrossedKeystoneBoundary %s %s %s) ++ xr_b (areOnSameKeystoneInterval %s %s %s)" % (x + x),
                xc_res(r[0], bit) + xc_res(r[1], bit))
    if op == "gpk":
        return "xr_z (getPreviousKeystoneHeight %s %s %s)" % (Z(a[0]), Z(a[1]), Z(a[2])), xc_res(ans)
    if op == "m2":
        h, ki = Z(a[0]), Z(a[1])
        t = ("[0; m_highestKeystoneAtOrBefore %s %s; 0; m_keystoneNumber %s %s; 0; xc_b (m_isKeystone %s %s); "
             "0; m_firstKeystoneAfter %s %s] ++ (if m_isKeystone %s %s then [0; m_highestConnecting %s %s] else [1])"
             % ((h, ki) * 6))
        return t, xc_res(r[0]) + xc_res(r[1]) + xc_res(r[2], bit) + xc_res(r[3]) + xc_res(r[4])
    if op == "m3":
        x = (Z(a[0]), Z(a[1]), Z(a[2]))
        return "[0; xc_b (m_crossed %s %s %s); 0; xc_b (m_sameInterval %s %s %s)]" % (x + x), xc_res(r[0], bit) + xc_res(r[1], bit)
    if op == "mgpk":
        return "[0; m_previousKeystone %s %s %s]" % (Z(a[0]), Z(a[1]), Z(a[2])), xc_res(ans)
    if op == "ktx":
        hs = [] if a[3] == "-" else [int(x, 16) for x in a[3].split(",")]
        hl = "(@nil nat)" if not hs else "[" + "; ".join("Z.to_nat %d" % h for h in hs) + "]"
        x = (X.b(a[0] == "1"), zl(a[1]), Z(a[2]), hl)
        on = lambda t: [0] if t == "n" else [1, int(t, 16)]
        return "xo_n (ktx %s %s %s %s) ++ xo_n (ktx_spec %s %s %s %s)" % (x + x), on(r[0]) + on(r[1])
    if op == "params":
        exp = []
        for o in (1, 5):       # "alt ki fd table vbk ki fd table"
            tb = [] if r[o + 2] == "-" else [X.unhex(x) for x in r[o + 2].split(",")]
            exp += [X.unhex(r[o]), X.unhex(r[o + 1]), len(tb)] + tb
        return ("xpar alt_keystone_interval alt_finality_delay alt_fr_table ++ "
                "xpar vbk_keystone_interval vbk_finality_delay vbk_fr_table"), exp
    if op == "outer":
        bb = lambda t: X.b(t == "1")
        t = ("[fst (outer_cmp (mkO %s %s %s %s %s %s %s %s %s %s %s %s))]"
             % (bb(a[0]), bb(a[1]), Z(a[2]), Z(a[3]), Z(a[4]), X.oz(None if a[5] == "n" else X.unhex(a[5])),
                bb(a[6]), bb(a[7]), bb(a[8]), Z(a[9]), Z(a[10]), bb(a[11])))
        return t, [X.unhex(ans)]
    return None


def run_xcheck(ctx, want=240):
    """a deterministic sample of this run's model cases (every op of the driver except XC_SKIPPED, every outcome
    kind) is re-evaluated inside Coq on the Gallina definitions and compared with the extracted model's answers"""
    log = [e for e in XLOG + E2E.XLOG if e[3] is not None and e[1] not in XC_SKIPPED]
    rng = ctx.rng.fork()
    kind = lambda e: (e[1], e[3][:2] if e[3][:1].isalpha() else "neg" if e[3][:1] == "-" else "num")
    core = [e for e in log if e[1] in ("cmp", "spec")]         # half of the sample: the scoring core itself
    smp = X.sample(rng, core, want // 2, kind) + X.sample(rng, [e for e in log if e[1] not in ("cmp", "spec")], want - want // 2, kind)
    items, hist = [], {}
    for cid, op, args, ans in smp:
        te = xc_term(op, args, ans)
        if te is None:
            ctx.broken.append("xcheck:Score: no Gallina rendering for op %s" % op)
            continue
        items.append(("%s/%s %s" % (cid, op, " ".join(args)[:200]), te[0], te[1]))
        hist[op] = hist.get(op, 0) + 1
    X.xcheck(ctx, "Score", XC_REQUIRES, items, XC_PREAMBLE)
    ctx.cov["in_coq_ops"] = dict(sorted(hist.items()))
    ctx.cov["in_coq_skipped_ops"] = list(XC_SKIPPED)


def run_sweeps(ctx, model, harness):
    plan = sweep_plan(ctx.tier)
    lines = []
    meta = {}
    k = 0
    for reading, t, fd, ki, maxk, hs in plan:
        nprof = sum((len(hs) + 1) ** i for i in range(maxk + 1))
        chunk = max(1, nprof // 8)
        for lo in range(0, nprof, chunk):
            k += 1
            cid = "s%d" % k
            meta[cid] = (reading, t, fd, ki, maxk, hs, lo, min(nprof, lo + chunk), nprof)
            lines.append((cid, "sweep", [reading, hx(fd), csv(t), hx(ki), str(maxk), csv(hs), str(lo), str(lo + chunk)]))
    inp = os.path.join(ctx.work, "sweep.txt")
    write_cases(inp, lines)
    rc1, mres, _, merr = vlib.run_lines([model], inp, timeout=3000)
    rc2, ires, orc, ierr = vlib.run_lines([harness], inp, timeout=3000)
    if rc1 != 0 or rc2 != 0:
        ctx.broken.append("runner(sweep): model rc=%d impl rc=%d %s" % (rc1, rc2, (merr + ierr)[-300:]))
    total = 0
    expand = []
    for cid, _, _ in lines:
        m = (mres.get(cid) or "").split()
        i = (ires.get(cid) or "").split()
        if len(m) != 4 or len(i) != 2:
            ctx.broken.append("runner(sweep): malformed output %r / %r" % (mres.get(cid), ires.get(cid)))
            continue
        total += int(i[1])
        if m[0] != i[0] or m[1] != i[1] or m[2] != "0":
            expand.append(cid)
    for cid, _ in orc:
        if cid in meta and cid not in expand:
            expand.append(cid)
    ctx.cov["sweep_pairs"] = total
    ctx.cov["sweep_configs"] = len(plan)
    # a chunk whose checksum differs (or whose model-side sign check / harness oracle failed) is re-run pair by pair
    for cid in expand[:3]:
        reading, t, fd, ki, maxk, hs, lo, hi, nprof = meta[cid]
        profs = enum_profiles(maxk, hs)
        cs = Cases()
        for a in range(lo, hi):
            for b in range(nprof):
                cs.pair((t, fd, ki), reading, profs[a], profs[b])
                if len(cs.cases) >= 400000:
                    break
        n, nbad = evaluate(ctx, model, harness, cs.cases, cs.spec, "expand-" + cid)
        if not ctx.violations:
            ctx.broken.append("corr:Score.sweep: chunk %s %r differs (model %r impl %r) but no single pair does"
                              % (cid, meta[cid][:6], mres.get(cid), ires.get(cid)))
    return total


def run_e2e(ctx, model, e2e_harness, pairs, tag):
    """end-to-end stream on real ALT trees (props/_score.py, harness/h_score_e2e.cpp)"""
    recs, errs = E2E.run_pairs(vlib, ctx, model, e2e_harness, pairs, tag)
    for e in errs:
        ctx.broken.append("runner(e2e): " + e)
    hist = {}
    for rec in recs:
        hist[rec["status"]] = hist.get(rec["status"], 0) + 1
        P = pairs[rec["i"]]
        if rec["status"] in ("sign", "oracle"):
            ctx.violation({"kind": "e2e", "pair": E2E.pair_to_dict(P), "impl": rec["impl"], "expected_sign": rec["expected"],
                           "what": rec["why"],
                           "script": ["p0.%d %s" % (j, l) for j, l in enumerate(P.script)]})
        elif rec["status"] == "model":
            ctx.broken.append("e2e: " + rec["why"])
    nskip = hist.get("skip", 0)
    if nskip * 10 > len(recs) and not ctx.violations:
        why = [r_["why"] for r_ in recs if r_["status"] == "skip"][:2]
        ctx.broken.append("e2e: %d of %d generated pairs could not be judged: %r" % (nskip, len(recs), why))
    judged = [r_ for r_ in recs if r_["status"] != "skip"]
    cov = ctx.cov.setdefault("e2e", {})
    cov["pairs"] = cov.get("pairs", 0) + len(recs)
    cov["judged"] = cov.get("judged", 0) + len(judged)
    cov["status"] = hist
    cov["skipped_why"] = [r_["why"][:200] for r_ in recs if r_["status"] == "skip"][:3]
    cov["kinds"] = {k: sum(1 for r_ in recs if r_["kind"] == k) for k in ("duel", "short", "invalid", "final")}
    cov["expected_sign_histogram"] = {str(k): sum(1 for r_ in judged if r_["expected"] == k) for k in (-1, 0, 1)}
    cov["below_final"] = sum(1 for r_ in judged if r_.get("below_final"))
    cov["below_final_taller_candidate"] = sum(1 for r_ in judged if r_.get("below_final") and r_.get("taller"))
    cov["atvs"] = sum(P.stats.get("atvs", 0) for P in pairs)
    cov["losing_fork_blocks_of_proof"] = sum(P.stats.get("losing_fork_bops", 0) for P in pairs)
    cov["keystones_crossed_histogram"] = {str(k): sum(1 for P in pairs for v in (P.viewA, P.viewB) if len(v) == k) for k in range(6)}
    cov["time_adjustment_pairs"] = sum(1 for P in pairs if P.stats.get("ta"))
    cov["time_adjusted_publications"] = sum(P.stats.get("adjusted", 0) for P in pairs)
    cov["unpublished_keystones"] = sum(1 for P in pairs for v in (P.viewA, P.viewB) for h in v if h is None)
    for rec in judged[:2]:
        P = pairs[rec["i"]]
        ctx.sample({"e2e": P.kind, "cfg": P.cfg, "viewA": P.viewA, "viewB": P.viewB, "impl": rec["impl"], "expected_sign": rec["expected"]})
    return len(judged)


def run(ctx):
    ctx.prove()
    okm, model, mlog = vlib.build_model("Score")
    okh, hs, hlog = vlib.build_harness(["h_score", "h_score_e2e"])
    if not okm:
        ctx.broken.append("model-build: " + mlog[-300:])
    if not okh:
        ctx.broken.append("harness-build: " + hlog[-300:])
    if not (okm and okh):
        return
    harness = hs["h_score"]
    e2e_harness = hs["h_score_e2e"]
    ctx.cov["trusted_base"] = [
        "tools/gen_keystone.py: clang -ast-dump=json of src/pop/keystone_util.cpp -> coq/Gen/KeystoneGen.v (fails closed)",
        "tools/gen_scoreparams.py: regex over alt_chain_params.hpp / vbk_chain_params.hpp -> coq/Gen/ScoreParams.v, "
        "compared with the linked library's defaults on every run (op params)",
        "harness view: struct View in harness/h_score.cpp mimics ReducedPublicationView (size/empty/getKeystone on top of "
        "the library's keystone_util) for the pure-core stream",
        "e2e stream: harness/world.hpp (shared runner), harness/h_score_e2e.cpp (duel op), props/_world.py + props/_score.py "
        "(generator and the registry-level computation of each chain's publication view: not proved, exercised against "
        "the real getProtoKeystoneContext/getKeystoneContext/comparePopScore)",
    ]
    if ctx.replay and ctx.replay.get("kind") == "e2e":
        n = run_e2e(ctx, model, e2e_harness, [E2E.pair_from_dict(ctx.replay["pair"])], "replay")
        ctx.cov["evaluations"] = n
        return
    if ctx.replay:
        cases = [tuple(c) for c in ctx.replay.get("cases", [])]
        spec = [tuple(c) for c in ctx.replay.get("spec", [])]
        n, _ = evaluate(ctx, model, harness, cases, spec, "replay")
        ctx.cov["evaluations"] = n
        return
    # corpus first
    cs = Cases()
    cdir = os.path.join(vlib.VERIF, "corpus", "C03")
    ncorpus = 0
    if os.path.isdir(cdir):
        for fn in sorted(os.listdir(cdir)):
            if not fn.endswith(".txt"):
                continue
            for line in open(os.path.join(cdir, fn)):
                t = line.split()
                if len(t) == 7 and t[0] == "pair":   # pair <reading> <fd> <table> <ki> <A> <B>
                    def prof(s):
                        return [] if s == "-" else [None if x == "n" else int(x, 16) for x in s.split(",")]
                    cs.pair(([int(x, 16) for x in t[3].split(",")], int(t[2], 16), int(t[4], 16)), t[1], prof(t[5]), prof(t[6]))
                    ncorpus += 1
    gen_cases(ctx, cs, 20000 if ctx.tier == "quick" else 300000)
    n, nbad = evaluate(ctx, model, harness, cs.cases, cs.spec, "main")
    total = run_sweeps(ctx, model, harness)
    # end-to-end stream: real ALT trees, ATVs, VBK blocks of proof; getProtoKeystoneContext / getKeystoneContext /
    # outer comparePopScore against the model's verdict on the publication views computed from the registry
    if E2E.TABLE != DEFAULTS[0][0]:
        ctx.broken.append("e2e: the ALT default lookup table %r is not the one the e2e predictor uses" % (DEFAULTS[0][0],))
    pairs = []
    if os.path.isdir(cdir):
        import json as _json
        for fn in sorted(os.listdir(cdir)):
            if fn.startswith("e2e_") and fn.endswith(".json"):
                d = _json.load(open(os.path.join(cdir, fn)))
                fx = d["fixed"]
                fx["plan"] = [tuple(x) for x in fx["plan"]]
                pairs.append(E2E.gen_pair(vlib.Rng(1), d.get("kind", "duel"), fx))
    ctx.cov["e2e_corpus_pairs"] = len(pairs)
    pairs += E2E.plan_pairs(ctx.rng.fork(), 50 if ctx.tier == "quick" else 1500)
    ne2e = run_e2e(ctx, model, e2e_harness, pairs, "main")
    n += ne2e
    run_xcheck(ctx)
    ctx.cov["evaluations"] = n + total
    ctx.cov["distinct_nontrivial"] = len({(op, tuple(a)) for _, op, a in cs.cases if op == "cmp" and a[4] != "-" and a[5] != "-"}) + total
    ctx.cov["rule"] = ("distinct (config, view A, view B) with both views non-empty among the explicit cases, plus every pair "
                       "of the exhaustive sweeps (all profiles up to maxk keystones over the listed heights and 'no publication')")
    ctx.cov["op_histogram"] = cs.hist
    ctx.cov["corpus_cases"] = ncorpus
    ctx.cov["exhaustive"] = True
    ctx.cov["disagreements_checked"] = n + total
    ctx.cov["traces_validated_against_impl"] = n + total - nbad
    ctx.cov["configs"] = [{"table": t, "finality_delay": fd, "keystone_interval": ki} for t, fd, ki in CONFIGS]
    ctx.cov["sweeps"] = [{"reading": r_, "table": t, "fd": fd, "maxk": mk, "heights": h} for r_, t, fd, ki, mk, h in sweep_plan(ctx.tier)]
