"""C03 — fork-resolution verdict equals the protocol's keystone scoring."""
import vlib

LEVEL = "proof"
ASSUMPTIONS = []
HARNESSES = [("h_score", "rel")]
META = {"text": "in progress", "note": "", "technique": "Coq proof + extraction-based differential correspondence"}


def run(ctx):
    ctx.prove()
