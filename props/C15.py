"""C15 — SP-chain (BTC / VBK) headers are accepted iff they satisfy the contextual rules; chain work
accumulates; absent POP the best chain is the valid chain with most work, earliest seen wins ties."""
import json
import os
import re
import subprocess
import vlib

LEVEL = "proof"
HARNESSES = [("h_pow", "rel")]
ASSUMPTIONS = [
    "proof-of-work hashes (sha256d, progpow) are external: the model takes 'hash <= target' as an input bit, the "
    "harness realises it by nonce search on the real code",
    "block identities are small ids; truncated-hash collisions (9-byte keystone, 12-byte previous block) are not modelled",
    "x86-64 SSE2 double arithmetic = IEEE-754 binary64 round-to-nearest-even (Coq PrimFloat)",
    "invalidateSubtree of a block ON the active chain (re-election among tips in hash-set order) and POP endorsements "
    "are outside this property; VBK parameter sets with K < 10 (t may be 0: float->uint32 conversion undefined) are not generated",
]
META = {
    "text": "Theorems (Coq, all inputs/sequences): coded BTC getNextWorkRequired/calculateNextWorkRequired = Bitcoin's rule "
            "over Z for all chains/parameters within stated no-wrap bounds (mainnet/testnet constants regenerated from the "
            "headers satisfy them: no 256-bit overflow); BTC median-time-past and VBK minimum timestamp are the order "
            "statistics (upper / lower median of the last <=11 / <=20 timestamps); validateKeystones = keystone arithmetic "
            "spec; VBK next work is a function of (params, ancestors) with result = toBits of a value >= minimum "
            "difficulty; accept decision <=> conjunction of the rules; chain work = sum of block proofs mod 2^256; after "
            "ANY sequence of header acceptances / fork invalidations the tip is a valid block of maximal work and every "
            "earlier-inserted valid block has strictly less work. _refuted (documentation of repaired defects, about the "
            "kept pre-fix definitions): btc_timespan_v0_refuted (uint32 timespan, F7), vbk_static_K_v0_refuted (static K, F6). "
            "The executable model is compared with the real BlockTree<BtcBlock>/BlockTree<VbkBlock> (custom parameter "
            "sets, several trees in one process, mined headers) on generated header chains.",
    "note": "Trusted: Coq kernel incl. vm_compute; extraction (ExtrOcamlBasic), OCaml driver, C++ harness, generators. "
            "Print Assumptions: 18 of the 19 theorems are closed under the global context. C15_vbk_static_K_v0_refuted "
            "(a vm_compute witness through the double step) lists the kernel's primitive float / 63-bit integer "
            "constants, which Print Assumptions reports under 'Axioms:' (they are primitives, no logical axiom is used): "
            "PrimFloat.float PrimFloat.abs PrimFloat.add PrimFloat.div PrimFloat.eqb PrimFloat.frshiftexp PrimFloat.ltb "
            "PrimFloat.mul PrimFloat.normfr_mantissa PrimFloat.of_uint63 PrimFloat.opp PrimInt63.int PrimInt63.eqb "
            "PrimInt63.land PrimInt63.lor PrimInt63.lsl PrimInt63.lsr PrimInt63.sub. The general VBK theorems are generic "
            "in the coefficient function and list nothing. The OCaml driver evaluates the double step with native floats "
            "and EVERY (K,t) it used is re-evaluated in Coq (VbkFloat.vbk_coef, vm_compute) on each run. "
            "Modelled not verified: ArithUint256 as Z mod 2^256, hashes, std::sort.",
    "technique": "Coq proof (induction over chains / operation sequences, Z arithmetic) + extraction-based differential "
                 "correspondence against the rebuilt library + constants regenerated from the headers",
}

CORPUS = os.path.join(vlib.VERIF, "corpus", "C15")


# ---------------------------------------------------------------------------------------------
def target_of(bits):
    """decode of a compact value (only used to steer generation: mining feasibility)"""
    size = bits >> 24
    word = bits & 0x007fffff
    if size <= 3:
        return word >> (8 * (3 - size))
    return (word << (8 * (size - 3))) & ((1 << 256) - 1)


def compact_of(v):
    """canonical compact encoding (generation only)"""
    size = (v.bit_length() + 7) // 8
    c = (v << (8 * (3 - size))) if size <= 3 else (v >> (8 * (size - 3)))
    if c & 0x00800000:
        c >>= 8
        size += 1
    return c | (size << 24)


class Session:
    """drives the extracted model interactively while generating (the model is the reference: it tells the
    generator the prescribed bits / MTP so that mostly-valid chains can be built) and records every op"""

    def __init__(self, model, work):
        self.coef_log = os.path.join(work, "coef.log")
        env = dict(os.environ)
        env["POW_COEF_LOG"] = self.coef_log
        self.p = subprocess.Popen([model], stdin=subprocess.PIPE, stdout=subprocess.PIPE, env=env,
                                  universal_newlines=True, bufsize=1)
        self.ops = []
        self.res = {}
        self.k = 0
        self.now = 0
        self.hist = {}

    def emit(self, op, *args):
        self.k += 1
        cid = "c%d" % self.k
        args = [a if isinstance(a, str) else "%x" % a for a in args]
        self.p.stdin.write("%s %s %s\n" % (cid, op, " ".join(args)))
        self.p.stdin.flush()
        line = self.p.stdout.readline()
        if not line:
            raise RuntimeError("model driver died on %s %s %s" % (cid, op, args))
        i, _, t = line.rstrip("\n").partition(" ")
        assert i == cid, (i, cid)
        self.ops.append((cid, op, args))
        self.res[cid] = t
        self.hist[op] = self.hist.get(op, 0) + 1
        return t

    def set_now(self, t):
        self.now = t
        self.emit("now", t)

    def close(self):
        try:
            self.p.stdin.close()
            self.p.wait(timeout=30)
        except Exception:
            self.p.kill()


def kv(ans):
    d = {}
    toks = ans.split()
    d["code"] = toks[0] if toks else ""
    for t in toks:
        if "=" in t:
            a, _, b = t.partition("=")
            d[a] = b
    return d


def hexi(s, default=None):
    try:
        return int(s, 16)
    except (ValueError, TypeError):
        return default


WEIRD_BITS = [0, 0x01003456, 0x01800000, 0x04923456, 0xff123456, 0x2100ffff, 0x22000001, 0x1d00ffff, 0x03000001, 0x00800000]


class TreeGen:
    def __init__(self, S, r, name, kind, P, stats):
        self.S, self.r, self.name, self.kind, self.P, self.stats = S, r, name, kind, P, stats
        self.blocks = {}
        self.tip = 1
        self.nid = 2
        self.unknown = 0xdead00
        self.dead = set()

    def add(self, bid, parent, time, bits, valid):
        ph = self.blocks[parent]["h"] if parent in self.blocks else -1
        self.blocks[bid] = {"p": parent, "h": ph + 1, "t": time, "bits": bits, "valid": valid}

    def anc_at(self, bid, height):
        while bid in self.blocks and self.blocks[bid]["h"] > height:
            bid = self.blocks[bid]["p"]
        return bid if bid in self.blocks and self.blocks[bid]["h"] == height else None

    def new(self, gtime, gbits):
        P = self.P
        if self.kind == "btc":
            self.S.emit("newbtc", self.name, P["limit"], P["timespan"], P["spacing"], P["allow"], P["noret"], P["future"], 1, gtime, gbits)
        else:
            self.S.emit("newvbk", self.name, P["mindiff"], P["noret"], P["N"], P["T"], P["future"], P["ks"], 1, gtime, gbits)
        self.blocks[1] = {"p": 0, "h": 0, "t": gtime, "bits": gbits, "valid": True}

    def feasible(self, bits):
        """'mine' = a nonce search is cheap; 'never' = the compact value can never pass checkProofOfWork
        (submitted with pow=0: the verdict must be bad-pow); 'hard' = too expensive to mine, skipped"""
        t = target_of(bits)
        size = bits >> 24
        word = bits & 0x007fffff
        neg = word != 0 and (bits & 0x00800000) != 0
        ovf = word != 0 and (size > 34 or (word > 0xff and size > 33) or (word > 0xffff and size > 32))
        if neg or ovf or t == 0:
            return "never"
        if self.kind == "btc":
            if t > self.P["limit"]:
                return "never"
            return "mine" if t >= (1 << 240) else "hard"
        if t < self.P["mindiff"]:
            return "never"
        return "mine" if t <= 12 else "hard"

    def keystones(self, parent, mode):
        """VBK: keystone ids for a child of [parent]; mode 0 = as prescribed"""
        if self.kind != "vbk":
            return 0, 0
        KI = self.P["ks"]
        h = self.blocks[parent]["h"]
        k1 = ((h - 1) // KI) * KI if h >= 1 else -KI
        k2 = k1 - KI
        if mode == 1:
            k1 += self.r.choice([-1, 1])
        elif mode == 2:
            k2 += self.r.choice([-1, 1, KI])
        elif mode == 3:
            k1 -= KI
        a1 = self.anc_at(parent, k1) if k1 >= 0 else 0
        a2 = self.anc_at(parent, k2) if k2 >= 0 else 0
        if mode == 4:
            a1 = 0xbad001
        elif mode == 5:
            a2 = 0 if a2 else 0xbad002
        elif mode == 6:
            a1 = 0 if a1 else parent
        return (a1 or 0), (a2 or 0)

    def accept(self, parent, time, bits, pow_, ksmode=0):
        bid = self.nid
        self.nid += 1
        k1, k2 = self.keystones(parent, ksmode) if parent in self.blocks else (0, 0)
        ans = kv(self.S.emit("acc", self.name, bid, parent, time, bits, pow_, k1, k2))
        self.stats["codes"][ans["code"]] = self.stats["codes"].get(ans["code"], 0) + 1
        if ans["code"] in ("ok", "badchain"):
            self.add(bid, parent, time, bits, ans["code"] == "ok")
        tip = hexi(ans.get("tip"))
        if tip is not None:
            if tip != self.tip:
                self.stats["tip_switches"] += 1
            self.tip = tip
        return ans

    def step(self):
        S, r, P = self.S, self.r, self.P
        x = r.below(100)
        if x < 4 and len(self.blocks) > 3:
            cand = [b for b in self.blocks if b != 1]
            ans = S.emit("inv", self.name, r.choice(cand))
            if ans.startswith("ok"):
                self.stats["invalidations"] += 1
                # model marks the subtree invalid; mirror for parent choice statistics only
            return
        if x < 7 and len(self.blocks) > 1:
            S.emit("dup", self.name, r.choice([b for b in self.blocks if b != 1] or [1]))
            return
        if x < 9:
            S.set_now(S.now + r.range(0, 40))
            return
        y = r.below(100)
        if y < 4:
            self.unknown += 1
            self.accept(self.unknown, S.now - r.range(0, 100), self.blocks[1]["bits"], 1)
            return
        parent = self.tip if y < 75 else r.choice(list(self.blocks))
        if parent not in self.blocks:
            parent = 1
        if parent in self.dead and r.below(100) < 90:
            alive = [b for b in self.blocks if b not in self.dead and self.blocks[b]["valid"]]
            if alive:
                top = max(self.blocks[b]["h"] for b in alive)
                parent = r.choice([b for b in alive if self.blocks[b]["h"] >= top - 1])
        pt = self.blocks[parent]["t"]
        pr = kv(S.emit("probe", self.name, parent, pt))
        mtp = hexi(pr.get("mtp"), pt)
        unit = P["spacing"] if self.kind == "btc" else P["T"]
        z = r.below(100)
        if z < 50:
            time = pt + (r.range(0, 2 * unit) if self.kind == "btc" else r.range((unit + 1) // 2, 2 * unit))
        elif z < 60:
            time = mtp
        elif z < 65:
            time = mtp - 1
        elif z < 75:
            time = pt + 2 * unit + r.range(0, 2)
        elif z < 83:
            time = pt + r.range(50, 3000)
        elif z < 92:
            time = max(mtp, pt - r.range(1, 3000))
        elif z < 94:
            time = pt - r.range(1, 8 * unit)
        elif z < 97:
            time = S.now + P["future"]
        else:
            time = S.now + P["future"] + 1
        time = max(0, min(time, (1 << 32) - 1))
        if time < mtp:
            self.stats["b_time_below_mtp"] += 1
        if time < pt:
            self.stats["b_time_decreasing"] += 1
        pr = kv(S.emit("probe", self.name, parent, time))
        nxt = hexi(pr.get("next"))
        if nxt is None:
            return
        if self.kind == "vbk" and self.feasible(nxt) == "hard":
            # mining on top of this block would be too expensive (progpow): continue on another branch
            self.dead.add(parent)
        w = r.below(100)
        if w < 80:
            bits = nxt
        elif w < 86:
            bits = (nxt + 1) & 0xffffffff
        elif w < 92:
            bits = (nxt - 1) & 0xffffffff
        elif w < 96:
            bits = self.blocks[1]["bits"]
        else:
            bits = r.choice(WEIRD_BITS)
        if bits != nxt:
            self.stats["b_wrong_bits"] += 1
        pow_ = 0 if r.below(100) < 6 else 1
        f = self.feasible(bits)
        if f == "never":
            pow_ = 0
            self.stats["b_target_out_of_range"] += 1
        elif self.kind == "vbk" and pow_ == 0 and target_of(bits) < 2:
            pow_ = 1          # difficulty 1: every hash passes, a failing nonce does not exist
        if f == "hard" and pow_ == 1:
            if bits == nxt:
                self.stats["infeasible_prescribed"] += 1
            return
        ksmode = 0
        if self.kind == "vbk" and r.below(100) < 18:
            ksmode = r.range(1, 6)
            self.stats["b_wrong_ks_mode"] += 1
        self.accept(parent, time, bits, pow_, ksmode)


def directed_negative_timespan(T):
    """BTC: first block of an interval far in the future, last block of the interval back in the past:
    the actual timespan is negative (the F7 case)"""
    S, P = T.S, T.P
    I = P["timespan"] // P["spacing"]
    g = T.blocks[1]["t"]
    parent = T.tip
    start_h = T.blocks[parent]["h"]
    # go to the first block of the next interval (height multiple of I)
    h = start_h
    for _ in range(3 * I + 1):
        h += 1
        time = T.blocks[parent]["t"] if h % I != 0 else T.blocks[parent]["t"] + 900
        if h % I != 0 and h > I and (h - 1) % I == 0:
            time = T.blocks[parent]["t"] - 900
        pr = kv(S.emit("probe", T.name, parent, time))
        nxt = hexi(pr.get("next"))
        mtp = hexi(pr.get("mtp"), 0)
        if nxt is None or T.feasible(nxt) != "mine":
            return
        time = max(time, mtp)
        ans = T.accept(parent, time, nxt, 1)
        if ans["code"] != "ok":
            return
        parent = T.nid - 1


def gen_loaded(S, r, name, kind, P, n, stats, sparse=0):
    """chains inserted with loadBlockForward(fast_load): arbitrary difficulties and timestamps without mining,
    probed after every block (getNextWorkRequired / median time / validateKeystones are free functions)"""
    T = TreeGen(S, r, name, kind, P, stats)
    base = 100000
    # the bootstrap block must carry real proof of work: easiest possible difficulty (the harness lifts the
    # limit / minimum difficulty while it mines and inserts the bootstrap block)
    gb = 0x207fffff if kind == "btc" else 0x01010000
    T.new(base, gb)
    parent = 1
    unit = P["spacing"] if kind == "btc" else P["T"]
    for i in range(n):
        pt = T.blocks[parent]["t"]
        z = r.below(100)
        if z < 45:
            time = pt + r.range(0, 2 * unit)
        elif z < 65:
            time = pt + r.range(-8 * unit, 8 * unit)
        elif z < 80:
            time = pt + r.choice([6 * unit, 6 * unit + 1, 6 * unit - 1, -6 * unit, -6 * unit - 1, -6 * unit + 1, 0])
        elif z < 90:
            time = pt + r.range(-4000, 4000)
        else:
            time = r.choice([0, 1, (1 << 32) - 1, (1 << 31), (1 << 31) - 1, pt])
        time = max(0, min(time, (1 << 32) - 1))
        if kind == "btc":
            w = r.below(100)
            if w < 50:
                bits = T.blocks[parent]["bits"]
            elif w < 75:
                bits = compact_of(P["limit"])
            elif w < 95:
                bits = compact_of(max(1, P["limit"] >> r.range(0, 40)))
            else:
                bits = r.choice(WEIRD_BITS)
        else:
            w = r.below(100)
            if w < 40:
                bits = T.blocks[parent]["bits"]
            elif w < 85:
                bits = compact_of(max(1, r.bits(r.range(1, 70))))
            elif w < 93:
                bits = compact_of(r.bits(r.range(200, 255)) | 1)
            else:
                bits = r.choice(WEIRD_BITS)
        bid = T.nid
        T.nid += 1
        ans = kv(S.emit("load", name, bid, parent, time, bits))
        if ans["code"] != "ok":
            continue
        T.add(bid, parent, time, bits, True)
        if r.below(100) < (85 if not sparse else 100):
            parent = bid
        else:
            parent = r.choice(list(T.blocks))
        if sparse:
            # long chains under the real parameter sets: probe around the retarget boundaries and a few random places
            hh = T.blocks[bid]["h"]
            if not ((hh + 1) % sparse in (0, 1, 2, sparse - 1) or r.below(100) < 2):
                continue
        S.emit("probe", name, bid, min(time + r.range(0, 3 * unit), (1 << 32) - 1))
        if kind == "vbk":
            k1, k2 = T.keystones(bid, r.choice([0, 0, 0, 1, 2, 3, 4, 5, 6]))
            S.emit("ks", name, bid, k1, k2)
    return T


def btc_param_sets(r):
    lim248 = (1 << 248) - 1
    sets = [
        {"limit": lim248, "timespan": 16, "spacing": 2, "allow": 0, "noret": 0, "future": 7200},
        {"limit": lim248, "timespan": 12, "spacing": 3, "allow": 1, "noret": 0, "future": 7200},
        {"limit": lim248, "timespan": 10, "spacing": 5, "allow": 1, "noret": 1, "future": 600},
        {"limit": (1 << 247) - 1, "timespan": 40, "spacing": 10, "allow": 0, "noret": 0, "future": 60},
    ]
    for _ in range(2):
        sp = r.choice([1, 2, 3, 7])
        sets.append({"limit": (1 << r.range(245, 248)) - 1, "timespan": sp * r.choice([2, 3, 4, 5, 8]), "spacing": sp,
                     "allow": r.below(2), "noret": 1 if r.below(6) == 0 else 0, "future": r.choice([60, 600, 7200])})
    return sets


def vbk_param_sets(r):
    sets = [
        {"mindiff": 1, "noret": 0, "N": 5, "T": 10, "future": 300, "ks": 4},
        {"mindiff": 1, "noret": 0, "N": 3, "T": 30, "future": 300, "ks": 5},
        {"mindiff": 2, "noret": 0, "N": 8, "T": 5, "future": 40, "ks": 3},
        {"mindiff": 1, "noret": 1, "N": 4, "T": 10, "future": 300, "ks": 20},
    ]
    return sets


def vbk_loaded_sets(r):
    sets = [
        {"mindiff": 100000000, "noret": 0, "N": 10, "T": 30, "future": 300, "ks": 20},
        {"mindiff": 1, "noret": 0, "N": 5, "T": 10, "future": 300, "ks": 4},
        {"mindiff": 1000, "noret": 0, "N": 3, "T": 7, "future": 300, "ks": 3},
    ]
    for _ in range(2):
        N = r.range(3, 12)
        Tt = r.range(2, 60)
        sets.append({"mindiff": r.choice([1, 5, 1 << 20, 1 << 40]), "noret": 0, "N": N, "T": Tt, "future": 300, "ks": r.range(2, 9)})
    return sets


def generate(ctx, S, sizes, stats):
    r = ctx.rng
    real = {}
    for n in ("btc_main", "btc_test", "btc_regtest", "vbk_main", "vbk_test", "vbk_regtest"):
        real[n] = S.emit("params", n).split()
    S.emit("consts")
    S.set_now(200000)
    trees = []
    # interleave kinds so that several parameter sets of each kind live in one process
    bsets = btc_param_sets(r)
    vsets = vbk_param_sets(r)
    for i, P in enumerate(bsets):
        T = TreeGen(S, r.fork(), "B%d" % i, "btc", P, stats)
        T.new(S.now - 6000, compact_of(P["limit"]))
        trees.append((T, sizes["btc_ops"]))
    for i, P in enumerate(vsets):
        T = TreeGen(S, r.fork(), "V%d" % i, "vbk", P, stats)
        T.new(S.now - 6000, compact_of(r.choice([3, 4, 5])))
        trees.append((T, sizes["vbk_ops"]))
    for T, _ in trees:
        if T.kind == "btc" and not T.P["noret"]:
            directed_negative_timespan(T)
    # round-robin so that calls on different parameter sets alternate
    left = [n for _, n in trees]
    while any(x > 0 for x in left):
        for j, (T, _) in enumerate(trees):
            if left[j] > 0:
                for _ in range(min(left[j], 8)):
                    T.step()
                left[j] -= 8
    # loaded chains (no mining): deep arithmetic coverage
    for i, P in enumerate(vbk_loaded_sets(r)):
        n = sizes["vbk_loaded"] if P["N"] < 50 else sizes["vbk_loaded_main"]
        gen_loaded(S, r.fork(), "LV%d" % i, "vbk", P, n, stats)
    lsets = [{"limit": (1 << 255) - 1, "timespan": 2400, "spacing": 600, "allow": 1, "noret": 0, "future": 7200},
             {"limit": (1 << 224) - 1, "timespan": 1209600 // 504, "spacing": 600, "allow": 1, "noret": 0, "future": 7200},
             {"limit": (1 << 224) - 1, "timespan": 1 << 30, "spacing": 1 << 28, "allow": 0, "noret": 0, "future": 7200}]
    for i, P in enumerate(lsets):
        gen_loaded(S, r.fork(), "LB%d" % i, "btc", P, sizes["btc_loaded"], stats)
    # the REAL parameter sets (values regenerated from the headers, as reported by the model): long loaded chains
    for n in sizes["real_btc"]:
        v = real[n]
        P = {"limit": int(v[0], 16), "timespan": int(v[1], 16), "spacing": int(v[2], 16), "allow": int(v[3]),
             "noret": int(v[4]), "future": int(v[5], 16)}
        I = P["timespan"] // P["spacing"]
        gen_loaded(S, r.fork(), "R" + n, "btc", P, sizes["real_btc_len"], stats, sparse=I)
    for n in sizes["real_vbk"]:
        v = real[n]
        P = {"mindiff": int(v[0], 16), "noret": int(v[1]), "N": int(v[2], 16), "T": int(v[3], 16),
             "future": int(v[4], 16), "ks": int(v[5], 16)}
        gen_loaded(S, r.fork(), "R" + n, "vbk", P, sizes["vbk_loaded_main"], stats)


# ---------------------------------------------------------------------------------------------
def write_ops(path, ops):
    with open(path, "w") as f:
        for cid, op, args in ops:
            f.write("%s %s %s\n" % (cid, op, " ".join(args)))


def run_both(ctx, model, harness, ops, tag):
    inp = os.path.join(ctx.work, "ops-%s.txt" % tag)
    write_ops(inp, ops)
    log = os.path.join(ctx.work, "coef-%s.log" % tag)
    rc1, mres, _, merr = vlib.run_lines([model], inp, env={"POW_COEF_LOG": log})
    rc2, ires, orc, ierr = vlib.run_lines([harness], inp, timeout=3000)
    return rc1, mres, rc2, ires, merr + ierr, log


def tree_of(op, args):
    if op in ("params", "consts", "now"):
        return None
    return args[0] if args else None


def minimise(ops, bad_id):
    """keep the global ops and the ops of the tree of the first disagreeing case, cut after it"""
    idx = next((i for i, o in enumerate(ops) if o[0] == bad_id), None)
    if idx is None:
        return ops
    t = tree_of(ops[idx][1], ops[idx][2])
    out = []
    for cid, op, args in ops[:idx + 1]:
        tt = tree_of(op, args)
        if op == "now" or tt == t:
            out.append((cid, op, args))
    return out


def coq_eval(ctx, terms, timeout=600):
    """evaluate closed terms inside Coq (vm_compute), one `Eval` each; returns list of result strings"""
    if not terms:
        return []
    v = os.path.join(ctx.work, "cases.v")
    with open(v, "w") as f:
        f.write("From Coq Require Import ZArith List Floats.\nImport ListNotations.\n"
                "From VB Require Import Arith.CompactDefs Pow.PowBase Pow.BtcDefs Pow.VbkDefs Pow.VbkFloat.\n"
                "Local Open Scope Z_scope.\n")
        for t in terms:
            f.write("Eval vm_compute in (%s).\n" % t)
    rc, out, err = vlib.sh(["timeout", str(timeout), "coqc", "-Q", vlib.COQ, "VB", "-w", "-all", v], cwd=ctx.work, timeout=timeout + 30)
    if rc != 0:
        return None
    res = re.findall(r"=\s*(.*?)\s*:\s", out.replace("\n", " "))
    return res


def check_coefs(ctx, logs):
    """every (K, t) the OCaml driver evaluated with native floats is re-evaluated with VbkFloat.vbk_coef in Coq"""
    triples = {}
    for lg in logs:
        if os.path.exists(lg):
            for line in open(lg):
                p = line.split()
                if len(p) == 3:
                    triples[(int(p[0]), int(p[1]))] = p[2]
    keys = sorted(triples)
    ctx.cov["vbk_coef_points_checked_in_coq"] = len(keys)
    if not keys:
        return
    res = coq_eval(ctx, ["vbk_coef (%d) (%d)" % k for k in keys])
    if res is None or len(res) != len(keys):
        ctx.broken.append("corr:VbkFloat.vbk_coef: in-Coq evaluation failed (%s)" % (None if res is None else len(res)))
        return
    for k, rr in zip(keys, res):
        m = re.match(r"Some\s+\(?(-?\d+)", rr)
        got = m.group(1) if m else ("none" if rr.startswith("None") else rr)
        if got != triples[k]:
            ctx.broken.append("corr:VbkFloat.vbk_coef vs OCaml float step: K=%d t=%d coq=%s ocaml=%s" % (k[0], k[1], got, triples[k]))
            return


def check_samples_in_coq(ctx, model, ops, mres, nsamples):
    """extraction cross-check: sampled probes are re-evaluated by vm_compute on the Gallina definitions"""
    r = ctx.rng.fork()
    probes = [(i, o) for i, o in enumerate(ops) if o[1] == "probe" and mres.get(o[0], "").startswith("next=")]
    if not probes:
        return
    r.shuffle(probes)
    probes = sorted(probes[:nsamples])
    # ask the model for the chains: replay prefix + chain op
    params = {}
    for cid, op, args in ops:
        if op == "newbtc":
            params[args[0]] = ("btc", [int(a, 16) for a in args[1:7]])
        elif op == "newvbk":
            params[args[0]] = ("vbk", [int(a, 16) for a in args[1:7]])
    extra = []
    seq = []
    last = 0
    for i, (cid, op, args) in probes:
        seq += ops[last:i + 1]
        last = i + 1
        q = "q" + cid
        seq.append((q, "chain", [args[0], args[1]]))
        extra.append((q, cid, args))
    inp = os.path.join(ctx.work, "ops-chain.txt")
    write_ops(inp, seq)
    rc, res, _, err = vlib.run_lines([model], inp)
    terms = []
    expect = []
    for q, cid, args in extra:
        line = res.get(q, "")
        if " " not in line:
            continue
        hh, _, ch = line.partition(" ")
        items = []
        for it in ch.split(","):
            a, b, c = it.split(":")
            items.append("mkBidx %d %d %d" % (int(a, 16), int(b, 16), int(c, 16)))
        lst = "[" + "; ".join(items) + "]"
        kind, pv = params[args[0]]
        b = lambda x: "true" if x else "false"
        if kind == "btc":
            pt = "(mkBtcParams %d %d %d %s %s %d)" % (pv[0], pv[1], pv[2], b(pv[3]), b(pv[4]), pv[5])
            terms.append("(btc_next_work %s %d %s %d, btc_mtp %s)" % (pt, int(hh, 16), lst, int(args[2], 16), lst))
        else:
            pt = "(mkVbkParams %d %s %d %d %d %d)" % (pv[0], b(pv[1]), pv[2], pv[3], pv[4], pv[5])
            terms.append("(vbk_next_work_f %s %d %s, vbk_min_timestamp %s)" % (pt, int(hh, 16), lst, lst))
        expect.append((cid, mres[cid]))
    got = coq_eval(ctx, terms)
    ctx.cov["probes_reevaluated_in_coq"] = 0 if got is None else len(got)
    if got is None or len(got) != len(terms):
        ctx.broken.append("corr:extraction cross-check: in-Coq evaluation failed")
        return
    for (cid, exp), g in zip(expect, got):
        # canonical: "next=<hex> mtp=<hex>"
        m = re.match(r"\((Ok\s+\(?(-?\d+)\)?|Abort|Throw|Undef)\s*,\s*(Ok\s+\(?(-?\d+)\)?|\(?(-?\d+)\)?|Abort|Throw|Undef)\)", g.replace("%Z", ""))
        if not m:
            ctx.broken.append("corr:extraction cross-check: cannot parse Coq output %r" % g[:80])
            return
        nx = ("%x" % int(m.group(2))) if m.group(2) is not None else m.group(1).lower()
        second = m.group(4) if m.group(4) is not None else m.group(5)
        mt = ("%x" % int(second)) if second is not None else m.group(3).lower()
        if "next=%s mtp=%s" % (nx, mt) != exp:
            ctx.broken.append("corr:extraction cross-check: %s coq=%r ocaml=%r" % (cid, "next=%s mtp=%s" % (nx, mt), exp))
            return


def compare(ctx, model, harness, ops, tag, report=True):
    rc1, mres, rc2, ires, err, log = run_both(ctx, model, harness, ops, tag)
    bad = vlib.diff_results(mres, ires)
    order = {o[0]: i for i, o in enumerate(ops)}
    bad.sort(key=lambda i: order.get(i, 1 << 30))
    if (rc1 != 0 or rc2 != 0) and not bad:
        ctx.broken.append("runner(%s): model rc=%d impl rc=%d %s" % (tag, rc1, rc2, err[-300:]))
    if bad and report:
        first = bad[0]
        idx = order.get(first, len(ops) - 1)
        # 1st attempt: only the tree of the first disagreeing case; 2nd: the whole prefix (a defect that depends on
        # which parameter set was used first in the process - F6 - needs the other trees)
        reported = False
        for tag2, small in (("-min", minimise(ops, first)), ("-prefix", ops[:idx + 1])):
            rc1b, m2, rc2b, i2, _, _ = run_both(ctx, model, harness, small, tag + tag2)
            bad2 = vlib.diff_results(m2, i2)
            if bad2:
                byid = {o[0]: o for o in small}
                f2 = sorted(bad2, key=lambda i: order.get(i, 1 << 30))[0]
                ctx.violation({"kind": "ops", "cases": [list(o) for o in small], "first_disagreement": f2,
                               "case": list(byid.get(f2, ())), "model": m2.get(f2), "impl": i2.get(f2),
                               "what": "real BlockTree / contextual rule differs from the proved model (independent reference)"})
                reported = True
                break
        if not reported:
            ctx.broken.append("corr:Pow.accept: disagreement on %s not reproducible on re-run (model=%r impl=%r)"
                              % (first, mres.get(first), ires.get(first)))
    return mres, ires, bad, log


def run(ctx):
    ctx.prove(extra_targets=["Pow/VbkFloat.vo"])
    okm, model, mlog = vlib.build_model("Pow")
    okh, hs, hlog = vlib.build_harness(["h_pow"])
    if not okm:
        ctx.broken.append("model-build: " + mlog[-300:])
    if not okh:
        ctx.broken.append("harness-build: " + hlog[-300:])
    if not (okm and okh):
        return
    harness = hs["h_pow"]
    logs = []
    total = 0
    agree = 0

    if ctx.replay and "cases" in ctx.replay:
        ops = [(c[0], c[1], list(c[2])) for c in ctx.replay["cases"]]
        mres, ires, bad, log = compare(ctx, model, harness, ops, "replay")
        ctx.cov["evaluations"] = len(ops)
        ctx.cov["disagreements_checked"] = len(ops)
        ctx.cov["traces_validated_against_impl"] = len(ops) - len(bad)
        return

    # 1. corpus: witnesses of the repaired defects F6 / F7 and minimised past failures
    ncorp = 0
    if os.path.isdir(CORPUS):
        for fn in sorted(os.listdir(CORPUS)):
            if not fn.endswith(".ops"):
                continue
            ops = []
            for line in open(os.path.join(CORPUS, fn)):
                t = line.split()
                if len(t) >= 2 and not t[0].startswith("#"):
                    ops.append((t[0], t[1], t[2:]))
            mres, ires, bad, log = compare(ctx, model, harness, ops, "corpus-" + fn[:-4])
            logs.append(log)
            total += len(ops)
            agree += len(ops) - len(bad)
            ncorp += 1
    ctx.cov["corpus_files"] = ncorp

    # 2. generated scenarios
    if ctx.tier == "quick":
        sizes = {"btc_ops": 120, "vbk_ops": 56, "vbk_loaded": 40, "vbk_loaded_main": 130, "btc_loaded": 60,
                 "real_btc": ["btc_main"], "real_btc_len": 2030, "real_vbk": ["vbk_main"]}
        rounds = 1
    else:
        sizes = {"btc_ops": 400, "vbk_ops": 160, "vbk_loaded": 120, "vbk_loaded_main": 260, "btc_loaded": 300,
                 "real_btc": ["btc_main", "btc_test"], "real_btc_len": 4100, "real_vbk": ["vbk_main", "vbk_test"]}
        rounds = 4
    stats = {"codes": {}, "tip_switches": 0, "invalidations": 0, "b_time_below_mtp": 0, "b_time_decreasing": 0,
             "b_wrong_bits": 0, "b_wrong_ks_mode": 0, "infeasible_prescribed": 0, "b_target_out_of_range": 0}
    hist = {}
    distinct = set()
    for rd in range(rounds):
        S = Session(model, ctx.work)
        try:
            generate(ctx, S, sizes, stats)
        finally:
            S.close()
        ops = S.ops
        for k, v in S.hist.items():
            hist[k] = hist.get(k, 0) + v
        mres, ires, bad, log = compare(ctx, model, harness, ops, "gen%d" % rd)
        logs.append(log)
        total += len(ops)
        agree += len(ops) - len(bad)
        for o in ops:
            if o[1] in ("acc", "probe", "ks", "load", "inv", "dup"):
                distinct.add((o[1], tuple(o[2][1:])) if o[1] != "acc" else (o[1], tuple(o[2][2:])))
        # the interactive session and the batch run of the model must agree (driver determinism)
        if any(S.res.get(c) != mres.get(c) for c, _, _ in ops):
            ctx.broken.append("model-driver: interactive and batch runs differ")
        for o in ops[:2] + [x for x in ops if x[1] == "acc"][:2] + [x for x in ops if x[1] == "probe"][-2:]:
            ctx.sample({"case": list(o), "model": mres.get(o[0]), "impl": ires.get(o[0])})
        if rd == 0:
            check_samples_in_coq(ctx, model, ops, mres, 10 if ctx.tier == "quick" else 60)
        if ctx.violations:
            break
    check_coefs(ctx, logs)

    ctx.cov["evaluations"] = total
    ctx.cov["distinct_nontrivial"] = len(distinct)
    ctx.cov["rule"] = ("distinct = distinct (op, arguments without the tree name) among accept / probe / keystone / load / "
                       "invalidate / duplicate operations; every operation's full observation (verdict code, best tip, chain "
                       "work, height, prescribed bits, median time) is compared")
    ctx.cov["disagreements_checked"] = total
    ctx.cov["traces_validated_against_impl"] = agree
    ctx.cov["op_histogram"] = hist
    ctx.cov["verdict_histogram"] = stats["codes"]
    ctx.cov["boundary_hits"] = {k: v for k, v in stats.items() if k != "codes"}
    ctx.cov["parameter_sets"] = {"btc_mined": 6, "vbk_mined": 4, "vbk_loaded": 5, "btc_loaded": 3,
                                 "real_sets_from_generated_constants": sizes["real_btc"] + sizes["real_vbk"], "one_process": True}
    ctx.cov["trusted_base"] = [
        "VBK double step: OCaml native floats in the driver, every used (K,t) re-evaluated with Coq PrimFloat (VbkFloat.vbk_coef) on each run",
        "sampled probes re-evaluated inside Coq by vm_compute on the Gallina definitions (extraction cross-check)",
        "coq/Gen/ChainParams.v regenerated from btc_chain_params.hpp / vbk_chain_params.hpp / consts.hpp and compared with the "
        "values returned by the rebuilt library (op `params`)",
    ]
    # coverage sanity: a generator that stopped producing accepted blocks would make the comparison vacuous
    if stats["codes"].get("ok", 0) < 100:
        ctx.broken.append("generator: only %d accepted headers (coverage collapsed)" % stats["codes"].get("ok", 0))
