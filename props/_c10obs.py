"""C10 round 2: reload-observation correspondence. The extracted model (coq/Store/ReloadObsDefs.v: obs_state, load_obs
= save -> storage image -> load, observed) runs on the micro-op image of every dirty-probe history (save after every
operation, so every later save overwrites entries of earlier ones; each storage image is a crash point between two
save batches) and is compared, block by block and field by field, with a fresh library instance loaded from a copy of
the real storage (saveTrees / loadTrees): parent, height, status word, payload ids in order, containing endorsements,
refcount, finalized mark, endorsedBy."""
import os
import re

import vlib
from props import _store as S

_ALT = re.compile(r"^ALT_(a\d+)_h=(\d+)_st=(\d+)(_D)?(_F)?_pl=(\[[^\]]*\])_ce=(\[[^\]]*\])_by=(\[[^\]]*\])")


def _dots(l):
    return ".".join(l) if l else "-"


def alt_obs(dump, g, syn):
    """expected observation line (format of ocaml/StoreObs_driver.ml show_obs) + ids + per-block feature counts"""
    rows = {}
    best = None
    for l in dump.split(";"):
        m = _ALT.match(l)
        if m:
            rows[m.group(1)] = m
        elif l.startswith("ALT_best_"):
            best = l[len("ALT_best_"):]
    if "a0" not in rows or best is None:
        return None
    h0 = int(rows["a0"].group(2))
    out = []
    feat = dict(blocks=0, with_pl=0, with_ce=0, with_by=0, inactive=0, failed=0)
    for a, m in rows.items():
        par = g.alt[a]["parent"] if a != "a0" else None
        pl = [str(S.num(x)) for x in re.split(r"[,|\[\]]", m.group(6)) if x]
        ce = sorted("%d>%d" % (syn.eid(e), S.num(e.split(">")[0])) for e in m.group(7).strip("[]").split(",") if e)
        by = sorted(syn.eid(e) for e in m.group(8).strip("[]").split(",") if e)
        st = int(m.group(3))
        out.append("%d:%s:%d:%d:%s:%s:0:%d:%s" % (S.num(a), "-" if par is None else str(S.num(par)), int(m.group(2)) - h0, st,
                                                   _dots(pl), _dots(ce), 1 if m.group(5) else 0, _dots([str(x) for x in by])))
        feat["blocks"] += 1
        feat["with_pl"] += 1 if pl else 0
        feat["with_ce"] += 1 if ce else 0
        feat["with_by"] += 1 if by else 0
        feat["inactive"] += 0 if st & 512 else 1
        feat["failed"] += 1 if st & 224 else 0
    ids = ",".join(str(S.num(a)) for a in sorted(rows, key=S.num))
    return "tip=%d %s" % (S.num(best), ";".join(sorted(out))), ids, feat


def reload_obs_correspondence(ctx, model, sc, res, gens, stats):
    """-> texts of genuine disagreements between load_obs of the model and the reloaded library instance"""
    lines, exp = [], []
    by_hist = {}
    for i, tag in sc.meta.items():
        if tag[1] in ("probe0", "probe", "probeload"):
            by_hist.setdefault(tag[0], []).append((i, tag))
    k = 0
    for tb, items in by_hist.items():
        g = gens.get(tb)
        if g is None:
            continue
        syn = S.MicroSynth(g)
        first = [x for x in items if x[1][1] == "probe0"]
        if not first or res.get(first[0][0]) in (None, "DEAD"):
            continue
        prev, best0 = S._alt_view(res[first[0][0]])
        k += 1
        lines.append("h%d_i minit" % k)
        lines.append("h%d_s mop save" % k)
        steps = sorted((x for x in items if x[1][1] == "probe"), key=lambda x: x[1][2])
        loads = {x[1][2]: x[0] for x in items if x[1][1] == "probeload"}
        for i, tag in steps:
            cur = res.get(i)
            if cur in (None, "DEAD"):
                break
            after, best1 = S._alt_view(cur)
            pos = tag[2]
            for j, mo in enumerate(syn.ops_for(prev, after, best0, best1)):
                lines.append("h%d_%d_m%d mop %s" % (k, pos, j, mo))
                exp.append(("h%d_%d_m%d" % (k, pos, j), "mop", tb, pos, tag[3], "ok", None))
            lines.append("h%d_%d_s mop save" % (k, pos))
            if pos in loads and res.get(loads[pos]) not in (None, "DEAD"):
                live = alt_obs(cur, g, syn)
                rel = alt_obs(res[loads[pos]], g, syn)
                if live and rel:
                    lines.append("h%d_%d_o mobs %s" % (k, pos, live[1]))
                    lines.append("h%d_%d_x mloadx %s" % (k, pos, rel[1]))
                    exp.append(("h%d_%d_x" % (k, pos), "loadx", tb, pos, tag[3], rel[0], ("h%d_%d_o" % (k, pos), live[0], rel[2])))
            prev, best0 = after, best1
    if not lines:
        return []
    p = os.path.join(ctx.work, "model_c10_obs.txt")
    with open(p, "w") as f:
        f.write("\n".join(lines) + "\n")
    rc, mres, _, merr = vlib.run_lines([model], p, timeout=900)
    if rc != 0:
        ctx.broken.append("model-runner StoreObs rc=%d %s" % (rc, merr[-200:]))
    bad = []
    off = set()
    for (i, kind, tb, pos, w, want, extra) in exp:
        if tb in off:
            continue
        got = mres.get(i)
        if kind == "mop":
            if got != "ok":
                off.add(tb)
                stats["corr_obs_histories_desynced"] += 1
            continue
        oid, live_want, feat = extra
        stats["corr_reload_obs_compared"] += 1
        if got == want:
            for f, n in feat.items():
                stats["corr_reload_obs_" + f] += n
            if mres.get(oid) == live_want:
                stats["corr_live_obs_equal"] += 1
            continue
        if mres.get(oid) != live_want:
            # the micro-op image of the history already differs from the live instance in a field the status
            # comparison does not see (synthesis limit): not a statement about load
            off.add(tb)
            stats["corr_obs_histories_desynced"] += 1
            if len(ctx.cov["samples"]) < 6:
                ctx.sample({"obs_desync_after_op": list(w), "model_live": str(mres.get(oid))[:300], "impl_live": live_want[:300]})
            continue
        bad.append("corr:Store.ReloadObsDefs.load_obs model=%s reloaded-instance=%s after op %s (pos %d)"
                   % (str(got)[:400], want[:400], list(w), pos))
        off.add(tb)
    return bad
