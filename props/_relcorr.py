"""C13: the extracted three-typed relations model (coq/Mempool/RelDefs.v, `rstep`; model `Rel`, ocaml/Rel_driver.ml)
stepped against the real MemPool on the recorded histories.

Every mempool operation of instance A (sub / gen / rmall / cleanup / clear / reload) becomes one model step whose
inputs are the verdicts the implementation itself produced for that step:
  * submit: the SubmitResult printed by the harness (valid / stateful / stateless), for a VBK block also whether the
    stable tree has it;
  * connect pass (inside gen / rmall): read off the signal trace `on A relv` reports for the line just executed - an
    ATV/VTB signalled while connected and no longer in flight was answered VALID, one signalled while in flight
    FAILED_STATEFUL; for a VBK block the first signal (in flight? relation present?) decides, see ocaml/Rel_driver.ml;
  * cleanUp (alone, inside gen, inside rmall): tooOld / in-the-stable-tree / checkContextually evaluated by the harness
    over the whole registry with the expressions of MemPool::cleanUp, before AND after the line; they read the stable
    trees only, which the operation must not change - if the two evaluations differ the history is not compared further.
After every step all seven containers and the relations (ids per VBK block, with multiplicity) of the model must equal
what the implementation holds. The model is the proved specification of the bookkeeping given the verdicts, so a
difference that reproduces on a second run is a violation. Anything the translator cannot express (unregistered id,
mempool changed by a line that is no mempool operation, moving predicates) ends the comparison of THAT history and is
counted in cov["rel_skipped"]; it never raises an alarm."""
import os
import time

from props import _mempool as M

MPOPS = ("sub", "gen", "rmall", "cleanup", "clear", "reload")
ORACLE = ("old", "stab", "badb", "badw", "bada")
CONT = ("cv", "cw", "ca", "fv", "fw", "fa")


class Gap(Exception):
    """a step the translator cannot express"""


def kv(rep):
    return dict(x.split("=", 1) for x in rep.split(" ") if "=" in x)


def lst(s, sep=","):
    return [x for x in s.split(sep) if x]


def num(x, ty=None):
    """registry name -> number of the model's id space of that type"""
    if len(x) < 2 or not x[1:].isdigit() or (ty is not None and x[0] != ty):
        raise Gap("id " + x)
    return int(x[1:])


def nums(names, ty):
    return sorted(num(x, ty) for x in names)


def cs(l):
    return ",".join(str(x) for x in l)


class View:
    """parsed reply of `on A relv`"""

    def __init__(self, rep):
        d = kv(rep)
        self.raw = rep
        self.trace = [tuple(x.rsplit(":", 1)) for x in lst(d.get("tr", ""))]
        self.oracle = {k: lst(d.get(k, "")) for k in ORACLE}
        self.cont = {k: lst(d.get(k, "")) for k in CONT}
        self.rel = d.get("rel", "")
        self.pd = None
        if "pdc" in d:
            self.pd = (lst(d["pdc"]), lst(d["pdw"]), lst(d["pda"]))

    def canon(self):
        """the state in the format of the model driver"""
        ty = dict(cv="v", cw="w", ca="t", fv="v", fw="w", fa="t")
        parts = ["%s=%s" % (k, cs(nums(self.cont[k], ty[k]))) for k in CONT]
        rels = []
        for r in lst(self.rel, ";"):
            h, _, body = r.partition(":")
            a, _, w = body.partition("/")
            rels.append((num(h, "v"), nums(lst(a, "."), "t"), nums(lst(w, "."), "w")))
        rels.sort()
        parts.append("rel=" + ";".join("%d:%s/%s" % (h, ".".join(map(str, a)), ".".join(map(str, w))) for h, a, w in rels))
        return " ".join(parts)

    def oracle_args(self):
        o = self.oracle
        return "old=%s stab=%s badb=%s badv=%s bada=%s" % (
            cs(nums(o["old"], "v")), cs(nums(o["stab"], "v")), cs(nums(o["badb"], "v")),
            cs(nums(o["badw"], "w")), cs(nums(o["bada"], "t")))


def coracle_args(after):
    """what the resubmissions of the connect pass were answered, from the signal trace of the line (the driver
    documents how the first signal of a VBK block is read)"""
    first = {}
    okv, oka = set(), set()
    for name, bits in after.trace:
        if len(bits) != 3 or len(name) < 2:
            raise Gap("trace " + name)
        f, c = bits[0] == "1", bits[1] == "1"
        if name[0] == "v":
            first.setdefault(num(name, "v"), bits[:2])
        elif name[0] == "w":
            if c and not f:
                okv.add(num(name, "w"))
        elif name[0] == "t":
            if c and not f:
                oka.add(num(name, "t"))
        else:
            raise Gap("trace " + name)
    return "sigb=%s okv=%s oka=%s" % (",".join("%d:%s" % kv_ for kv_ in sorted(first.items())), cs(sorted(okv)),
                                      cs(sorted(oka)))


class Stepper:
    """one history: harness and model side by side. `run(lines)` -> None | ("gap", step, why) | ("diff", step, info)"""

    def __init__(self, harness, model, stats):
        self.h = harness
        self.m = model
        self.stats = stats
        self.script = []     # model driver lines
        self.carried = {}    # payload name -> declared
        self.synced = False  # the model state is known to equal the implementation's
        self.started = False
        self.sent = False
        self.last_model = None

    def msend(self, line):
        self.script.append(line)
        r = self.m.send(line)[0]
        if r.startswith("MODEL-ERROR"):
            raise Gap("model: " + r)
        return r

    def view(self, extra=""):
        return View(self.h.send(("on A relv " + extra).strip())[0])

    def declare(self, x):
        if x in self.carried or x[0] == "v":
            return
        r = self.h.send("on A info " + x)[0]
        if r.startswith("SKIP"):
            raise Gap("info " + x)
        b = r.split(" ")[0]
        self.msend("%s %d %d" % ("bop" if x[0] == "t" else "cont", num(x), num(b, "v")))
        self.carried[x] = b

    def declare_all(self, v):
        """payloads that can reach a relation in this step: everything in flight"""
        for x in v.cont["fw"] + v.cont["fa"]:
            self.declare(x)

    def run(self, lines, stop_at=None):
        self.msend("new")
        gap = None
        for li, line in enumerate(lines):
            if stop_at is not None and li > stop_at:
                break
            t = line.split(" ")
            is_mp = t[0] == "on" and len(t) > 2 and t[1] == "A" and t[2] in MPOPS
            if gap is not None or not is_mp:
                # keep the harness in step with the recorded history (other histories follow in the same process)
                self.h.send(line)
                if t[0] in ("inst", "twin") and "A" in t[1:3]:
                    self.synced = False
                continue
            self.sent = False
            try:
                res = self.step(li, line, t)
                if res is not None:
                    return res
            except Gap as g:
                gap = ("gap", li, str(g))
                if not self.sent:
                    self.h.send(line)
        return gap

    def hsend(self, line):
        self.sent = True
        return self.h.send(line)[0]

    def step(self, li, line, t):
        op = t[2]
        before = self.view(t[3] if op == "rmall" and len(t) > 3 else "")
        if self.synced and before.canon() != self.last_model:
            # a line that is no mempool operation changed the pool: outside the model
            raise Gap("pool changed between mempool operations")
        if not self.synced:
            # start of the history (or the instance was created anew): the pool must be empty
            if before.canon() != EMPTY:
                raise Gap("unsynchronised: the pool is not empty")
            if self.started:
                self.msend("clr")
        rep = self.hsend(line)
        if rep.startswith("SKIP"):
            return None
        after = self.view()
        if op in ("gen", "rmall", "cleanup") and before.oracle != after.oracle:
            self.synced = False
            raise Gap("cleanUp predicates moved during " + op)
        if op == "sub":
            x = t[3]
            if rep.startswith("valid"):
                v = "F"
            elif rep.startswith("stateful"):
                v = "T"
            elif rep.startswith("stateless"):
                v = "S"
            else:
                raise Gap("reply " + rep[:20])
            self.declare(x)
            if x[0] == "t":
                ml = "suba %s %d" % (v, num(x))
            elif x[0] == "w":
                ml = "subv %s %d" % (v, num(x))
            else:
                ml = "subb %s %d %d" % (v, 1 if x in after.oracle["stab"] else 0, num(x, "v"))
        elif op == "gen":
            self.declare_all(before)
            ml = "gen %s %s" % (coracle_args(after), before.oracle_args())
        elif op == "rmall":
            if before.pd is None:
                raise Gap("rmall of a block without PopData")
            self.declare_all(before)
            c, w, a = before.pd
            ml = "rmall pb=%s pv=%s pa=%s %s %s" % (cs(nums(c, "v")), cs(nums(w, "w")), cs(nums(a, "t")),
                                                   before.oracle_args(), coracle_args(after))
        elif op == "cleanup":
            ml = "clean " + before.oracle_args()
        elif op == "clear":
            ml = "clr"
        else:  # reload: a fresh, empty mempool
            if rep != "ok":
                raise Gap("reload: " + rep[:20])
            ml = "clr"
        impl = after.canon()
        model = self.msend(ml)
        self.started = True
        self.stats["steps"] += 1
        self.stats["ops"][op] = self.stats["ops"].get(op, 0) + 1
        self.last_model = model
        self.synced = True
        if model == impl:
            return None
        return ("diff", li, {"line": line, "model_step": ml, "model": model, "impl": impl, "impl_before": before.canon(),
                             "trace": ",".join("%s:%s" % e for e in after.trace)})


EMPTY = View("").canon()


def first_field_diff(a, b):
    da, db = kv(a), kv(b)
    for k in list(CONT) + ["rel"]:
        if da.get(k) != db.get(k):
            return "%s: model=%s impl=%s" % (k, da.get(k), db.get(k))
    return "model=%s impl=%s" % (a, b)


class HashMiss(Exception):
    pass


def _run(ctx, rel_path, model_path, scripts, budget_s, env):
    t0 = time.time()
    stats = dict(steps=0, ops={}, histories=0, skipped=0, gaps={})
    harness = M.Proc(rel_path, env=env)
    model = M.Proc(model_path)
    try:
        for lines in scripts:
            if time.time() - t0 > budget_s:
                stats["stopped_by_budget"] = True
                break
            stats["histories"] += 1
            st = Stepper(harness, model, stats)
            res = st.run(lines)
            if res is None:
                continue
            if res[0] == "gap":
                stats["skipped"] += 1
                why = res[2].split(" ")[0]
                stats["gaps"][why] = stats["gaps"].get(why, 0) + 1
                continue
            # the proved model and the implementation differ: once more from scratch to exclude flakiness
            _, li, info = res
            h2, m2 = M.Proc(rel_path), M.Proc(model_path)
            try:
                st2 = Stepper(h2, m2, dict(steps=0, ops={}))
                res2 = st2.run(lines, stop_at=li)
            finally:
                h2.close()
                m2.close()
            if res2 is None or res2[0] != "diff" or res2[1] != li:
                stats["flaky"] = stats.get("flaky", 0) + 1
                break
            info = res2[2]
            what = "relations model (coq/Mempool/RelDefs.v rstep) and MemPool differ after `%s`: %s" % (
                info["line"], first_field_diff(info["model"], info["impl"]))
            ctx.violation({"kind": "history", "harness": "h_mempool", "stage": "rel-model", "variant": "rel",
                           "lines": list(lines[:li + 1]), "model_script": list(st2.script), "step": info["line"],
                           "model_step": info["model_step"], "model": info["model"], "impl": info["impl"],
                           "impl_before": info["impl_before"], "signal_trace": info["trace"], "what": what})
            stats["violation"] = what
            break
    except M.Died as d:
        if env and "VERIF-HASH-MISS" in harness.stderr_text():
            model.close()
            raise HashMiss()
        ctx.broken.append("machinery: relations correspondence run died: %s" % d)
    harness.close()
    model.close()
    stats["wall_s"] = round(time.time() - t0, 1)
    return stats


def run(ctx, rel_path, model_path, scripts, budget_s, hashfile=None):
    """hashfile: VBK header hashes recorded while the histories were generated (the replay then skips vProgPoW); a
    miss only means the replay hashed a header the recording did not - the stage is then run again without preloading"""
    env = {"VERIF_HASH_LOAD": hashfile} if hashfile and os.path.exists(hashfile) else None
    try:
        stats = _run(ctx, rel_path, model_path, scripts, budget_s, env)
    except HashMiss:
        stats = _run(ctx, rel_path, model_path, scripts, budget_s, None)
        stats["hash_preload_missed"] = True
    ctx.cov["rel_steps_compared"] = ctx.cov.get("rel_steps_compared", 0) + stats["steps"]
    ctx.cov["rel_skipped"] = ctx.cov.get("rel_skipped", 0) + stats["skipped"]
    ctx.cov["rel_model"] = stats
    return stats


def replay(ctx, rel_path, model_path):
    """--replay of a violation reported by this stage"""
    lines = ctx.replay.get("lines", [])
    h, m = M.Proc(rel_path), M.Proc(model_path)
    stats = dict(steps=0, ops={})
    try:
        st = Stepper(h, m, stats)
        res = st.run(lines)
    finally:
        h.close()
        m.close()
    if res is not None and res[0] == "diff":
        info = res[2]
        ctx.violation({"kind": "history", "harness": "h_mempool", "stage": "rel-model", "variant": "rel",
                       "lines": list(lines[:res[1] + 1]), "model_script": list(st.script), "step": info["line"],
                       "model": info["model"], "impl": info["impl"],
                       "what": first_field_diff(info["model"], info["impl"])})
    ctx.cov["evaluations"] = len(lines)
    ctx.cov["rel_steps_compared"] = stats["steps"]
