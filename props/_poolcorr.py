"""C13: the extracted pool model (coq/Mempool/PoolDefs.v, one instance per payload type) stepped against the real
MemPool on recorded histories. Per mempool operation the harness reports the tree verdicts the model takes as
inputs (`on A bits`: payloads failing the contextual check, VTBs whose BTC context is missing, too old VBK blocks,
VBK blocks present in the stable or temporary tree) and afterwards its views (`on A mpv`: connected ATVs/VTBs, the
three in-flight sorted views IN VIEW ORDER); the model must reach the same sets and the same view order.

Not compared: the connected VBK blocks (relation headers follow the emptiness rules of the relations, which the
single-parent model does not have). A step in which a VTB lacks its BTC context is compared for ATVs / VBK blocks
only (the containing block enters the temporary tree although the VTB stays in flight)."""
import vlib
from props import _mempool as M


def code(x):
    n = int(x[1:])
    return 4 * n + {"v": 0, "t": 1, "w": 2}[x[0]]


def name(c):
    c = int(c)
    return {0: "v", 1: "t", 2: "w"}[c % 4] + str(c // 4)


def lst(s):
    return [x for x in s.split(",") if x]


def kv(rep):
    return dict(x.split("=", 1) for x in rep.split(" ") if "=" in x)


def parse_state(rep, conv):
    """'C atv=.. vtb=.. F atv=.. vtb=.. vbk=..' -> dict"""
    parts = rep.split(" ")
    out = {}
    sec = ""
    for p in parts:
        if p in ("C", "F"):
            sec = p
        elif "=" in p:
            k, v = p.split("=", 1)
            out[sec + k] = [conv(x) for x in lst(v)]
    return out


def run(ctx, rel_path, model_path, scripts, max_lines):
    stats = dict(steps=0, agree=0, skipped_vtb_btc=0, histories=0, ops={})
    harness = M.Proc(rel_path)
    model = M.Proc(model_path)
    from props import _mpxcheck
    raw_send = model.send

    def logged_send(line):      # every line the extracted model answers is kept for the in-Coq cross-check
        r = raw_send(line)
        _mpxcheck.POOL.append((stats["histories"], line, r[0]))
        return r
    model.send = logged_send
    used = 0
    try:
        for lines in scripts:
            if used > max_lines:
                break
            stats["histories"] += 1
            model.send("pnew")
            info = {}
            pdmap = {}
            sent = []

            def h(line):
                sent.append(line)
                return harness.send(line)[0]

            def define(x):
                if x in info:
                    return True
                r = harness.send("on A info " + x)[0]
                if r.startswith("SKIP"):
                    return False
                b, p, ht = r.split(" ")
                info[x] = (b, p, int(ht))
                # a block without a known parent (genesis): its context is never present (code 3 is no payload/block)
                model.send("pdef %d %d %d %d" % (code(x), int(ht), 3 if p == "?" else code(p), code(b)))
                return True

            class Vanished(Exception):
                pass

            def bits(extra=""):
                b = kv(harness.send(("on A bits " + extra).strip())[0])
                b = {k: lst(b.get(k, "")) for k in ("stale", "nobtc", "old", "present")}
                gone = model.send("psync base=%s" % ",".join(str(code(x)) for x in b["present"]))[0]
                if gone.strip():
                    raise Vanished()
                return b

            def cs(names):
                return ",".join(str(code(x)) for x in names)

            def clean_args(b):
                stale = b["stale"]
                old = set(b["old"])
                gca = [t for t in info if t[0] == "t" and (t in stale or info[t][0] in old)]
                return "gcw=%s gca=%s gfv=%s gfw=%s gfa=%s" % (
                    cs([x for x in stale if x[0] == "w"]), cs(gca), cs([x for x in stale if x[0] == "v"]),
                    cs([x for x in stale if x[0] == "w"]), cs([x for x in stale if x[0] == "t"]))

            def try_args(b):
                return "base=%s sv= sw=%s sa=%s" % (
                    cs(b["present"]), cs([x for x in set(b["stale"] + b["nobtc"]) if x[0] == "w"]),
                    cs([x for x in b["stale"] if x[0] == "t"]))

            li = 0
            for line in lines:
              li += 1
              try:
                  used += 1
                  t = line.split(" ")
                  mp_op = None
                  if t[0] == "pd" and len(t) > 1:
                      d = kv(line)
                      pdmap[t[1]] = (lst(d.get("vtbs", "")), lst(d.get("atvs", "")))
                  if t[0] == "on" and len(t) > 2 and t[1] == "A" and t[2] in ("sub", "gen", "rmall", "cleanup", "clear", "reload"):
                      mp_op = t[2]
                  if mp_op is None:
                      rep = h(line)
                      if t[0] == "altgen" and not rep.startswith("SKIP"):
                          d = kv(rep)
                          pdmap[t[1]] = (lst(d.get("vtbs", "")), lst(d.get("atvs", "")))
                      continue
                  nobtc = False
                  if mp_op == "sub":
                      x = t[3]
                      if not define(x):
                          h(line)
                          continue
                      b = bits(x)
                      rep = h(line)
                      if rep.startswith("SKIP"):
                          continue
                      if rep.startswith("stateless"):
                          v = "S"
                      elif x[0] == "t":
                          v = "T" if x in b["stale"] else "F"
                      elif x[0] == "w":
                          v = "T" if (x in b["stale"] or x in b["nobtc"]) else "F"
                          nobtc = x in b["nobtc"]
                      else:
                          v = "F"
                      ms = model.send("psub %d %d %s base=%s" % ({"v": 0, "w": 1, "t": 2}[x[0]], code(x), v, cs(b["present"])))[0]
                  elif mp_op == "gen":
                      b = bits()
                      nobtc = bool(b["nobtc"])
                      rep = h(line)
                      model.send("ptry " + try_args(b))
                      ms = model.send("pclean " + clean_args(b))[0]
                  elif mp_op == "rmall":
                      if t[3] not in pdmap:
                          rep = h(line)
                          if not rep.startswith("SKIP"):
                              raise M.Desync("rmall of a block whose body is unknown to the driver: " + line)
                          continue
                      b = bits()
                      nobtc = bool(b["nobtc"])
                      rep = h(line)
                      if rep.startswith("SKIP"):
                          continue
                      w, a = pdmap[t[3]]
                      model.send("pdrop w=%s a=%s" % (cs([x for x in w if x in info]), cs([x for x in a if x in info])))
                      model.send("pclean " + clean_args(b))
                      ms = model.send("ptry " + try_args(b))[0]
                  elif mp_op == "cleanup":
                      b = bits()
                      rep = h(line)
                      ms = model.send("pclean " + clean_args(b))[0]
                  elif mp_op == "clear":
                      rep = h(line)
                      ms = model.send("pclear")[0]
                  else:  # reload: a fresh, empty mempool
                      rep = h(line)
                      if rep == "ok":
                          ms = model.send("pclear")[0]
                      else:
                          continue
                  hs = harness.send("on A mpv")[0]
                  got = parse_state(hs, lambda x: x)
                  exp = parse_state(ms, name) if ms != "ABORT" else None
                  stats["steps"] += 1
                  stats["ops"][mp_op] = stats["ops"].get(mp_op, 0) + 1
                  keys = ["Catv", "Fatv", "Fvbk"] + ([] if nobtc else ["Cvtb", "Fvtb"])
                  if nobtc:
                      stats["skipped_vtb_btc"] += 1
                  ok = exp is not None
                  if ok:
                      for k in keys:
                          a_, b_ = got.get(k, []), exp.get(k, [])
                          if k[0] == "C":
                              a_, b_ = sorted(a_), sorted(b_)
                          if a_ != b_:
                              ok = False
                              bad = (k, a_, b_)
                              break
                  if ok:
                      stats["agree"] += 1
                      continue
                  # disagreement: the model is not the specification here -> a correspondence break (INFRA outcome 3)
                  what = "model ABORT" if exp is None else "%s: impl=%s model=%s" % (bad[0], ",".join(bad[1]), ",".join(bad[2]))
                  ctx.broken.append("corr:Mempool.PoolDefs.%s: first disagreeing input = history of %d lines ending in %r: %s"
                                    % (mp_op, len(sent), line, what))
                  ctx.cov.setdefault("pool_model_disagreement", {"lines": list(sent), "what": what})
                  raise StopIteration
              except Vanished:
                # a connected VTB/ATV whose carried block is in neither tree any more: outside the model's notion of
                # presence (base + blocks of connected payloads); the rest of this history is not compared
                stats["ended_vanished_context"] = stats.get("ended_vanished_context", 0) + 1
                for l2 in lines[li - 1:]:
                    if not l2.startswith("on A bits"):
                        harness.send(l2)
                break
    except StopIteration:
        pass
    except M.Died as d:
        ctx.broken.append("machinery: pool correspondence run died: %s" % d)
    harness.close()
    model.close()
    return stats
