"""C04 / C19: generator of histories with planted rule-breaking payloads (and the boundary
non-violations), honest histories with SP forking, and the evaluation of the harness answers.

RulesGen extends the shared WorldGen:
  * `decl ...` lines describe every created object at id level for the Coq rule model
    (ocaml/Rules_driver.ml); the harness answers "ok" to them,
  * tampered ATVs (`on A xatv`), VTBs built without the miner's own validation (`on A xvtb`),
  * honest bodies that stay honest under VBK/BTC forking (endorsed VBK block is an ancestor of the
    containing one, the BTC context connects to a block referenced at or below the containing height).
Every emitted line may carry a tag = the oracle to evaluate on the harness answer.
"""
from props._world import WorldGen


def prev_ks(h, ki, n):
    """n-th previous keystone height of a block at height h (protocol definition)"""
    if h <= 1 + n * ki:
        return 0
    return max(0, ((h - 2) // ki) * ki - n * ki)


C04_TAGS = ("refuse", "cmpref", "inv", "audit", "notin")
C19_TAGS = ("accept", "endorsed", "stateless", "connected", "mpvalid", "mpgen", "cmpok", "payout", "pubdata")


class RulesGen(WorldGen):
    def __init__(self, rng, cfg=None, inst="A"):
        self.tags = {}
        self.inst = inst
        super().__init__(rng, cfg)
        self.ki = self.cfg.get("alt_ki", 5)
        self.vsettle = self.cfg.get("vbk_settle", 400)
        # per ALT block: BTC block -> VBK blocks whose VTBs (applied along the ancestry) reference it ("" = bootstrap)
        self.alt["a0"]["kbref"] = {"b0": [""]}
        self.hdr = {"a0"}          # headers shown to the instance
        self.body = {"a0"}
        self.hidden = set()        # ALT blocks that are never shown (unknown endorsed block)
        self.planted = {}          # block id -> mutation name
        self.ops = {}
        self.now = 1700000000      # mirror of the registry's mocked clock (one tick per mining operation)
        self.vbk["v0"]["ts"] = 1603044490
        self.btc["b0"]["ts"] = 1296688602
        self._bdeclared = {"b0"}
        self._vempty = {}          # vbk parent -> its empty child (mining twice on one parent gives the SAME block)
        self._bempty = {}
        self._vtbkeys = set()

    # ------------------------------------------------------------ emission
    def tag(self, t):
        self.tags[len(self.lines) - 1] = t

    def decl(self, *w):
        self.emit("decl " + " ".join(str(x) for x in w), "ok")

    def on(self, *words, tag=None):
        if words[0] in ("verdict", "set") and getattr(self, "_now_declared", None) != self.now:
            self._now_declared = self.now
            self.decl("now", self.now)        # the mocked clock, for the model's "too far in the future" rule
        self.emit("on %s %s" % (self.inst, " ".join(words)))
        self.ops[words[0]] = self.ops.get(words[0], 0) + 1
        if tag is not None:
            self.tag(tag)

    # ------------------------------------------------------------ clock / timestamps
    def tick_ts(self, *vids):
        """one registry mining operation happened: the clock advanced by one, the new VBK blocks carry
        max(parent timestamp, clock)"""
        self.now += 1
        for v in vids:
            self.vbk[v]["ts"] = max(self.vbk[self.vbk[v]["parent"]]["ts"], self.now)

    def decl_vbk(self, v):
        self.decl("vbk", v, self.vbk[v]["parent"], self.vbk[v]["height"], self.vbk[v]["ts"])
        self.on("vtsof", v)

    def decl_btc(self, b):
        """declare BTC block b (and its not yet declared ancestors); blocks mined by the current operation carry
        max(parent timestamp, clock)"""
        todo = []
        c = b
        while c not in self._bdeclared:
            todo.append(c)
            c = self.btc[c]["parent"]
        for x in reversed(todo):
            if "ts" not in self.btc[x]:
                self.btc[x]["ts"] = max(self.btc[self.btc[x]["parent"]]["ts"], self.now)
            self._bdeclared.add(x)
            self.decl("btc", x, self.btc[x]["parent"], self.btc[x]["height"], self.btc[x]["ts"])
            self.on("btsof", x)

    def bmtp(self, parent):
        ts = []
        c = parent
        while c is not None and len(ts) < 11:
            ts.append(self.btc[c]["ts"])
            c = self.btc[c]["parent"]
        ts.sort()
        return ts[len(ts) // 2]

    def make_bts(self, parent, ts):
        """BTC header with a chosen (admissible) timestamp"""
        bid = "b%d" % self.nb
        self.nb += 1
        self.btc[bid] = dict(parent=parent, height=self.btc[parent]["height"] + 1, ts=ts)
        self.emit("on %s bts %s %d" % (self.inst, parent, ts), bid)
        self.now += 1
        if self.btc[bid]["height"] > self.btc[self.btip]["height"]:
            self.btip = bid
        self.decl_btc(bid)
        return bid

    def make_xvtbts(self, endorsed, last_known_btc, ts, vparent=None, bparent=None):
        """VTB whose BTC block of proof carries a chosen timestamp (may be inadmissible)"""
        bparent = self._uniq_bparent(endorsed, bparent)
        n0 = len(self.lines)
        btip0 = self.btip
        ok = self.bmtp(bparent) <= ts <= self.now + 1 + 7200
        w = WorldGen.make_vtb(self, endorsed, last_known_btc, vparent, bparent)
        if not ok:
            self.btip = btip0          # the miner's BTC tree does not get an inadmissible block: nothing is mined on it
        self.lines[n0] = "on %s xvtbts %s %d" % (self.inst, self.lines[n0].split(" ", 1)[1], ts)
        self.btc[self.vtb[w]["bop"]]["ts"] = ts
        self._decl_vtb(w)
        return w

    def vmin(self, parent):
        """minimum timestamp of a child of `parent`: lower median of the (up to) 20 timestamps ending at parent"""
        ts = []
        c = parent
        while c is not None and len(ts) < 20:
            ts.append(self.vbk[c]["ts"])
            c = self.vbk[c]["parent"]
        ts.sort()
        return ts[(len(ts) - 1) // 2]

    def make_vts(self, parent, ts):
        """VBK header with a chosen timestamp"""
        vid = "v%d" % self.nv
        self.nv += 1
        self.vbk[vid] = dict(parent=parent, height=self.vbk[parent]["height"] + 1, ts=ts)
        self.emit("on %s vts %s %d" % (self.inst, parent, ts), vid)
        self.now += 1
        self.decl_vbk(vid)
        return vid

    # ------------------------------------------------------------ miner (with declarations)
    def mine_vbk(self, parent=None):
        parent = parent or self.vtip
        if parent in self._vempty:
            return self._vempty[parent]
        v = super().mine_vbk(parent)
        self._vempty[parent] = v
        self.tick_ts(v)
        self.decl_vbk(v)
        return v

    def mine_btc(self, parent=None):
        parent = parent or self.btip
        if parent in self._bempty:
            return self._bempty[parent]
        b = super().mine_btc(parent)
        self._bempty[parent] = b
        self.tick_ts()
        self.decl_btc(b)
        return b

    def fresh_vbk(self, parent=None):
        """a VBK block on `parent` that did not exist before (extends through the empty child if there is one)"""
        parent = parent or self.vtip
        while parent in self._vempty:
            parent = self._vempty[parent]
        return self.mine_vbk(parent)

    def honest_ctx(self, e):
        h = self.alt[e]["height"]
        anc = self.ancestry(e)
        return h, anc[prev_ks(h, self.ki, 0)], anc[prev_ks(h, self.ki, 1)]

    def make_atv(self, endorsed, vparent=None, payout=None):
        # a unique payout info per ATV: identical (endorsed, payout, parent) would give the identical VBK block and ATV
        payout = "%s%04x" % (payout or "aa", self.nt)
        t = super().make_atv(endorsed, vparent, payout)
        v = self.atv[t]["bop"]
        self.tick_ts(v)
        self.decl_vbk(v)
        self.decl("atv", t, endorsed, v, "honest")
        self.atv[t]["ctx"] = self.honest_ctx(endorsed)
        self.on("atvinfo", t)
        return t

    def make_atvs_same_block(self, endorsed_list, vparent=None):
        """several honest ATVs (one per endorser: different payout infos, equal fees) in ONE VBK block"""
        vparent = vparent or self.vtip
        vid = "v%d" % self.nv
        self.nv += 1
        self.vbk[vid] = dict(parent=vparent, height=self.vbk[vparent]["height"] + 1)
        tids, words = [], []
        for e in endorsed_list:
            tid = "t%d" % self.nt
            self.nt += 1
            payout = "bb%04x" % int(tid[1:])
            self.atv[tid] = dict(endorsed=e, bop=vid, payout=payout, ctx=self.honest_ctx(e))
            tids.append(tid)
            words.append("%s:%s:%s" % (tid, e, payout))
        self.emit("on %s atvn %s %s" % (self.inst, vparent, " ".join(words)), vid)
        if self.vbk[vid]["height"] > self.vbk[self.vtip]["height"]:
            self.vtip = vid
        self.tick_ts(vid)
        self.decl_vbk(vid)
        for tid, e in zip(tids, endorsed_list):
            self.decl("atv", tid, e, vid, "honest")
            self.on("atvinfo", tid)
        return tids

    def make_endorse(self, endorsed, vparent, last_known_vbk):
        """endorsement whose PopData (connecting context) is produced by the library's miner from `last_known_vbk`"""
        tid = "t%d" % self.nt
        self.nt += 1
        payout = "cd%04x" % int(tid[1:])
        vid = "v%d" % self.nv
        self.nv += 1
        self.vbk[vid] = dict(parent=vparent, height=self.vbk[vparent]["height"] + 1)
        self.atv[tid] = dict(endorsed=endorsed, bop=vid, payout=payout, ctx=self.honest_ctx(endorsed))
        self.emit("on %s endorse %s %s %s %s %s" % (self.inst, tid, endorsed, vparent, last_known_vbk, payout), vid)
        if self.vbk[vid]["height"] > self.vbk[self.vtip]["height"]:
            self.vtip = vid
        self.tick_ts(vid)
        self.decl_vbk(vid)
        self.decl("atv", tid, endorsed, vid, "honest")
        self.on("atvinfo", tid)
        return tid

    def make_xatv(self, endorsed, dh, k1, k2, vparent=None, payout="010203"):
        """ATV whose context info is tampered: height + dh, keystones replaced ("=" keeps)"""
        vparent = vparent or self.vtip
        payout = "%s%04x" % (payout, self.nt)
        tid = "t%d" % self.nt
        self.nt += 1
        vid = "v%d" % self.nv
        self.nv += 1
        self.vbk[vid] = dict(parent=vparent, height=self.vbk[vparent]["height"] + 1)
        h, hk1, hk2 = self.honest_ctx(endorsed)
        ctx = (h + dh, hk1 if k1 == "=" else (None if k1 == "none" else k1),
               hk2 if k2 == "=" else (None if k2 == "none" else k2))
        self.atv[tid] = dict(endorsed=endorsed, bop=vid, payout=payout, ctx=ctx)
        self.emit("on %s xatv %s %s %s %s %d %s %s" % (self.inst, tid, endorsed, vparent, payout, dh, k1, k2), vid)
        if self.vbk[vid]["height"] > self.vbk[self.vtip]["height"]:
            self.vtip = vid
        self.tick_ts(vid)
        self.decl_vbk(vid)
        self.decl("atv", tid, endorsed, vid, "%x" % ctx[0] if ctx[0] >= 0 else "-%x" % -ctx[0], ctx[1] or "-", ctx[2] or "-")
        self.on("atvinfo", tid)
        return tid

    def _decl_vtb(self, w):
        d = self.vtb[w]
        v, b = d["containing"], d["bop"]
        if "ts" not in self.vbk[v]:
            self.tick_ts(v)
            self.decl_btc(b)
            self.decl_vbk(v)
        self.decl_btc(b)
        if d["bctx"] and d["bctx"][0] == "b0":
            # the library walked the BTC chain down to genesis (the "last known" block is on another fork): the
            # context connects to genesis, which every node knows
            self.decl("vtb", w, d["endorsed"], v, "b0", ",".join(d["bctx"][1:]))
        else:
            self.decl("vtb", w, d["endorsed"], v, d["last"], ",".join(d["bctx"]))
        self.on("vtbinfo", w)

    def _uniq_bparent(self, endorsed, bparent):
        # the BTC tx endorsing a VBK block is deterministic: the same (endorsed, BTC parent) would be the same BTC block
        bparent = bparent or self.btip
        while (endorsed, bparent) in self._vtbkeys:
            bparent = self.mine_btc(bparent)
        self._vtbkeys.add((endorsed, bparent))
        return bparent

    def make_vtb(self, endorsed, last_known_btc, vparent=None, bparent=None):
        bparent = self._uniq_bparent(endorsed, bparent)
        w = super().make_vtb(endorsed, last_known_btc, vparent, bparent)
        self._decl_vtb(w)
        return w

    def make_xvtb(self, endorsed, last_known_btc, vparent=None, bparent=None):
        """as make_vtb, but built without the miner's stateful validation (may be invalid)"""
        bparent = self._uniq_bparent(endorsed, bparent)
        n0 = len(self.lines)
        w = super().make_vtb(endorsed, last_known_btc, vparent, bparent)
        # rewrite the emitted registry line into the harness op
        self.lines[n0] = "on %s x%s" % (self.inst, self.lines[n0])
        self._decl_vtb(w)
        return w

    # ------------------------------------------------------------ ALT
    def new_alt(self, parent):
        a = super().new_alt(parent)
        self.alt[a]["kbref"] = dict(self.alt[parent]["kbref"])
        self.decl("alt", a, parent, self.alt[a]["height"])
        return a

    def set_pd(self, aid, atvs=(), vtbs=(), extra_ctx=(), ctx=None):
        super().set_pd(aid, atvs=atvs, vtbs=vtbs, extra_ctx=extra_ctx, ctx=ctx)
        a = self.alt[aid]
        ref = dict(self.alt[a["parent"]]["kbref"])
        for w in vtbs:
            self.ref_add(ref, w)
        a["kbref"] = ref
        self.decl("pd", aid, ",".join(a["ctx"]) or "-", ",".join(a["vtbs"]) or "-", ",".join(a["atvs"]) or "-")

    # ------------------------------------------------------------ SP helpers
    def v_is_anc(self, a, b):
        while b is not None:
            if b == a:
                return True
            b = self.vbk[b]["parent"]
        return False

    def ref_add(self, ref, w):
        c = self.vtb[w]["containing"]
        for b in self.vtb[w]["bctx"]:
            ref[b] = ref.get(b, []) + [c]

    def btc_ok(self, ref, b, vpar):
        """may a VTB contained in a NEW child of vpar start its BTC context after b?  (b referenced by the chain in
        a VBK ancestor of the containing block, or bootstrap)"""
        return any(c == "" or self.v_is_anc(c, vpar) for c in ref.get(b, []))

    def best_last(self, ref, vpar):
        ok = sorted([b for b in ref if self.btc_ok(ref, b, vpar)], key=lambda b: (self.btc[b]["height"], -int(b[1:])))
        return ok

    def make_vtb2(self, e1, e2, last, vparent=None, bparent=None):
        """two honest VTBs in ONE containing VBK block; the second connects to the first one's block of proof"""
        vparent = vparent or self.vtip
        bparent = self._uniq_bparent(e1, bparent)
        w1, w2 = "w%d" % self.nw, "w%d" % (self.nw + 1)
        self.nw += 2
        vid = "v%d" % self.nv
        self.nv += 1
        b1, b2 = "b%d" % self.nb, "b%d" % (self.nb + 1)
        self.nb += 2
        self.vbk[vid] = dict(parent=vparent, height=self.vbk[vparent]["height"] + 1)
        self.btc[b1] = dict(parent=bparent, height=self.btc[bparent]["height"] + 1)
        self.btc[b2] = dict(parent=b1, height=self.btc[b1]["height"] + 1)
        self._vtbkeys.add((e2, b1))
        self.vtb[w1] = dict(endorsed=e1, containing=vid, bop=b1, last=last, bctx=self.bpath(last, b1))
        self.vtb[w2] = dict(endorsed=e2, containing=vid, bop=b2, last=b1, bctx=[b2])
        self.emit("on %s vtb2 %s %s %s %s %s %s %s" % (self.inst, w1, w2, e1, e2, vparent, bparent, last),
                  "%s %s %s" % (vid, b1, b2))
        if self.vbk[vid]["height"] > self.vbk[self.vtip]["height"]:
            self.vtip = vid
        if self.btc[b2]["height"] > self.btc[self.btip]["height"]:
            self.btip = b2
        self._decl_vtb(w1)
        self._decl_vtb(w2)
        return w1, w2

    def v_anc(self, v, steps):
        out = [v]
        while steps > 0 and self.vbk[out[-1]]["parent"] is not None:
            out.append(self.vbk[out[-1]]["parent"])
            steps -= 1
        return out

    def b_is_anc(self, a, b):
        while b is not None:
            if b == a:
                return True
            b = self.btc[b]["parent"]
        return False

    def pick_vparent(self, fork=(1, 4)):
        r = self.r
        if r.chance(*fork):
            return r.choice(self.v_anc(self.vtip, 3))
        return self.vtip

    def honest_vtb(self, kbref, fork=(1, 4)):
        """an honest VTB deliverable on a chain whose BTC knowledge is kbref (btc -> lowest referencing VBK height)"""
        r = self.r
        vpar = self.pick_vparent(fork)
        e = r.choice(self.v_anc(vpar, min(self.vsettle - 1, 6)))
        ok = self.best_last(kbref, vpar)
        last = ok[-1] if r.chance(3, 4) else r.choice(ok)
        if self.b_is_anc(last, self.btip) and r.chance(3, 4):
            bpar = self.btip
        else:
            bpar = last
        if r.chance(1, 3):
            bpar = self.mine_btc(bpar)
        if fork[0] > 0 and self.btc[last]["height"] >= 2 and r.chance(1, 4):
            # honest BTC reorganisation: the chain's newest BTC block `last` is on the losing fork now, the pop miner
            # works on the winning one and still names `last` as the last block the altchain knows
            c = last
            for _ in range(r.range(1, 2)):
                c = self.btc[c]["parent"]
            b = c
            for _ in range(self.btc[last]["height"] - self.btc[c]["height"] + r.range(1, 2)):
                b = self.make_bts(b, max(self.bmtp(b), self.btc[b]["ts"]))
            bpar = b
        return self.make_vtb(e, last, vparent=vpar, bparent=bpar)

    def hblock(self, parent, n_atv=None, n_vtb=None, fork=(1, 4), endorse=None):
        """new ALT block on `parent` with an honest body (robust under SP forking)"""
        r = self.r
        aid = self.new_alt(parent)
        h = self.alt[aid]["height"]
        anc = self.ancestry(aid)[:-1]
        cands = [x for x in anc if x != "a0" and h - self.alt[x]["height"] <= self.settle()]
        atvs = []
        k = n_atv if n_atv is not None else r.below(3)
        for i in range(k):
            if not cands:
                break
            e = endorse[i] if endorse and i < len(endorse) else r.choice(cands)
            atvs.append(self.make_atv(e, vparent=self.pick_vparent(fork), payout=r.choice(["010203", "aabb", "cc"])))
        vtbs = []
        k = n_vtb if n_vtb is not None else r.below(2)
        ref = dict(self.alt[parent]["kbref"])
        for _ in range(k):
            w = self.honest_vtb(ref, fork)
            vtbs.append(w)
            self.ref_add(ref, w)
        self.set_pd(aid, atvs=atvs, vtbs=vtbs)
        return aid

    # ------------------------------------------------------------ instance driving
    def subtree(self, x):
        return [y for y in self.alt if x in self.ancestry(y)]

    def show(self, aid, order="random", headers_first=None):
        """make the instance see header and body of aid's ancestry"""
        r = self.r
        anc = [x for x in self.ancestry(aid)]
        if headers_first is None:
            headers_first = r.chance(1, 2)
        if headers_first:
            for x in anc:
                if x not in self.hdr:
                    self.on("hdr", x)
                    self.hdr.add(x)
            todo = [x for x in anc if x not in self.body]
            if order == "random":
                r.shuffle(todo)
            for x in todo:
                self.on("body", x)
                self.body.add(x)
        else:
            for x in anc:
                if x not in self.hdr:
                    self.on("hdr", x)
                    self.hdr.add(x)
                if x not in self.body:
                    self.on("body", x)
                    self.body.add(x)

    def verdict(self, a, tag=None):
        self.on("verdict", a, tag=tag)


# ---------------------------------------------------------------------------------------------
# planted rule violations and boundary non-violations
# ---------------------------------------------------------------------------------------------
VIOLATIONS = ["fork", "expired1", "unknown", "ctxheight", "keystone1", "keystone2", "dup_atv", "dup_vbk", "dup_vtb",
              "dup_final", "dup_finaljump", "vbktime_old", "vbktime_new", "btctime_old", "btctime_new", "vbkgap", "btcgap", "btcearly", "btcfork", "vtbcontaining", "vtbfork", "vtbexpired"]
BOUNDARIES = ["timely0", "parent", "dup_otherfork", "vtbsame", "vtbsettle0", "plain", "vbktime_min", "vbktime_max", "btctime_mtp"]
EXPECT_KIND = {"fork": "differs", "expired1": "expired", "unknown": "sfendorsed", "ctxheight": "sfcontext",
               "keystone1": "sfcontext", "keystone2": "sfcontext", "dup_atv": "dup", "dup_vbk": "dup", "dup_vtb": "dup",
               "dup_final": "dup", "dup_finaljump": "dup", "vbktime_old": "vbktime", "vbktime_new": "vbktime", "btctime_old": "btctime", "btctime_new": "btctime", "vbkgap": "vbkprev", "btcgap": "btcctx", "btcearly": "btcctx", "btcfork": "btcctx",
               "vtbcontaining": "vtbcontaining", "vtbfork": "vdiffers", "vtbexpired": "vexpired"}


def small_cfg(r, final=False):
    s = r.range(2, 4)
    cfg = dict(alt_settle=s, alt_ki=r.range(2, 4), vbk_settle=r.range(8, 12), payout_delay=s + r.below(2),
               alt_fd=r.range(2, 6))
    if final:
        cfg["alt_maxreorg"] = s + r.range(1, 2)      # the configuration must satisfy maxReorg > settlement
        # preserve >= settlement is the asserted relation; the previous keystones of a still-endorsable block must also
        # survive deallocation (else CheckPublicationData recomputes different context info): + 2*ki + 2 (see ASSUMPTIONS)
        cfg["alt_preserve"] = s + 2 * cfg["alt_ki"] + 2
    return cfg


def grow(g, parent, n, rich=(2, 3)):
    """honest chain of n blocks on parent; returns list of ids"""
    out = []
    for _ in range(n):
        if g.r.chance(*rich):
            parent = g.hblock(parent)
        else:
            parent = g.hblock(parent, n_atv=0, n_vtb=0)
        out.append(parent)
    return out


def plant(g, m, P):
    """new block X on P whose body breaks exactly rule m (or, for a boundary name, just does not).
    Returns X. May first extend the registry (never the instance)."""
    r = g.r
    s = g.settle()
    hP = g.alt[P]["height"]
    ancP = g.ancestry(P)            # root..P
    hX = hP + 1

    def honest_extra():
        # some honest payloads next to the offending one, so that position within the body varies
        return r.below(2), r.below(2)

    if m in ("expired1", "timely0"):
        eh = hX - s - (1 if m == "expired1" else 0)
        assert eh >= 1
        X = g.new_alt(P)
        t = g.make_atv(ancP[eh])
        g.set_pd(X, atvs=[t])
        return X
    if m == "parent":
        assert P != "a0"
        X = g.new_alt(P)
        g.set_pd(X, atvs=[g.make_atv(P)])
        return X
    if m == "plain":
        return g.hblock(P, n_atv=1 if P != "a0" else 0, n_vtb=1)
    if m == "fork":
        # endorsed block F: on a fork off an ancestor, known to the instance, inside the window by height
        lo = max(0, hX - s - 1)
        base = ancP[r.range(lo, hP - 1)] if hP >= 1 else "a0"
        F = g.new_alt(base)
        g.set_pd(F)
        while g.alt[F]["height"] < hP and r.chance(1, 2):
            F = g.new_alt(F)
            g.set_pd(F)
        g.show(F)
        X = g.new_alt(P)
        g.set_pd(X, atvs=[g.make_atv(F)])
        return X
    if m == "unknown":
        base = ancP[r.range(max(0, hX - s - 1), hP)]
        U = g.new_alt(base)
        g.hidden.add(U)
        g.decl("hidden", U)
        X = g.new_alt(P)
        g.set_pd(X, atvs=[g.make_atv(U)])
        return X
    if m in ("ctxheight", "keystone1", "keystone2"):
        cands = [x for x in ancP if x != "a0" and hX - g.alt[x]["height"] <= s]
        e = r.choice(cands)
        h, k1, k2 = g.honest_ctx(e)
        X = g.new_alt(P)
        if m == "ctxheight":
            t = g.make_xatv(e, r.choice([-1, 1, 2]), "=", "=")
        else:
            true = k1 if m == "keystone1" else k2
            others = [x for x in sorted(g.alt, key=lambda a: int(a[1:])) if x != true and x != X]
            near = [x for x in others if abs(g.alt[x]["height"] - g.alt[true]["height"]) <= 1]
            o = r.choice(near or others) if others else "none"
            t = g.make_xatv(e, 0, o if m == "keystone1" else "=", o if m == "keystone2" else "=")
        g.set_pd(X, atvs=[t])
        return X
    if m in ("dup_atv", "dup_vbk", "dup_vtb", "dup_otherfork"):
        # a payload id already contained in an ancestor (or, boundary, in a block of another fork)
        if m == "dup_otherfork":
            base = ancP[r.range(max(0, hP - 2), hP)] if hP >= 0 else "a0"
            side = g.hblock(base, n_atv=1 if base != "a0" else 0, n_vtb=1, fork=(0, 1))
            g.show(side)
            src = g.alt[side]
            X = g.new_alt(P)
            # re-deliver the side block's payloads where they are valid on this chain too
            atvs = [t for t in src["atvs"] if g.atv[t]["endorsed"] in ancP and hX - g.alt[g.atv[t]["endorsed"]]["height"] <= s]
            vt = []
            ref = g.alt[P]["kbref"]
            for w in src["vtbs"]:
                d = g.vtb[w]
                if g.btc_ok(ref, d["last"], g.vbk[d["containing"]]["parent"]):
                    vt.append(w)
            g.set_pd(X, atvs=atvs, vtbs=vt)
            return X
        want = {"dup_atv": "atvs", "dup_vbk": "ctx", "dup_vtb": "vtbs"}[m]
        holders = [x for x in ancP if g.alt[x][want]]
        if m == "dup_atv":
            holders = [x for x in holders
                       if any(hX - g.alt[g.atv[t]["endorsed"]]["height"] <= s for t in g.alt[x]["atvs"])]
        if not holders:
            # make one: a fresh honest block carrying such a payload, then X on top of it
            P = g.hblock(P, n_atv=1 if (m == "dup_atv" and P != "a0") else 0, n_vtb=1 if m == "dup_vtb" else 0,
                         fork=(0, 1), endorse=[P])
            if m == "dup_vbk" and not g.alt[P]["ctx"]:
                g.alt  # (context is empty only when nothing new was needed)
                v = g.fresh_vbk()
                P2 = g.new_alt(P)
                g.set_pd(P2, extra_ctx=[v])
                P = P2
            ancP = g.ancestry(P)
            hP = g.alt[P]["height"]
            hX = hP + 1
            holders = [P]
            if not g.alt[P][want]:
                return plant(g, "dup_vbk", P) if m != "dup_vbk" else None
        B = r.choice(holders)
        X = g.new_alt(P)
        if m == "dup_atv":
            t = r.choice([t for t in g.alt[B]["atvs"] if hX - g.alt[g.atv[t]["endorsed"]]["height"] <= s])
            g.set_pd(X, atvs=[t])
        elif m == "dup_vtb":
            g.set_pd(X, vtbs=[r.choice(g.alt[B]["vtbs"])])
        else:
            known = g.alt[P]["kv"]
            g.set_pd(X, ctx=[r.choice(g.alt[B]["ctx"])])
            g.alt[X]["kv"] = set(known)
        return X
    if m in ("vbktime_old", "vbktime_min", "vbktime_new", "vbktime_max"):
        # a VBK context chain with hand-picked, NON-MONOTONIC timestamps (each one admissible: at or above the lower
        # median of the 20 blocks before it), then the header under test: one below the minimum timestamp /
        # exactly the minimum / far beyond the future limit / exactly at the future limit
        c = g.fresh_vbk()
        T0 = g.vbk[c]["ts"]
        hi = T0 + 250
        style = 3 if (m == "vbktime_old" and r.chance(1, 2)) else r.below(4)
        k = r.range(6, 34)
        dip = []
        if style == 3:
            # >= 11 low blocks, 9 high ones (the median is still low), ONE dip, then exactly 10 high ones: the true
            # minimum is now high, while the 11th newest block of the window is the dip
            H, M = T0 + 200 + r.below(40), T0 + 60 + r.below(80)
            dip = [T0] * r.range(11, 14) + [H] * 9 + [M] + [H] * 10
            k = len(dip)
        for j in range(k):
            mn = g.vmin(c)
            if style == 3:
                ts = dip[j]
            elif style == 0:
                ts = r.range(mn, hi)
            elif style == 1:
                ts = (T0 + r.range(100, 250)) if r.chance(1, 2) else mn + r.below(3)
            else:
                # runs: low block, then high ones, one dip in the middle
                ph = (j * 3) // max(1, k)
                ts = mn + r.below(2) if (ph == 0 or r.chance(1, 8)) else T0 + 200 + r.below(50)
            ts = max(mn, min(ts, hi))
            c = g.make_vts(c, ts)
        mn = g.vmin(c)
        if m == "vbktime_old":
            v = g.make_vts(c, mn - 1 - (r.below(3) if r.chance(1, 3) else 0))
        elif m == "vbktime_min":
            v = g.make_vts(c, mn)
        elif m == "vbktime_new":
            v = g.make_vts(c, g.now + 1 + 300 + 5000)
        else:
            v = g.make_vts(c, max(mn, g.now + 1 + 300))
        X = g.new_alt(P)
        if r.chance(1, 2) and m in ("vbktime_old", "vbktime_new"):
            # the offending header is the block of proof of an ATV... not possible (its VBK tx must be in it); instead
            # sometimes deliver the admissible part one block earlier
            Q = X
            g.set_pd(Q, extra_ctx=[c])
            X = g.new_alt(Q)
        g.set_pd(X, extra_ctx=[v])
        if m in ("vbktime_min", "vbktime_max") and r.chance(1, 2):
            # honest mining goes on above the boundary header
            g.vtip = v if g.vbk[v]["height"] >= g.vbk[g.vtip]["height"] else g.vtip
        return X
    if m in ("btctime_old", "btctime_new", "btctime_mtp"):
        # a VTB whose BTC context is a chain with hand-picked, non-monotonic (admissible) timestamps and whose block
        # of proof is one below the median time past of 11 / exactly at it / far beyond the future limit
        ref = g.alt[P]["kbref"]
        vp = g.vtip
        last = g.best_last(ref, vp)[-1]
        c = g.btip if g.b_is_anc(last, g.btip) else last
        T0 = max(g.btc[c]["ts"], g.now)
        seq = None
        if m == "btctime_old" and r.chance(1, 2):
            # >= 6 low blocks, 5 high ones (the median of 11 is still low), one dip, 5 high ones: the true median is
            # high while the 6th newest block is the dip
            H, M = T0 + 2000 + r.below(500), T0 + 500 + r.below(1000)
            seq = [T0] * r.range(6, 8) + [H] * 5 + [M] + [H] * 5
        for j in range(len(seq) if seq else r.range(0, 16)):
            mn = g.bmtp(c)
            if seq:
                ts = seq[j]
            else:
                ts = (T0 + r.range(100, 3000)) if r.chance(1, 2) else mn + r.below(3)
            c = g.make_bts(c, max(mn, ts))
        mn = g.bmtp(c)
        ts = {"btctime_old": mn - 1 - r.below(2), "btctime_mtp": mn, "btctime_new": g.now + 1 + 7200 + 5000}[m]
        X = g.new_alt(P)
        w = g.make_xvtbts(r.choice(g.v_anc(vp, 3)), last, ts, vparent=vp, bparent=c)
        g.set_pd(X, vtbs=[w])
        if m != "btctime_mtp":
            # the miner does not know the inadmissible block: honest payloads built later must not refer to it
            bop = g.vtb[w]["bop"]
            g.alt[X]["kb"].discard(bop)
            g.alt[X]["kbref"].pop(bop, None)
        return X
    if m == "vbkgap":
        a = g.fresh_vbk()
        b = g.mine_vbk(a)
        c = g.mine_vbk(b)
        X = g.new_alt(P)
        known = g.alt[P]["kv"]
        path = g.vpath(known, c)
        drop = r.choice(path[:-1])
        g.set_pd(X, ctx=[v for v in path if v != drop])
        return X
    if m == "btcgap":
        b1 = g.mine_btc(g.btip)
        while b1 in g.alt[P]["kb"]:
            b1 = g.mine_btc(b1)
        b2 = g.mine_btc(b1) if r.chance(1, 2) else b1
        while b2 in g.alt[P]["kb"]:
            b2 = g.mine_btc(b2)
        X = g.new_alt(P)
        w = g.make_vtb(r.choice(g.v_anc(g.vtip, 3)), b2)
        g.set_pd(X, vtbs=[w])
        return X
    if m == "btcearly":
        # w2 (contained LOW, in c2) starts its BTC context after bX, which the chain only learns through w1,
        # contained HIGHER on the same VBK chain: bX is referenced too late for c2
        ref = g.alt[P]["kbref"]
        vp2 = g.vtip
        last0 = g.best_last(ref, vp2)[-1]
        bX = g.mine_btc(g.btip if g.b_is_anc(last0, g.btip) else last0)
        while bX in g.alt[P]["kb"]:
            bX = g.mine_btc(bX)
        w2 = g.make_vtb(r.choice(g.v_anc(vp2, 2)), bX, vparent=vp2, bparent=bX)
        c = g.vtb[w2]["containing"]
        for _ in range(r.below(2)):
            c = g.mine_vbk(c)
        w1 = g.make_vtb(r.choice(g.v_anc(c, 2)), last0, vparent=c, bparent=g.vtb[w2]["bop"])
        if r.chance(1, 2):
            X = g.new_alt(P)
            g.set_pd(X, vtbs=[w1, w2])
        else:
            Q = g.new_alt(P)
            g.set_pd(Q, vtbs=[w1])
            X = g.new_alt(Q)
            g.set_pd(X, vtbs=[w2])
        return X
    if m == "btcfork":
        # w2 connects to BTC blocks that only a VTB in a SIBLING VBK block (another VBK fork) made known
        ref = g.alt[P]["kbref"]
        vp1 = g.fresh_vbk()
        last = g.best_last(ref, vp1)[-1]
        bpar = g.btip if g.b_is_anc(last, g.btip) else last
        w1 = g.make_vtb(r.choice(g.v_anc(vp1, 3)), last, vparent=vp1, bparent=bpar)
        b_new = g.vtb[w1]["bop"]
        w2 = g.make_vtb(r.choice(g.v_anc(vp1, 2)), b_new, vparent=vp1, bparent=b_new)
        if r.chance(1, 2):
            X = g.new_alt(P)
            g.set_pd(X, vtbs=[w1, w2])
        else:
            Q = g.new_alt(P)
            g.set_pd(Q, vtbs=[w1])
            X = g.new_alt(Q)
            g.set_pd(X, vtbs=[w2])
        return X
    if m == "vtbsame":
        # boundary: the connecting BTC block is referenced at EXACTLY the containing height (same VBK block)
        ref = g.alt[P]["kbref"]
        vp = g.vtip
        last = g.best_last(ref, vp)[-1]
        bpar = g.btip if g.b_is_anc(last, g.btip) else last
        w1, w2 = g.make_vtb2(r.choice(g.v_anc(vp, 3)), r.choice(g.v_anc(vp, 3)), last, vparent=vp, bparent=bpar)
        if r.chance(1, 2):
            X = g.new_alt(P)
            g.set_pd(X, vtbs=[w1, w2])
        else:
            Q = g.new_alt(P)
            g.set_pd(Q, vtbs=[w1])
            X = g.new_alt(Q)
            g.set_pd(X, vtbs=[w2])
        return X
    if m == "vtbcontaining":
        X = g.new_alt(P)
        w = g.honest_vtb(g.alt[P]["kbref"], fork=(0, 1))
        known = g.alt[P]["kv"]
        path = g.vpath(known, g.vtb[w]["containing"])
        g.set_pd(X, vtbs=[w], ctx=path[:-1])
        return X
    if m == "vtbfork":
        f1 = g.fresh_vbk()             # fork block (endorsed), known to the chain through the context
        base = g.vbk[f1]["parent"]
        # a second, different child of `base`: a block carrying some VBK tx (the ATV itself is not used)
        tmp = g.make_atv(sorted(x for x in g.alt if x != "a0" and x not in g.hidden)[0], vparent=base)
        m1 = g.atv[tmp]["bop"]
        m2 = g.mine_vbk(m1)
        ref = g.alt[P]["kbref"]
        last = g.best_last(ref, m2)[-1]
        bpar = g.btip if g.b_is_anc(last, g.btip) else last
        X = g.new_alt(P)
        w = g.make_xvtb(f1, last, vparent=m2, bparent=bpar)
        g.set_pd(X, vtbs=[w], extra_ctx=[f1])
        return X
    if m in ("vtbexpired", "vtbsettle0"):
        vs = g.vsettle
        need = vs + 2
        while g.vbk[g.vtip]["height"] < need:
            g.fresh_vbk()
        vpar = g.vtip
        d = vs + (1 if m == "vtbexpired" else 0)       # containing height - endorsed height
        e = g.v_anc(vpar, d - 1)[-1]
        ref = g.alt[P]["kbref"]
        last = g.best_last(ref, vpar)[-1]
        bpar = g.btip if g.b_is_anc(last, g.btip) else last
        X = g.new_alt(P)
        w = (g.make_xvtb if m == "vtbexpired" else g.make_vtb)(e, last, vparent=vpar, bparent=bpar)
        g.set_pd(X, vtbs=[w])
        return X
    raise ValueError(m)


def attempts(g, X, descendants, planted):
    """random call order reaching X (and its descendants); tags say what the answers must be"""
    r = g.r
    targets = [X] + descendants
    acts = []
    for t in targets:
        acts.append(("verdict", t))
        if r.chance(1, 2):
            acts.append(("cmp", t))
        if r.chance(1, 3):
            acts.append(("set", t))
    r.shuffle(acts)
    if not planted:
        # the first attempt on X decides; make it a verdict so the answer is observable
        acts = [("verdict", X)] + acts
    for kind, t in acts:
        if kind == "verdict":
            g.verdict(t, tag=("refuse" if planted else "accept", t))
        elif kind == "set":
            g.on("set", t, tag=("refuse" if planted else "accept", t))
        else:
            g.on("cmpx", t, tag=("cmpref", t) if planted else ("cmpok", t))
        if r.chance(1, 4):
            g.on("audit", tag=("audit",))


def case_c04(rng, m, depth=None):
    """one history: honest random tree, block X breaking rule m at some depth, random call orders"""
    r = rng
    final = m in ("dup_final", "dup_finaljump")
    g = RulesGen(r, small_cfg(r, final))
    s = g.settle()
    planted = m in VIOLATIONS
    # honest base
    main = grow(g, "a0", r.range(1, 3) if depth is None else depth)
    if m in ("expired1",) and len(main) < s + 1:
        main += grow(g, main[-1], s + 1 - len(main) + r.below(2))
    if m == "timely0" and len(main) < s:
        main += grow(g, main[-1], s - len(main) + r.below(2))
    side = []
    if r.chance(1, 2) and not final:
        base = r.choice(["a0"] + main[:-1])
        side = grow(g, base, r.range(1, 3))
    if final:
        # long enough that the lower part is finalized and deallocated
        mr = g.cfg["alt_maxreorg"]
        main = [g.hblock("a0", n_atv=0, n_vtb=1, fork=(0, 1))]
        v = g.fresh_vbk()
        q = g.new_alt(main[-1])
        g.set_pd(q, extra_ctx=[v])
        main.append(q)
        main += grow(g, main[-1], mr + g.cfg["alt_preserve"] + 2 + r.below(2), rich=(1, 3))
        if m == "dup_final":
            # finalization advances block by block (a saved tree; explicit finalizeBlocks() or a reloaded instance)
            loaded = False
            for x in main:
                g.show(x, order="inorder", headers_first=False)
                g.on("set", x, tag=("accept", x))
                g.on("save")
                if not loaded and r.chance(1, 6):
                    g.on("reload")
                    loaded = True
                g.on("fin")
        else:
            # finalization JUMPS over many blocks at once: explicit finalizeBlocks() after a batch, or the first
            # tip change of a reloaded instance
            if r.chance(1, 2):
                g.show(main[-1], order="inorder", headers_first=False)
                g.on("set", main[-1], tag=("accept", main[-1]))
                g.on("save")
                g.on("fin")
            else:
                g.show(main[-2], order="inorder", headers_first=False)
                g.on("set", main[-2], tag=("accept", main[-2]))
                g.on("save")
                g.on("reload")
                g.show(main[-1], order="inorder", headers_first=False)
                g.on("set", main[-1], tag=("accept", main[-1]))
        g.on("audit", tag=("audit",))
        P = main[-1]
        src = main[0] if r.chance(1, 2) else main[1]
        X = g.new_alt(P)
        known = g.alt[P]["kv"]
        if g.alt[src]["vtbs"] and r.chance(1, 2):
            g.set_pd(X, vtbs=[g.alt[src]["vtbs"][0]])
        else:
            g.set_pd(X, ctx=[g.alt[src]["ctx"][-1]])
            g.alt[X]["kv"] = set(known)
        g.planted[X] = m
    else:
        # depth of the planted block: any block of the main chain (or the root) as parent
        if m in ("expired1",):
            cands = [x for x in main if g.alt[x]["height"] >= s + 1]
        elif m == "timely0":
            cands = [x for x in main if g.alt[x]["height"] >= s]
        elif m in ("parent", "ctxheight", "keystone1", "keystone2"):
            cands = main
        else:
            cands = ["a0"] + main
        P = r.choice(cands)
        # the instance may already be somewhere before the offending block is even created
        pre = r.below(4)
        if pre == 0:
            g.show(main[-1])
            g.on("set", main[-1], tag=("accept", main[-1]))
        elif pre == 1 and side:
            g.show(side[-1])
            g.on("set", side[-1], tag=("accept", side[-1]))
        X = plant(g, m, P)
        if X is None:
            return None
        if planted:
            g.planted[X] = m
    desc = []
    d = X
    for _ in range(r.below(3)):
        d = g.hblock(d, fork=(0, 1)) if not final else g.hblock(d, n_atv=0, n_vtb=0)
        desc.append(d)
    # deliver
    deepest = desc[-1] if desc else X
    if r.chance(1, 3) and side and not final:
        g.show(side[-1])
        g.on("set", side[-1], tag=("accept", side[-1]))
    g.show(deepest)
    if r.chance(1, 3) and P != "a0" and not final:
        g.on("set", P, tag=("accept", P))
    attempts(g, X, desc, planted)
    if planted:
        g.on("valid", X, tag=("inv", X))
        g.on("tip", tag=("notin", X))
    else:
        for t in g.alt[X]["atvs"]:
            g.on("set", X, tag=("accept", X))
            g.on("endorsed", t, X, tag=("endorsed", t))
            break
    g.on("audit", tag=("audit",))
    # honest activity goes on next to the refused block
    H = g.hblock(P, fork=(0, 1)) if not final else g.hblock(P, n_atv=0, n_vtb=0)
    g.show(H)
    g.verdict(H, tag=("accept", H))
    g.on("stateless", H, tag=("stateless", H))
    g.on("audit", tag=("audit",))
    g.meta = dict(mutation=m, X=X, P=P, planted=planted, depth=g.alt[X]["height"], desc=len(desc),
                  expect_kind=EXPECT_KIND.get(m))
    return g


# ---------------------------------------------------------------------------------------------
# shared payloads: the SAME payload in blocks of sibling forks, one holder goes away, the payload is repeated
# ---------------------------------------------------------------------------------------------
SHARED_KINDS = ["vbk", "vtb", "atv"]
# how one holder of the shared payload disappears:
#   rm     removeSubtree of a fork holder            rmpl   removePayloads of a fork holder
#   mpgen  the mempool's temporary block on the active tip takes the payload and is removed again
#   mpfail the mempool's temporary block tries the payload, the command fails, the payload is withdrawn (ATV only)
#   fin    a fork holder is deallocated as a "parallel" block when its sibling on the active chain is finalized
SHARED_PATHS = ["rm", "rmpl", "mpgen", "mpfail", "fin"]


def shared_combos():
    out = []
    for p in SHARED_PATHS:
        for k in SHARED_KINDS:
            if p == "mpfail" and k != "atv":
                continue
            if p == "fin" and k == "atv":
                continue          # an ATV repeated above a finalization distance is expired anyway
            out.append((k, p))
    return out


def _shared_payload(g, kind, base):
    """a payload that is valid in a child of `base` on every fork (keyword arguments of set_pd)"""
    r = g.r
    if kind == "vbk":
        v = g.fresh_vbk()
        for _ in range(r.below(2)):
            v = g.fresh_vbk(v)
        return dict(extra_ctx=[v])
    if kind == "vtb":
        return dict(vtbs=[g.honest_vtb(g.alt[base]["kbref"], fork=(0, 1))])
    return dict(atvs=[g.make_atv(base, payout=r.choice(["010203", "aabb", "cc"]))])


def _hold(g, parent, P, extra=True):
    """new block on `parent` carrying the shared payload (sometimes next to an own honest ATV)"""
    r = g.r
    X = g.new_alt(parent)
    kw = {k: list(v) for k, v in P.items()}
    if extra and parent != "a0" and r.chance(1, 3):
        kw["atvs"] = kw.get("atvs", []) + [g.make_atv(parent)]
        if r.chance(1, 2):
            kw["atvs"].reverse()
    g.set_pd(X, **kw)
    return X


def _repeat_same_chain(g, kind, P, parent, holder):
    """new block on `parent` repeating the shared payload that `holder` (an ancestor) already carries"""
    r = g.r
    X = g.new_alt(parent)
    if kind == "vbk":
        known = g.alt[parent]["kv"]
        shared = [v for v in g.alt[holder]["ctx"]] or list(P["extra_ctx"])
        v = P["extra_ctx"][0] if r.chance(2, 3) else r.choice(shared)
        g.set_pd(X, ctx=[v])
        g.alt[X]["kv"] = set(known)
    else:
        g.set_pd(X, **P)          # its VBK context is known to the chain already: only the VTB / ATV is repeated
    return X


def _refused(g, X, with_desc=True):
    r = g.r
    desc = []
    d = X
    if with_desc:
        for _ in range(r.below(2)):
            d = g.hblock(d, n_atv=0, n_vtb=0)
            desc.append(d)
    g.show(desc[-1] if desc else X)
    attempts(g, X, desc, True)
    g.on("valid", X, tag=("inv", X))
    g.on("tip", tag=("notin", X))
    g.on("audit", tag=("audit",))
    g.planted[X] = "shared"


def _forget(g, x):
    for y in g.subtree(x):
        g.hdr.discard(y)
        g.body.discard(y)


def case_shared(rng, kind, path):
    """the same payload (VBK context block / VTB / ATV) sits in blocks of sibling forks (2, sometimes 3 holders);
    one holder disappears (`path`); then the payload is repeated
      (a) in a chain that still holds it -> must be refused (before and after the holder disappeared),
      (b) in a chain that does not hold it (any more) -> accepted."""
    r = rng
    if path == "fin":
        return _case_shared_fin(r, kind)
    g = RulesGen(r, small_cfg(r))
    s = g.settle()
    main = grow(g, "a0", r.range(1, 3))
    base = main[-1]
    if r.chance(1, 3):
        g.show(base)
        g.on("set", base, tag=("accept", base))
    if path == "mpfail":
        # base - N.. (active)      base - F1 - F2{t endorses F1}: t can only ever be valid in F1's chain
        N = grow(g, base, r.range(1, 2), rich=(1, 3))
        F1 = g.hblock(base, n_atv=0, n_vtb=0)
        P = dict(atvs=[g.make_atv(F1)])
        F2 = _hold(g, F1, P, extra=False)
        g.show(F2)
        g.show(N[-1])
        g.on("set", N[-1], tag=("accept", N[-1]))
        t = P["atvs"][0]
        for v in g.alt[F2]["ctx"]:
            g.on("mpsub", "vbk", v)
        g.on("mpsub", "atv", t)
        D = g.new_alt(N[-1])
        g.on("mpgen", D)
        g.decl("pd", D, "-", "-", "-")
        g.on("audit", tag=("audit",))
        X = _repeat_same_chain(g, "atv", P, F2, F2)
        _refused(g, X)
        g.verdict(F2, tag=("accept", F2))
        g.on("audit", tag=("audit",))
        g.meta = dict(mutation="shared_atv_mpfail", X=X, P=F2, planted=True, depth=g.alt[X]["height"], desc=0,
                      expect_kind="dup", holders=1)
        return g
    P = _shared_payload(g, kind, base)
    # chain A (will be active) and the fork holders; for an ATV every repetition stays inside the settlement interval
    A1 = _hold(g, base, P)
    between = r.below(s - 1) if kind == "atv" else r.below(3)
    A = [A1]
    tipA = A1
    for _ in range(between):
        tipA = g.hblock(tipA, n_atv=0, n_vtb=0)
        A.append(tipA)
    F1 = _hold(g, base, P)
    three = r.chance(1, 3)
    G1 = _hold(g, base, P) if three else None
    mp = path == "mpgen"
    # delivery: every holder is known to the instance with its body; A (or, for the mempool path, a chain without
    # the payload) is active
    order = [tipA, F1] + ([G1] if G1 else [])
    r.shuffle(order)
    for x in order:
        g.show(x)
        if not mp and r.chance(1, 3):
            g.on("set", x, tag=("accept", x))      # the other forks have been active once
    if mp:
        N = grow(g, base, 1 if kind == "atv" else r.range(1, 2), rich=(1, 3))
        g.show(N[-1])
        g.on("set", N[-1], tag=("accept", N[-1]))
    else:
        g.on("set", tipA, tag=("accept", tipA))
    g.on("audit", tag=("audit",))
    # (a) while every holder is still there
    if r.chance(1, 2):
        E = _repeat_same_chain(g, kind, P, tipA, A1)
        g.show(E)
        g.verdict(E, tag=("refuse", E))
        g.on("valid", E, tag=("inv", E))
        g.planted[E] = "shared"
    # one holder disappears
    if path == "rm":
        if r.chance(1, 3):
            c = g.hblock(F1, n_atv=0, n_vtb=0)      # ... with a descendant
            g.show(c)
        g.on("rm", F1)
        _forget(g, F1)
    elif path == "rmpl":
        if r.chance(1, 3):
            c = g.new_alt(F1)                        # a header-only child does not prevent removePayloads
            g.set_pd(c)
            g.on("hdr", c)
            g.hdr.add(c)
        g.on("rmpl", F1)
        g.body.discard(F1)
    else:
        # the mempool receives the payload (valid on the active chain N, which does not hold it) and builds a body
        for v in g.alt[F1]["ctx"]:
            g.on("mpsub", "vbk", v)
        for w in P.get("vtbs", []):
            g.on("mpsub", "vtb", w)
        for t in P.get("atvs", []):
            g.on("mpsub", "atv", t)
        D = g.new_alt(N[-1])
        g.on("mpgen", D)
        g.decl("pd", D, "-", "-", "-")
    g.on("audit", tag=("audit",))
    # (a) the chains that still hold the payload refuse its repetition
    still = [(tipA, A1)] + ([(G1, G1)] if G1 else []) + ([(F1, F1)] if mp else [])
    r.shuffle(still)
    first = True
    for par, holder in still:
        if not first and r.chance(1, 2):
            continue
        X = _repeat_same_chain(g, kind, P, par, holder)
        _refused(g, X, with_desc=first)
        first = False
    # (b) a chain that does not hold it (any more) accepts it
    if path == "rm":
        n1 = g.hblock(base, n_atv=0, n_vtb=0)
        C = _hold(g, n1, P)
    elif path == "rmpl":
        g.set_pd(F1)                 # the block comes again with another (empty) body
        C = _hold(g, F1, P)
    else:
        C = _hold(g, N[-1], P)
    g.show(C)
    g.verdict(C, tag=("accept", C))
    g.on("audit", tag=("audit",))
    # ... and from then on holds it
    if r.chance(1, 2):
        X = _repeat_same_chain(g, kind, P, C, C)
        _refused(g, X, with_desc=False)
    g.on("set", tipA, tag=("accept", tipA))
    g.on("audit", tag=("audit",))
    H = g.hblock(tipA, fork=(0, 1))
    g.show(H)
    g.verdict(H, tag=("accept", H))
    g.on("audit", tag=("audit",))
    g.meta = dict(mutation="shared_%s_%s" % (kind, path), X=A1, P=base, planted=True, depth=g.alt[A1]["height"],
                  desc=between, expect_kind="dup", holders=3 if three else 2)
    return g


def _case_shared_fin(rng, kind):
    """L - M1 - A{P} - ... - tip        M1 becomes final while its sibling F1{P} (a "parallel" block) is deallocated;
         \\ F1{P}                        A is not final yet; then P is repeated on the tip."""
    r = rng
    g = RulesGen(r, small_cfg(r, True))
    mr, pres = g.cfg["alt_maxreorg"], g.cfg["alt_preserve"]
    main = grow(g, "a0", pres + r.range(0, 1), rich=(1, 4))
    L = main[-1]
    P = _shared_payload(g, kind, L)
    M1 = g.hblock(L, n_atv=0, n_vtb=0)
    F1 = _hold(g, L, P, extra=False)
    A1 = _hold(g, M1, P, extra=False)
    up = [M1, A1] + grow(g, A1, mr - 1, rich=(1, 4))       # height(tip) = height(M1) + maxReorg
    tip = up[-1]
    g.show(F1, order="inorder", headers_first=False)
    if r.chance(1, 2):
        for x in main + up:
            g.show(x, order="inorder", headers_first=False)
            g.on("set", x, tag=("accept", x))
            g.on("save")
            g.on("fin")
    else:
        g.show(tip, order="inorder", headers_first=False)
        g.on("set", tip, tag=("accept", tip))
        g.on("save")
        g.on("fin")
    g.on("audit", tag=("audit",))
    X = _repeat_same_chain(g, kind, P, tip, A1)
    g.show(X, order="inorder", headers_first=False)
    attempts(g, X, [], True)
    g.on("valid", X, tag=("inv", X))
    g.on("tip", tag=("notin", X))
    g.on("audit", tag=("audit",))
    g.planted[X] = "shared"
    H = g.hblock(tip, n_atv=0, n_vtb=0)
    g.show(H, order="inorder", headers_first=False)
    g.verdict(H, tag=("accept", H))
    g.on("audit", tag=("audit",))
    g.meta = dict(mutation="shared_%s_fin" % kind, X=X, P=tip, planted=True, depth=g.alt[X]["height"], desc=0,
                  expect_kind="dup", holders=2)
    return g


# ---------------------------------------------------------------------------------------------
# restarts: the history contains incremental saves and a reload (a fresh instance loaded from the storage goes on)
# ---------------------------------------------------------------------------------------------
# BTC blocks referenced by SEVERAL applied VTBs contained at different VBK heights; one of the VTBs is un-applied
# again (the references shrink but stay non-empty); then a VTB that is valid only through the withdrawn reference.
RESTART_PATHS = ["setback", "rm", "rmpl"]


def case_restart(rng, path):
    """base - Q1{wHigh} - Q2{wLow}: wLow (contained low, in vLow) and wHigh (contained high, in vH above vLow) carry the
    SAME BTC context blocks. Q2 is active at a save point, then wLow is withdrawn (set back to Q1 / Q2 removed / its
    payloads removed), saved again and the instance restarts. X{wB} on Q1: wB is contained in vMid (between vLow and
    vH) and connects to the shared BTC blocks, which Q1's chain references only from vH on -> too early, refused.
    On Q2 (which references them from vLow on) the same wB is fine."""
    r = rng
    g = RulesGen(r, small_cfg(r))
    main = grow(g, "a0", r.range(1, 2))
    base = main[-1]
    if r.chance(1, 2):
        g.show(base)
        g.on("set", base, tag=("accept", base))
        if r.chance(1, 2):
            g.on("save")
    ref = g.alt[base]["kbref"]
    vp = g.vtip
    last0 = g.best_last(ref, vp)[-1]
    c = g.btip if g.b_is_anc(last0, g.btip) else last0
    for _ in range(r.range(1, 3)):
        c = g.mine_btc(c)
    while c in g.alt[base]["kb"]:
        c = g.mine_btc(c)
    bk = c
    wLow = g.make_vtb(r.choice(g.v_anc(vp, 2)), last0, vparent=vp, bparent=bk)
    x = g.vtb[wLow]["containing"]
    for _ in range(r.below(2)):
        x = g.mine_vbk(x)
    # the VTB under test connects to the newest shared block, or to one in the middle of the shared context
    shared = [b for b in g.vtb[wLow]["bctx"][:-1]]
    conn = bk if r.chance(2, 3) else r.choice(shared)
    wB = g.make_vtb(r.choice(g.v_anc(x, 2)), conn, vparent=x, bparent=bk)
    y = g.vtb[wB]["containing"]
    for _ in range(r.below(2)):
        y = g.mine_vbk(y)
    wHigh = g.make_vtb(r.choice(g.v_anc(y, 2)), last0, vparent=y, bparent=bk)
    vH = g.vtb[wHigh]["containing"]
    Q1 = g.new_alt(base)
    g.set_pd(Q1, vtbs=[wHigh])
    Q2 = g.new_alt(Q1)
    g.set_pd(Q2, vtbs=[wLow])
    g.show(Q2)
    if r.chance(1, 2):
        g.on("set", Q1, tag=("accept", Q1))
        if r.chance(1, 2):
            g.on("save")
    g.on("set", Q2, tag=("accept", Q2))
    g.on("audit", tag=("audit",))
    g.on("save")
    # wLow is withdrawn again
    if path == "setback":
        g.on("set", Q1, tag=("accept", Q1))
    elif path == "rm":
        g.on("rm", Q2)
        _forget(g, Q2)
    else:
        g.on("set", Q1, tag=("accept", Q1))
        g.on("rmpl", Q2)
        g.body.discard(Q2)
    g.on("audit", tag=("audit",))
    g.on("save")
    restarted = r.chance(3, 4)
    if restarted:
        g.on("reload")
        g.on("audit", tag=("audit",))
    # too early on Q1's chain
    X = g.new_alt(Q1)
    g.set_pd(X, vtbs=[wB])
    g.planted[X] = "restart_btcref"
    desc = []
    d = X
    for _ in range(r.below(2)):
        d = g.hblock(d, n_atv=0, n_vtb=0)
        desc.append(d)
    g.show(desc[-1] if desc else X)
    attempts(g, X, desc, True)
    g.on("valid", X, tag=("inv", X))
    g.on("tip", tag=("notin", X))
    g.on("audit", tag=("audit",))
    # fine where the low reference is part of the chain
    if path == "setback":
        C = g.new_alt(Q2)
        g.set_pd(C, vtbs=[wB])
        g.show(C)
        g.verdict(C, tag=("accept", C))
        g.on("audit", tag=("audit",))
        if r.chance(1, 2):
            g.on("save")
            g.on("reload")
            g.on("audit", tag=("audit",))
    # boundary: contained in a block above vH the same connection is referenced early enough on Q1's chain as well
    z = vH
    for _ in range(r.below(2)):
        z = g.mine_vbk(z)
    wOk = g.make_vtb(r.choice(g.v_anc(z, 2)), conn, vparent=z, bparent=bk)
    H = g.new_alt(Q1)
    g.set_pd(H, vtbs=[wOk])
    g.show(H)
    g.verdict(H, tag=("accept", H))
    g.on("audit", tag=("audit",))
    g.meta = dict(mutation="restart_btcref_" + path, X=X, P=Q1, planted=True, depth=g.alt[X]["height"], desc=len(desc),
                  expect_kind="btcctx", restarted=restarted)
    return g


# ---------------------------------------------------------------------------------------------
# C19 "... and then counts in fork resolution and payouts" (direct oracles on the implementation)
# ---------------------------------------------------------------------------------------------
PAYOUT_DISTANCES = ["0", "1", "n-2", "n-1", "n"]      # n = size of relativeScoreLookupTable(), read by the harness
FORKRES_OFFSETS = ["0", "1", "ki-1", "ki", "ki+1"]     # endorsed block = keystone K + offset


def case_payout(rng, dsym):
    """2-3 honest endorsements of one block, blocks of proof 0 / d / in between above the earliest publication; every
    one with a non-zero table weight must be paid at the payout height (scenario + oracle: harness op payscen)"""
    r = rng

    class G:
        pass
    g = G()
    s = r.range(2, 5)
    delay = s + r.below(3)
    third = r.choice(["-", "mid", "one", "same"])
    g.lines = ["begin alt_ki=%d alt_settle=%d payout_delay=%d" % (r.range(2, 5), s, delay),
               "on A payscen %d %s %s" % (r.range(1, 4), dsym, third)]
    g.tags = {1: ("scen",)}
    g.expect = [None, None]
    g.meta = dict(mutation="payout_distance_" + dsym, planted=False, depth=0, desc=0, third=third)
    g.subtree = lambda x: [x]
    return g


def case_forkres(rng, kmul, osym, later):
    """F (below keystone K) - chain A, backed ONLY by an honest endorsement of its block at K + o, and an equally long
    chain B with no endorsement (later=False) or with one endorsement for K published LATER in VBK (later=True).
    A must win: comparePopScore > 0 with A active, < 0 with B active (and the instance switches to A)."""
    r = rng
    ki = r.range(3, 5)
    s = r.range(3, 6)
    g = RulesGen(r, dict(alt_ki=ki, alt_settle=s, payout_delay=s + r.below(2), vbk_settle=r.range(8, 12)))
    K = kmul * ki
    o = {"0": 0, "1": 1, "ki-1": ki - 1, "ki": ki, "ki+1": ki + 1}[osym]
    hF = r.range(K - ki, K - 1)
    common = ["a0"]
    for _ in range(hF):
        common.append(g.hblock(common[-1], n_atv=0, n_vtb=0))
    F = common[-1]
    lo = K + o + 1
    at = max(K + ki + 1, lo)
    T = r.choice([lo, at, at, at + r.range(1, 3)])
    oB = r.range(0, ki - 1)
    if later:
        T = max(T, K + oB + 1)
    cA = r.range(K + o + 1, min(T, K + o + s))
    cB = r.range(K + oB + 1, min(T, K + oB + s))
    g.on("frtable")
    tbl = len(g.lines) - 1

    def chain(endorsed_h, containing_h):
        c = [F]
        t = None
        for h in range(hF + 1, T + 1):
            if h == containing_h:
                x = g.new_alt(c[-1])
                t = g.make_atv(c[endorsed_h - hF])
                g.set_pd(x, atvs=[t])
            else:
                x = g.hblock(c[-1], n_atv=0, n_vtb=0)
            c.append(x)
        return c, t
    A, tA = chain(K + o, cA)
    gap = 0
    if later:
        gap = r.choice([1, 2, 3, r.range(3, 12)])
        for _ in range(gap - 1):
            g.fresh_vbk()
        B, tB = chain(K + oB, cB)
        gap = g.vbk[g.atv[tB]["bop"]]["height"] - g.vbk[g.atv[tA]["bop"]]["height"]
    else:
        B, tB = chain(None, None)
    tipA, tipB = A[-1], B[-1]
    first = r.chance(1, 2)
    for x in ([tipA, tipB] if first else [tipB, tipA]):
        g.show(x)
    if first:
        g.on("set", tipA, tag=("accept", tipA))
        g.on("endorsed", tA, A[cA - hF], tag=("endorsed", tA))
        g.on("cmpx", tipB, tag=("cmpwin", 1, gap, tbl))
        g.on("tip", tag=("tipis", tipA))
        g.on("set", tipB, tag=("accept", tipB))
        g.on("cmpx", tipA, tag=("cmpwin", -1, gap, tbl))
        g.on("tip", tag=("tipis", tipA, gap, tbl))
    else:
        g.on("set", tipB, tag=("accept", tipB))
        g.on("cmpx", tipA, tag=("cmpwin", -1, gap, tbl))
        g.on("tip", tag=("tipis", tipA, gap, tbl))
        g.on("set", tipA, tag=("accept", tipA))
        g.on("endorsed", tA, A[cA - hF], tag=("endorsed", tA))
        g.on("cmpx", tipB, tag=("cmpwin", 1, gap, tbl))
        g.on("tip", tag=("tipis", tipA))
    g.on("audit", tag=("audit",))
    g.meta = dict(mutation="forkres_K%dki_o%s_%s" % (kmul, osym, "later" if later else "none"), planted=False,
                  depth=T, desc=0, K=K, ki=ki, o=o, fork=hF, tip=T, gap=gap)
    return g


def _strict(tag_gap, table_line, res, prefix):
    """is an advantage of `gap` VBK blocks a strict one under the fork resolution table the library reports?"""
    if tag_gap == 0:
        return True                     # the competitor has no endorsement at all
    got = res.get("%s.%d" % (prefix, table_line + 1)) or ""
    try:
        tbl = [int(x) for x in got.split(",")]
    except ValueError:
        return False
    return tag_gap >= len(tbl) or tbl[tag_gap] < tbl[0]


def eval_counts_tags(g, res, prefix):
    """C19 oracle lines of case_payout / case_forkres"""
    bad = []
    for i, line in enumerate(g.lines):
        tag = g.tags.get(i)
        got = res.get("%s.%d" % (prefix, i + 1))
        if tag is None or got is None or got.startswith("SKIP"):
            continue
        if tag[0] == "scen" and not got.startswith("ok"):
            bad.append((i + 1, line, list(tag), got))
        if tag[0] == "cmpwin":
            v = got.split(" ")[0]
            want = str(tag[1])
            if _strict(tag[2], tag[3], res, prefix):
                ok = v == want
            else:
                ok = v in (want, "0")
            if not ok:
                bad.append((i + 1, line, list(tag[:3]), got))
        if tag[0] == "tipis":
            if len(tag) > 2 and not _strict(tag[2], tag[3], res, prefix):
                continue
            if got != tag[1]:
                bad.append((i + 1, line, list(tag[:2]), got))
    return bad


def case_c19(rng, steps=14, mempool=False):
    """honest history: random tree, every block honest, SP forking, every containing height in the window"""
    r = rng
    g = RulesGen(r, small_cfg(r))
    s = g.settle()
    blocks = ["a0"]
    for i in range(steps):
        k = r.below(10)
        if k < 2:
            g.mine_vbk(g.pick_vparent((1, 2)))
            continue
        if k < 3:
            g.mine_btc(r.choice(sorted(g.btc, key=lambda b: int(b[1:]))[-3:]))
            continue
        # parent: mostly high blocks, sometimes anywhere (side forks)
        top = sorted(blocks, key=lambda a: -g.alt[a]["height"])[:3]
        P = r.choice(top) if r.chance(2, 3) else r.choice(blocks)
        hX = g.alt[P]["height"] + 1
        anc = g.ancestry(P)
        cands = [x for x in anc if x != "a0" and hX - g.alt[x]["height"] <= s]
        endorse = None
        if cands and r.chance(1, 2):
            # aim at the window boundaries: the oldest timely block / the direct parent
            endorse = [cands[0], cands[-1]]
        n_atv = r.below(3)
        a = g.hblock(P, n_atv=n_atv, n_vtb=r.below(2), fork=(1, 3), endorse=endorse)
        blocks.append(a)
        g.on("stateless", a, tag=("stateless", a))
        g.show(a, headers_first=r.chance(1, 2))
        if r.chance(1, 4):
            g.on("cmpx", a, tag=("cmpok", a))
        g.verdict(a, tag=("accept", a))
        for t in g.alt[a]["atvs"]:
            g.on("endorsed", t, a, tag=("endorsed", t))
        if r.chance(1, 3):
            g.on("audit", tag=("audit",))
        if r.chance(1, 2):
            # endorsements of the block at height(tip)+1-delay that sit on the active chain must be paid
            delay = max(g.cfg.get("payout_delay", 50), s)
            he = g.alt[a]["height"] + 1 - delay
            anc = g.ancestry(a)
            g.on("payout", a)
            if he >= 1:
                E = anc[he]
                for x in anc[he + 1:]:
                    for t in g.alt[x]["atvs"]:
                        if g.atv[t]["endorsed"] == E:
                            g.on("paid", t, a, tag=("payout", t))
        if r.chance(1, 4):
            o = r.choice(blocks)
            g.verdict(o, tag=("accept", o))
    g.on("audit", tag=("audit",))
    g.meta = dict(mutation="honest", planted=False, depth=max(g.alt[b]["height"] for b in blocks), desc=0)
    return g


# ---------------------------------------------------------------------------------------------
# evaluation
# ---------------------------------------------------------------------------------------------
def evaluate(g, res, prefix):
    """-> (c04 failures, c19 failures, mirror mismatches); each failure = (line index, line, tag, answer)"""
    f04, f19, mirror = [], [], []
    for i, line in enumerate(g.lines):
        got = res.get("%s.%d" % (prefix, i + 1))
        exp = g.expect[i]
        if exp is not None and got != exp:
            mirror.append((i + 1, line, exp, got))
        tag = g.tags.get(i)
        if tag is None or got is None:
            continue
        k = tag[0]
        ok = True
        if k == "refuse":
            ok = got.startswith("false") or got.startswith("SKIP")
        elif k == "cmpref":
            # tip wins; "0" only through the comparator's shortcut taken BEFORE the candidate is looked at
            # (neither chain crosses a keystone boundary), which leaves the candidate unexamined and not activated
            ok = got.startswith("1") or got == "0 nk" or got.startswith("SKIP")
        elif k == "inv":
            ok = got == "unknown" or (got.startswith("i ") and got.endswith("descvalid=0") and " active" not in got)
        elif k == "audit":
            ok = got.startswith("ok") or got.startswith("SKIP")
        elif k == "notin":
            ok = got not in g.subtree(tag[1])
        elif k == "accept":
            ok = got == "true" or got.startswith("SKIP final")
        elif k == "endorsed":
            ok = got == "111" or got.startswith("SKIP")
        elif k == "stateless" or k == "pubdata":
            ok = got == "ok"
        elif k == "payout":
            # an endorsement on the active chain inside the payout window is paid when its block of proof is on
            # the VBK best chain (endorsements proven on VBK forks do not count)
            ok = got.startswith("1") or got == "0 bopfork" or got.startswith("SKIP")
        elif k == "cmpok":
            ok = got.split(" ")[0] in ("-1", "0", "1") or got.startswith("SKIP")
        if not ok:
            (f04 if k in C04_TAGS else f19).append((i + 1, line, list(tag), got))
    return f04, f19, mirror


def compare_model(g, mres, ires, prefix):
    """model vs implementation on the lines the model answers (verdict/set, atvinfo, vtbinfo).
    -> (n compared, list of (line index, line, model, impl, direction)); direction: 'c04' = model refuses /
    code accepts, 'c19' = model accepts / code refuses, 'blk' / 'kind' / 'info' = other differences"""
    n = 0
    bad = []
    for i, line in enumerate(g.lines):
        w = line.split()
        if len(w) < 4 or w[0] != "on" or w[2] not in ("verdict", "set", "atvinfo", "vtbinfo", "vtsof", "btsof"):
            continue
        k = "%s.%d" % (prefix, i + 1)
        m, r = mres.get(k), ires.get(k)
        if r is None or m is None:
            continue
        if r.startswith("SKIP"):
            continue
        n += 1
        if w[2] in ("atvinfo", "vtbinfo", "vtsof", "btsof"):
            if m != r:
                bad.append((i + 1, line, m, r, "info"))
            continue
        mt, rt = m.split(), r.split()
        if mt[0] != rt[0]:
            bad.append((i + 1, line, m, r, "c04" if mt[0] == "false" else "c19"))
        elif mt[0] == "false":
            if mt[1] != rt[1]:
                bad.append((i + 1, line, m, r, "blk"))
            elif rt[2] != "marked" and mt[2] != rt[2]:
                bad.append((i + 1, line, m, r, "kind"))
    return n, bad


def case_mempool(rng):
    """honest delivery through the mempool: context + ATV (+ VTB) submitted, next block = generatePopData()"""
    r = rng
    g = RulesGen(r, small_cfg(r))
    s = g.settle()
    main = grow(g, "a0", r.range(1, 4))
    tip = main[-1]
    g.show(tip)
    g.verdict(tip, tag=("accept", tip))
    N = g.new_alt(tip)
    hN = g.alt[N]["height"]
    cands = [x for x in g.ancestry(tip) if x != "a0" and hN - g.alt[x]["height"] <= s]
    atvs = []
    mode = r.below(4)
    if mode == 0:
        atvs = [g.make_atv(e) for e in ([cands[0], cands[-1]] if len(cands) > 1 else [r.choice(cands)])]
    else:
        # several honest endorsers in ONE VBK block: equal fees, the same endorsed block (mode 1), any timely
        # blocks (mode 2), or both kinds in two VBK blocks plus a single one (mode 3)
        k = r.range(2, 4)
        if mode == 1:
            e = r.choice(cands)
            atvs += g.make_atvs_same_block([e] * k)
        elif mode == 2:
            atvs += g.make_atvs_same_block([r.choice(cands) for _ in range(k)])
        else:
            e = r.choice(cands)
            atvs += g.make_atvs_same_block([e] * 2)
            atvs += g.make_atvs_same_block([r.choice(cands) for _ in range(k)])
            atvs.append(g.make_atv(r.choice(cands)))
    vt = []
    vm = r.below(3)
    if vm == 1:
        vt = [g.honest_vtb(g.alt[tip]["kbref"], fork=(0, 1))]
    elif vm == 2:
        # two VTBs in one VBK block
        ref = g.alt[tip]["kbref"]
        vp = g.vtip
        last = g.best_last(ref, vp)[-1]
        bpar = g.btip if g.b_is_anc(last, g.btip) else last
        vt = list(g.make_vtb2(r.choice(g.v_anc(vp, 3)), r.choice(g.v_anc(vp, 3)), last, vparent=vp, bparent=bpar))
    # predicted content = what set_pd computes for an honest body
    g.lines_before = len(g.lines)
    known = set(g.alt[tip]["kv"])
    need = []
    for w in vt:
        need.append(g.vtb[w]["containing"])
    for t in atvs:
        need.append(g.atv[t]["bop"])
    ctx = []
    for n in need:
        for v in g.vpath(known | set(ctx), n):
            if v not in ctx:
                ctx.append(v)
    ctx.sort(key=lambda v: (g.vbk[v]["height"], int(v[1:])))
    order = [("vbk", v) for v in ctx] + [("vtb", w) for w in vt] + [("atv", t) for t in atvs]
    if r.chance(1, 2):
        r.shuffle(order)          # any delivery order: the mempool keeps what does not connect yet
    for k, x in order:
        g.on("mpsub", k, x, tag=("mpvalid", x))
    g.on("mpgen", N, tag=("mpgen1",))
    first = len(g.lines) - 1
    # mirror + declaration of the generated body (the registry body itself was set by mpgen)
    a = g.alt[N]
    a["ctx"], a["vtbs"], a["atvs"] = ctx, list(vt), list(atvs)
    g.decl("pd", N, ",".join(ctx) or "-", ",".join(vt) or "-", ",".join(atvs) or "-")
    g.on("stateless", N, tag=("stateless", N))
    g.show(N)
    g.verdict(N, tag=("accept", N))
    for t in atvs:
        g.on("endorsed", t, N, tag=("endorsed", t))
    # a second round: what could not be applied in the first one (a VTB delivered before the VTB it builds on) must
    # come now; EVERY submitted honest payload has to appear in one of the generated bodies
    N2 = g.new_alt(N)
    g.on("mpgen", N2, tag=("mpgen", tuple(ctx), tuple(vt), tuple(atvs), first))
    g.decl("pd", N2, "-", "-", "-")
    g.show(N2)
    g.verdict(N2, tag=("accept", N2))
    g.on("audit", tag=("audit",))
    g.meta = dict(mutation="mempool", planted=False, depth=hN, desc=0)
    return g


def case_mempool_stale(rng):
    """honest VBK reorganisation: the node knows VBK fork A, the miners moved to fork B (splitting below A's tip);
    a new endorsement is mined on B and the LIBRARY's miner builds its connecting context from the node's stale tip
    on A. Delivered through the mempool; the endorsement must be generated, applied and counted."""
    r = rng
    g = RulesGen(r, small_cfg(r))
    s = g.settle()
    main = grow(g, "a0", r.range(1, 3))
    tip = main[-1]
    v = None
    for _ in range(r.range(3, 5)):
        v = g.fresh_vbk()
    a = g.new_alt(tip)
    g.set_pd(a, extra_ctx=[v])
    tip = a
    g.show(tip)
    g.verdict(tip, tag=("accept", tip))
    kv = g.alt[tip]["kv"]
    A_tip = max(kv, key=lambda x: (g.vbk[x]["height"], -int(x[1:])))
    c = A_tip
    back = r.range(1, 2)
    for _ in range(back):
        c = g.vbk[c]["parent"]
    b = c
    for _ in range(back + r.range(1, 2)):
        b = g.make_vts(b, max(g.vmin(b), g.vbk[b]["ts"]))
    N = g.new_alt(tip)
    hN = g.alt[N]["height"]
    cands = [x for x in g.ancestry(tip) if x != "a0" and hN - g.alt[x]["height"] <= s]
    t = g.make_endorse(r.choice(cands), b, A_tip)
    known = set(kv)
    ctx = g.vpath(known, g.atv[t]["bop"])
    g.on("mpsubpd", t, tag=("mpvalid", t))
    g.on("mpgen", N, tag=("mpgen1",))
    first = len(g.lines) - 1
    aN = g.alt[N]
    aN["ctx"], aN["vtbs"], aN["atvs"] = ctx, [], [t]
    g.decl("pd", N, ",".join(ctx) or "-", "-", t)
    g.on("stateless", N, tag=("stateless", N))
    g.show(N)
    g.verdict(N, tag=("accept", N))
    g.on("endorsed", t, N, tag=("endorsed", t))
    N2 = g.new_alt(N)
    g.on("mpgen", N2, tag=("mpgen", tuple(ctx), (), (t,), first))
    g.decl("pd", N2, "-", "-", "-")
    g.show(N2)
    g.verdict(N2, tag=("accept", N2))
    g.on("audit", tag=("audit",))
    g.meta = dict(mutation="mempool_stale_fork", planted=False, depth=hN, desc=0)
    return g


def case_pubdata(rng):
    """publication data produced by the library (GeneratePublicationData) for blocks that themselves carry pop
    payloads, on an altchain whose header commits to the top-level merkle root (one self-contained scenario)"""
    r = rng

    class G:
        pass
    g = G()
    n = r.range(3, 7)
    e = r.range(2, n - 1) if n > 3 else 2
    g.lines = ["pubdata %d %d %d %d %d" % (n, e, r.range(1, 2), r.range(1, 3), r.below(2))]
    g.tags = {0: ("pubdata",)}
    g.expect = [None]
    g.meta = dict(mutation="library_pubdata", planted=False, depth=n, desc=0)
    g.subtree = lambda x: [x]
    return g


def eval_mempool_tags(g, res, prefix):
    """extra C19 oracle lines of case_mempool"""
    bad = []
    for i, line in enumerate(g.lines):
        tag = g.tags.get(i)
        got = res.get("%s.%d" % (prefix, i + 1))
        if tag is None or got is None:
            continue
        if tag[0] == "mpvalid" and not got.startswith("valid") and not got.startswith("failed-stateful"):
            bad.append((i + 1, line, list(tag), got))
        if tag[0] == "mpgen":
            def ids(part):
                return set(x for x in part.split("=", 1)[1].split(",") if x)
            parts = got.split()
            prev = (res.get("%s.%d" % (prefix, tag[4] + 1)) or "").split()
            if len(parts) != 3 or len(prev) != 3:
                bad.append((i + 1, line, [tag[0]], got))
                continue
            c, w, t = (ids(parts[k]) | ids(prev[k]) for k in range(3))
            if not (set(tag[3]) <= t and set(tag[2]) <= w and set(tag[1]) <= c):
                bad.append((i + 1, line, [tag[0]] + [list(x) for x in tag[1:4]], " | ".join([" ".join(prev), got])))
    return bad


# ---------------------------------------------------------------------------------------------
# running
# ---------------------------------------------------------------------------------------------
import json
import os


def gen_from_replay(obj):
    """a replayed / corpus history: lines + tags + expectations as saved by to_replay"""
    class G:
        pass
    g = G()
    g.lines = list(obj["lines"])
    g.tags = {int(k): tuple(tuple(x) if isinstance(x, list) else x for x in v) for k, v in obj.get("tags", {}).items()}
    g.expect = obj.get("expect") or [None] * len(g.lines)
    g.meta = obj.get("meta", {"mutation": "replay", "planted": False, "depth": 0, "desc": 0})
    sub = obj.get("subtrees", {})
    g.subtree = lambda x: sub.get(x, [x])
    return g


def to_replay(g, extra):
    subs = {}
    for i, t in g.tags.items():
        if t[0] == "notin":
            subs[t[1]] = g.subtree(t[1])
    o = {"kind": "ops", "lines": g.lines, "tags": {str(k): list(v) for k, v in g.tags.items()},
         "expect": g.expect, "meta": g.meta, "subtrees": subs}
    o.update(extra)
    return o


def run_histories(vlib, ctx, harness, model, cases):
    """cases: list of (prefix, gen). One harness process for all histories; when it dies (abort) the culprit
    history is recorded and the rest is run in a fresh process. -> (impl results, model results, oracle lines, aborted prefixes)"""
    ires, orc, aborted = {}, [], []
    todo = list(cases)
    rnd = 0
    while todo:
        rnd += 1
        inp = os.path.join(ctx.work, "hist%d.txt" % rnd)
        with open(inp, "w") as f:
            for p, g in todo:
                for i, l in enumerate(g.lines):
                    f.write("%s.%d %s\n" % (p, i + 1, l))
        rc, res, o, err = vlib.run_lines([harness], inp, timeout=1500)
        ires.update(res)
        orc += o
        if rc == 0:
            break
        # which history died: the first one whose last line has no answer
        dead = None
        for k, (p, g) in enumerate(todo):
            if "%s.%d" % (p, len(g.lines)) not in res:
                dead = k
                break
        if dead is None:
            break
        aborted.append((todo[dead][0], err[-600:]))
        todo = todo[dead + 1:]
    mres = {}
    if model:
        inp = os.path.join(ctx.work, "hist_all.txt")
        with open(inp, "w") as f:
            for p, g in cases:
                for i, l in enumerate(g.lines):
                    f.write("%s.%d %s\n" % (p, i + 1, l))
        rc, mres, _, merr = vlib.run_lines([model], inp, timeout=1500)
        if rc != 0:
            ctx.broken.append("runner: model rc=%d %s" % (rc, merr[-300:]))
    return ires, mres, orc, aborted


def check(vlib, ctx, which, cases):
    """shared body of props/C04.py and props/C19.py: run, evaluate the oracles and the correspondence, report
    the failures that belong to property `which`"""
    okm, model, mlog = vlib.build_model("Rules")
    okh, hs, hlog = vlib.build_harness(["h_rules"])
    if not okm:
        ctx.broken.append("model-build: " + mlog[-300:])
    if not okh:
        ctx.broken.append("harness-build: " + hlog[-300:])
    if not okh:
        return
    ires, mres, orc, aborted = run_histories(vlib, ctx, hs["h_rules"], model if okm else None, cases)
    byp = dict(cases)
    ncmp = nbad = 0
    hist = {}
    kinds = {}
    ops = {}
    mirror_bad = 0
    cmp_invalid = {"tip_wins": 0, "zero_via_no_keystone_shortcut": 0, "skipped": 0}
    for p, g in cases:
        meta = g.meta
        hist[meta["mutation"]] = hist.get(meta["mutation"], 0) + 1
        for i, l in enumerate(g.lines):
            w = l.split()
            if w[0] == "on" and len(w) > 2:
                ops[w[2]] = ops.get(w[2], 0) + 1
                if w[2] in ("verdict", "set"):
                    r = ires.get("%s.%d" % (p, i + 1), "")
                    k = r.split()[2] if r.startswith("false") and len(r.split()) > 2 else r.split(" ")[0]
                    kinds[k] = kinds.get(k, 0) + 1
        for i, l in enumerate(g.lines):
            t = g.tags.get(i)
            if t and t[0] == "cmpref":
                r = ires.get("%s.%d" % (p, i + 1), "")
                if r.startswith("1"):
                    cmp_invalid["tip_wins"] += 1
                elif r == "0 nk":
                    cmp_invalid["zero_via_no_keystone_shortcut"] += 1
                elif r.startswith("SKIP"):
                    cmp_invalid["skipped"] += 1
        f04, f19, mirror = evaluate(g, ires, p)
        f19 += eval_mempool_tags(g, ires, p)
        f19 += eval_counts_tags(g, ires, p)
        died = [a for a in aborted if a[0] == p]
        if mirror and not died:
            mirror_bad += 1
            if mirror_bad == 1:
                ctx.broken.append("generator-mirror: history %s line %s expected %s got %s" % (p, mirror[0][1], mirror[0][2], mirror[0][3]))
        n, bad = compare_model(g, mres, ires, p) if mres else (0, [])
        ncmp += n
        nbad += len(bad)
        mine = f04 if which == "C04" else f19
        if mirror:
            # the registry did not do what the generator planned (only possible when the library's own miner
            # misbehaves): the planned oracles say nothing about such a history
            mine = []
        oracle = [t for (i, t) in orc if i.startswith(p + ".")]
        if which == "C19" and died:
            ctx.violation(to_replay(g, {"what": "the harness process died (assertion / abort) on an honest history",
                                        "stderr": died[0][1], "oracle": oracle}))
        if which == "C04" and died and meta.get("planted"):
            ctx.violation(to_replay(g, {"what": "the harness process died (assertion / abort) while a contextually invalid block was delivered",
                                        "stderr": died[0][1], "oracle": oracle}))
        if mine:
            ctx.violation(to_replay(g, {"what": "direct oracle failed", "failed": mine[:6], "oracle": oracle[:6]}))
        dirs = [b for b in bad if b[4] == ("c04" if which == "C04" else "c19")]
        if dirs and not mine:
            ctx.violation(to_replay(g, {"what": "implementation differs from the proved rule set (model %s)" %
                                        ("refuses, code accepts" if which == "C04" else "accepts, code refuses"),
                                        "disagreements": dirs[:6], "oracle": oracle[:6]}))
        other = [b for b in bad if b[4] in ("blk", "kind", "info")]
        if other:
            p_ = ctx.replay_path(to_replay(g, {"what": "model/implementation disagreement", "disagreements": other[:6]}))
            ctx.broken.append("corr:Rules.apply_chain: first disagreeing input %s: %s" % (p_, other[0][1:4]))
    ctx.cov["evaluations"] = ctx.cov.get("evaluations", 0) + len(cases)
    ctx.cov["disagreements_checked"] = ctx.cov.get("disagreements_checked", 0) + ncmp
    ctx.cov["traces_validated_against_impl"] = ctx.cov.get("traces_validated_against_impl", 0) + ncmp - nbad
    ctx.cov["distinct_nontrivial"] = len({(g.meta["mutation"], g.meta.get("depth"), g.meta.get("desc"), len(g.lines)) for _, g in cases})
    ctx.cov["rules"] = {"histories_per_rule": hist, "verdict_kinds": kinds, "op_histogram": ops,
                        "aborted_histories": [a[0] for a in aborted], "oracle_lines": len(orc),
                        # documented deviation of the observation: the property text says comparePopScore > 0 for an
                        # invalid candidate; the comparator answers 0 when neither chain crosses a keystone boundary,
                        # BEFORE looking at the candidate (which is then not activated)
                        "comparePopScore_on_planted_invalid_candidate": cmp_invalid}
    # the last thorough run (kept as evidence/<pid>.thorough.json) is summarised in every evidence file
    try:
        t = json.load(open(os.path.join(vlib.VERIF, "evidence", which + ".thorough.json")))
        tc = t["coverage"]
        ctx.cov["last_thorough_run"] = {
            "seed": t["seed"], "wall_s": t["wall_s"], "violations": t["violations"], "histories": tc["evaluations"],
            "model_vs_impl_comparisons": tc["disagreements_checked"], "agreeing": tc["traces_validated_against_impl"],
            "histories_per_rule": tc["rules"]["histories_per_rule"], "verdict_kinds": tc["rules"]["verdict_kinds"],
            "comparePopScore_on_planted_invalid_candidate": tc["rules"].get("comparePopScore_on_planted_invalid_candidate")}
    except Exception:
        pass
    ctx.cov["trusted_base"] = [
        "harness/h_rules.cpp: independent audit of the active chain (own keystone arithmetic, own ancestry walk on the "
        "registry, BTC references tracked per containing VBK block), error-kind mapping of ValidationState paths",
        "props/_rules.py: id-level mirror of the registry (checked: every registry answer is compared with the prediction) "
        "and the declarations handed to the model; payload descriptions are cross-checked (atvinfo/vtbinfo: real payload "
        "bytes vs declaration; honest context info is computed by the extracted create_from_previous)",
        "model scope: validity of a body given what its chain made known; VBK/BTC header rules, VBK-level fork choice and "
        "the exact inverse of unapply are outside (C15, C01/C02)",
    ]
    for p, g in cases[:2] + cases[-1:]:
        ctx.sample({"history": p, "meta": g.meta, "first_lines": g.lines[:6],
                    "verdicts": [ires.get("%s.%d" % (p, i + 1)) for i, l in enumerate(g.lines) if " verdict " in l][:4]})


def load_corpus(vlib, pid):
    d = os.path.join(vlib.VERIF, "corpus", pid)
    out = []
    if os.path.isdir(d):
        for f in sorted(os.listdir(d)):
            if f.endswith(".json"):
                out.append(("k" + f[:-5].replace(".", "_"), gen_from_replay(json.load(open(os.path.join(d, f))))))
    return out
