"""C20 — a chain once reported fully valid can always be activated again.

Direct oracle (model independent, harness/h_sm.cpp): every block that ever reported
isValid(BLOCK_CAN_BE_APPLIED), was the target of a successful setState or won a comparison is remembered;
at random later points and at the end (`react`) setState to each of them - unless the altchain
invalidated it (BLOCK_FAILED_BLOCK on it or an ancestor), it was removed, or its body was removed - must
return true (then the original tip is restored, which must succeed as well).  Histories contain planted
invalid payloads and candidates that are valid only thanks to VBK context delivered by the competing
chain: these must end at the MAYBE level or invalid, never fully valid.  A fully valid block that fails
to apply makes the library abort (mutually exclusive flags assert): reported as a crash.
Trace oracle (guarded hook popTraceHook in PopStateMachine::applyBlock/unapplyBlock): per instance the ALT apply /
unapply events must follow the documented discipline: applied on an applied parent, unapplied tip-first, a block is
unapplied only if every block applied after it (and still applied) was fully valid when applied, and a block reaches
BLOCK_CAN_BE_APPLIED for the first time only in an event where exactly root..parent is applied.
Correspondence: the op lists through the extracted model (Pop/SmDefs.v), validity levels compared exactly.
"""
import vlib
from props import _sm

LEVEL = "proof"
HARNESSES = [("h_sm", "rel")]
ASSUMPTIONS = [
    "calls are made within the documented preconditions (target connected, no switch below a finalized block); "
    "the harness answers SKIP otherwise",
    "security-providing chains of the generated histories are linear (no VBK/BTC forks) so that the SP best chain "
    "is determined by the delivered blocks alone",
]
META = _sm.META_C20


def run(ctx):
    _sm.run_check(ctx, "C20")
