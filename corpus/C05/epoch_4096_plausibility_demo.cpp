// checkVbkBlockPlausibility must reject every height whose ethash epoch has no entry in the
// 4096-entry size/seed tables; an accepted header is hashed next (checkBlock -> checkProofOfWork -> getHash).
#include <veriblock/pop/blockchain/vbk_chain_params.hpp>
#include <veriblock/pop/entities/vbkblock.hpp>
#include <veriblock/pop/stateless_validation.hpp>
#include <cstdio>
#include <cstring>
using namespace altintegration;
int main(int argc, char** argv) {
  VbkChainParamsRegTest p;
  int bad = 0;
  for (int h : {32767999, 32768000, 32775999, 32776000}) {
    VbkBlock b; b.setHeight(h); b.setTimestamp(1700000000); b.setDifficulty(0x01010000);
    ValidationState st;
    bool ok = checkVbkBlockPlausibility(b, st, p);
    uint32_t epoch = (uint32_t)(h / 8000);
    bool in_table = epoch < 4096;
    printf("height=%d epoch=%u plausible=%d in_table=%d\n", h, epoch, ok, in_table);
    if (ok && !in_table) { bad++; if (argc > 1 && !strcmp(argv[1], "hash")) { fflush(stdout); (void)b.getHash(); } }
  }
  if (bad) { printf("FAIL: %d accepted heights index past the 4096-entry ethash tables\n", bad); return 1; }
  printf("OK\n"); return 0;
}
