(* Driver of the extracted counting model (coq/Mempool/CountDefs.v) and of the selection of generatePopData as coded
   (coq/Mempool/GenDefs.v). Decimal numbers.

     cnt <maxvbk> <maxvtb> <maxatv> <maxsize> <kind>:<size>:<valid>,...         kind: v | w | a
        -> "<verdict>:<need>:<running>,... est=<n> fits=<0|1> n=<vbk>/<vtb>/<atv>"
        verdict  can_fit L c kind size in the counter reached by filter_fit over the candidates before
        need     the smallest max_size for which can_fit holds with the count limits lifted (binary search over the
                 extracted can_fit, the same search the harness runs over the real canFit); 4294967296 if none
        running  popsize of the counter after the candidate (filter_fit over the one-element list)
        est / fits / n: est_kept, fits, lengths of the kept lists of filter_fit over the WHOLE list (which must be the
        state reached step by step, otherwise MODEL-ERROR)

     gen <maxvbk> <maxvtb> <maxatv> <maxsize> rels=<vbk>:<vtbs '.'>/<atvs '.'>;...  (in the order generatePopData visits)
         szb=<id>:<size>,.. szv=.. sza=..   estimateSize per id
         okb=<ids> okv=<ids> oka=<ids>      candidates whose stateless-duplicate test and mutator.add succeeded, as the
                                            implementation answered for this call
        -> "ctx=<ids> vtbs=<ids> atvs=<ids> fits=<0|1>"   generatePop over that order *)
let n_of_int (i : int) : n = if i <= 0 then N0 else Npos (pos_of_int i)
let int_of_n (x : n) : int = match x with N0 -> 0 | Npos p -> int_of_pos p

let kind_of = function "v" -> KVbk | "w" -> KVtb | "a" -> KAtv | k -> failwith ("bad kind " ^ k)
let lifted = 50000
let two32 = 4294967296

let limits_of a b c d : limits =
  { max_vbk = n_of_int (int_of_string a); max_vtb = n_of_int (int_of_string b); max_atv = n_of_int (int_of_string c);
    max_size = n_of_int (int_of_string d) }

let need (c : counter) (k : kind) (size : n) : int =
  let l m = { max_vbk = n_of_int lifted; max_vtb = n_of_int lifted; max_atv = n_of_int lifted; max_size = n_of_int m } in
  if not (can_fit (l (two32 - 1)) c k size) then two32
  else begin
    let lo = ref 0 and hi = ref (two32 - 1) in
    while !lo < !hi do
      let mid = !lo + (!hi - !lo) / 2 in
      if can_fit (l mid) c k size then hi := mid else lo := mid + 1
    done;
    !lo
  end

let cnt (l : limits) (cands : string) : string =
  let items = List.filter (fun x -> x <> "") (String.split_on_char ',' cands) in
  let parsed = List.map (fun it -> match String.split_on_char ':' it with
      | [k; s; v] -> ((kind_of k, n_of_int (int_of_string s)), v = "1")
      | _ -> failwith ("bad candidate " ^ it)) items in
  let c = ref c0 and r = ref { k_vbk = []; k_vtb = []; k_atv = [] } in
  let outs = List.map (fun (((k, size), valid) as cand) ->
      let verdict = can_fit l !c k size in
      let nd = need !c k size in
      let (c', r') = filter_fit l [cand] !c !r in
      c := c'; r := r';
      Printf.sprintf "%s:%d:%d" (b2s verdict) nd (int_of_n (popsize c'))) parsed in
  let (cw, rw) = filter_fit l parsed c0 { k_vbk = []; k_vtb = []; k_atv = [] } in
  if cw <> !c || rw <> !r then failwith "filter_fit over the whole list differs from the stepped state";
  Printf.sprintf "%s est=%d fits=%s n=%d/%d/%d" (if outs = [] then "-" else String.concat "," outs)
    (int_of_n (est_kept rw)) (b2s (fits l rw))
    (List.length rw.k_vbk) (List.length rw.k_vtb) (List.length rw.k_atv)

(* ---- selection ---- *)
let kvarg (name : string) (args : string list) : string =
  let k = name ^ "=" in
  let kl = String.length k in
  match List.filter (fun a -> String.length a >= kl && String.sub a 0 kl = k) args with
  | a :: _ -> String.sub a kl (String.length a - kl)
  | [] -> ""
let ids sep (s : string) : int list =
  List.map int_of_string (List.filter (fun x -> x <> "") (String.split_on_char sep s))
let table (s : string) : (int, int) Hashtbl.t =
  let t = Hashtbl.create 64 in
  List.iter (fun x -> match String.split_on_char ':' x with
      | [i; v] -> Hashtbl.replace t (int_of_string i) (int_of_string v)
      | _ -> failwith ("bad pair " ^ x)) (List.filter (fun x -> x <> "") (String.split_on_char ',' s));
  t
let lookup t (x : n) : n = n_of_int (try Hashtbl.find t (int_of_n x) with Not_found -> failwith "size of an unknown id")
let show_ids (l : n list) : string = String.concat "," (List.map (fun x -> string_of_int (int_of_n x)) l)

let gen (l : limits) (args : string list) : string =
  let rels = List.map (fun r -> match String.split_on_char ':' r with
      | [h; body] -> (match String.split_on_char '/' body with
          | [w; a] -> { hdr = n_of_int (int_of_string h); rvtbs = List.map n_of_int (ids '.' w);
                        ratvs = List.map n_of_int (ids '.' a) }
          | _ -> failwith ("bad relation " ^ r))
      | _ -> failwith ("bad relation " ^ r))
      (List.filter (fun x -> x <> "") (String.split_on_char ';' (kvarg "rels" args))) in
  let szb = table (kvarg "szb" args) and szv = table (kvarg "szv" args) and sza = table (kvarg "sza" args) in
  let okb = ids ',' (kvarg "okb" args) and okv = ids ',' (kvarg "okv" args) and oka = ids ',' (kvarg "oka" args) in
  let mem l (x : n) = List.mem (int_of_n x) l in
  (* the verdicts of the implementation carry every condition of adm: the structural conjuncts (previous block /
     containing block / block of proof known) and the stateful-duplicate test are part of what mutator.add answered *)
  let yes _ = true and no _ = false in
  let same x = x in
  let out = generatePop same same same (lookup szb) (lookup szv) (lookup sza) l yes no no no
      (fun _ b -> mem okb b) (fun _ _ t -> mem okv t) (fun _ _ _ a -> mem oka a) rels in
  ignore same;
  Printf.sprintf "ctx=%s vtbs=%s atvs=%s fits=%s" (show_ids out.o_ctx) (show_ids out.o_vtbs) (show_ids out.o_atvs)
    (b2s (out_fits (lookup szb) (lookup szv) (lookup sza) l out))

let handle op args = match op, args with
  | "cnt", [a; b; c; d] -> cnt (limits_of a b c d) ""
  | "cnt", [a; b; c; d; cands] -> cnt (limits_of a b c d) cands
  | "gen", a :: b :: c :: d :: rest -> gen (limits_of a b c d) rest
  | _ -> failwith ("unknown op " ^ op)
let () = main_loop handle
