(* C14 model driver: the extracted calculator model (256-bit arithmetic) on the
   same lines as harness/h_rewards.cpp; additionally evaluates the extracted
   SPECIFICATION wherever the theorems' side conditions hold and flags any
   difference between specification and calculator model (SPEC-MISMATCH). *)
let cur : params ref = ref default_params
let chain : block list ref = ref []   (* tip first *)

let strip_bang op = let n = String.length op in if n > 0 && op.[n-1] = '!' then String.sub op 0 (n-1) else op
let split_on c s = String.split_on_char c s
let scaled tok = match split_on '/' tok with [_; s] -> z_of_hex s | _ -> failwith ("bad double token " ^ tok)
let zlt a b = (Z.compare a b) = Lt
let zle a b = (Z.compare a b) <> Gt
let pow2 k = Z.pow (z_of_int 2) (z_of_int k)

let out_z = function Ok v -> "ok " ^ hex_of_z v | Throw -> "throw" | Abort -> "abort" | Fpe -> "fpe"
let out_map = function
  | Ok m -> "ok" ^ String.concat "" (List.map (fun (k, v) -> " " ^ hex_of_z k ^ "=" ^ hex_of_z v) m)
  | Throw -> "throw" | Abort -> "abort" | Fpe -> "fpe"

let par_text p =
  let l xs = String.concat "" (List.map (fun v -> " " ^ hex_of_z v) xs) in
  "ok" ^ l [p.p_start; p.p_slopeN; p.p_slopeK; p.p_thrN; p.p_thrK] ^ " R" ^ l p.p_ratios ^ " T" ^ l p.p_table

let list_of_tok t = (* "R:a,b" *)
  if String.length t <= 2 then [] else List.map scaled (split_on ',' (String.sub t 2 (String.length t - 2)))

(* split the chain at height h: (block, predecessors) *)
let rec at_height h = function
  | [] -> failwith "no block at height"
  | b :: r -> if Z.eqb b.b_height h then (b, r) else at_height h r

let parse_view toks =
  let tip = ref Z0 and blocks = Hashtbl.create 16 in
  List.iter (fun t ->
    if t.[0] = 'T' then tip := z_of_hex (String.sub t 1 (String.length t - 1))
    else if t.[0] = 'B' then begin
      match split_on ':' (String.sub t 1 (String.length t - 1)) with
      | [h; es] ->
        let ends = List.map (fun e -> match split_on '.' e with
          | [pid; "x"] -> { e_pid = z_of_hex pid; e_bop = None }
          | [pid; hh] -> { e_pid = z_of_hex pid; e_bop = Some (z_of_hex hh) }
          | _ -> failwith "bad endorsement") (split_on ',' es) in
        Hashtbl.replace blocks (int_of_z (z_of_hex h)) ends
      | _ -> failwith "bad block token" end
    else failwith ("bad view token " ^ t)) toks;
  let n = int_of_z !tip in
  List.init (n + 1) (fun i -> let h = n - i in
    { b_height = z_of_int h; b_ends = (try Hashtbl.find blocks h with Not_found -> []) })

let view_text c =
  match c with [] -> "ok" | tip :: _ ->
  "ok T" ^ hex_of_z tip.b_height ^
  String.concat "" (List.filter_map (fun b -> if b.b_ends = [] then None else
    Some (" B" ^ hex_of_z b.b_height ^ ":" ^ String.concat "," (List.map (fun e ->
      hex_of_z e.e_pid ^ "." ^ (match e.e_bop with None -> "x" | Some h -> hex_of_z h)) b.b_ends))) (List.rev c))

(* specification check of a payout map for endorsed block b with predecessors prevs *)
let spec_check_payout p b prevs res =
  match res with
  | Ok m when params_okb p && block_okb b && chain_okb prevs ->
    let payees = List.sort_uniq (fun a b -> match Z.compare a b with Lt -> -1 | Eq -> 0 | Gt -> 1) (spec_payees b) in
    let keys = List.map fst m in
    if keys <> payees then " SPEC-MISMATCH payees"
    else if List.for_all (fun (k, v) -> Z.eqb (spec_paid p b prevs k) v) m then "" else " SPEC-MISMATCH amounts"
  | _ -> ""

let handle opx args =
  let op = strip_bang opx in
  let p = !cur in
  match op, args with
  | "par", [ki; settle; delay; kround; rounds; flatround; useflat; interval; start; sn; sk; tn; tk; r; t] ->
    let p = { p_ki = z_of_hex ki; p_settle = z_of_hex settle; p_delay = z_of_hex delay; p_start = scaled start;
              p_slopeN = scaled sn; p_slopeK = scaled sk; p_kround = z_of_hex kround; p_rounds = z_of_hex rounds;
              p_flatround = z_of_hex flatround; p_useflat = (useflat = "1"); p_ratios = list_of_tok r;
              p_thrN = scaled tn; p_thrK = scaled tk; p_interval = z_of_hex interval; p_table = list_of_tok t } in
    cur := p; par_text p
  | "pardefault", [] ->
    let p = default_params in
    cur := p;
    "ok " ^ String.concat " " [hex_of_z p.p_ki; hex_of_z p.p_settle; hex_of_z p.p_delay; hex_of_z p.p_kround;
                                hex_of_z p.p_rounds; hex_of_z p.p_flatround; b2s p.p_useflat; hex_of_z p.p_interval]
    ^ (let s = par_text p in String.sub s 2 (String.length s - 2))
  | "conv", [_; expected] -> expected
  | "br", [h; s; d] ->
    let h = z_of_hex h and s = z_of_hex s and d = z_of_hex d in
    let r = block_reward256 p h s d in
    let chk = match r with
      | Ok v when params_okb p && zlt h (pow2 31) && zlt s (pow2 128) && zlt d (pow2 160) ->
        if Z.eqb (spec_block_reward p h s d) v
           && (match round_for_block p h with Ok rd -> zle v (spec_cap p rd) | _ -> false)
        then "" else " SPEC-MISMATCH"
      | Ok _ -> ""
      | _ -> if params_okb p && zlt h (pow2 31) && zlt s (pow2 128) && zlt d (pow2 160) then " SPEC-MISMATCH outcome" else "" in
    out_z r ^ chk
  | "mr", [rel; s; b] -> out_z (miner_reward256 p (z_of_hex rel) (z_of_hex s) (z_of_hex b))
  | "mult", [rel] -> "ok " ^ hex_of_z (score_multiplier p (z_of_hex rel))
  | "round", [h] -> out_z (round_for_block p (z_of_hex h))
  | "bdops", [a; b] ->
    let a = z_of_hex a and b = z_of_hex b in
    let w = wrap256 in
    let cmp = match Z.compare a b with Lt -> "lt010" | Gt -> "gt001" | Eq -> "eq111" in
    String.concat " " ["ok"; hex_of_z (bd_add w a b); hex_of_z (bd_sub w a b); hex_of_z (bd_mul w a b);
                       (match bd_div w a b with Ok v -> hex_of_z v | _ -> "throw"); cmp;
                       hex_of_z (bd_integer_fraction a); hex_of_z (bd_decimal_fraction a);
                       hex_of_z (bd_of_u64 w (low64 a))]
  | "scen", toks -> chain := parse_view toks; view_text !chain
  | "pay", [] ->
    let r = get_pop_payout256 p !chain in
    let chk = match spec_endorsed p !chain with
      | Some (b, prevs) -> spec_check_payout p b prevs r
      | None -> (match r with Ok [] -> "" | Ok _ -> " SPEC-MISMATCH not-enough-blocks" | _ -> "") in
    out_map r ^ chk
  | "payat", [h] ->
    let (b, prevs) = at_height (z_of_hex h) !chain in
    let r = calc_payouts256 p b prevs in
    out_map r ^ spec_check_payout p b prevs r
  | "payin", [h; s; d] ->
    let (b, _) = at_height (z_of_hex h) !chain in
    out_map (payouts_inner256 p b (z_of_hex s) (z_of_hex d))
  | "score", [h] ->
    let (b, _) = at_height (z_of_hex h) !chain in
    let r = score256 p b.b_ends in
    out_z r ^ (match r with Ok v when params_okb p && block_okb b && not (Z.eqb (spec_score p b.b_ends) v) -> " SPEC-MISMATCH" | _ -> "")
  | "diff", [h] ->
    let (_, prevs) = at_height (z_of_hex h) !chain in
    let r = difficulty256 p prevs in
    out_z r ^ (match r with Ok v when params_okb p && chain_okb prevs && not (Z.eqb (spec_difficulty p prevs) v) -> " SPEC-MISMATCH" | _ -> "")
  (* window ops: answered from the truncated chain only (Rewards/WindowDefs.v) *)
  | "diffw", [h] ->
    let (_, prevs) = at_height (z_of_hex h) !chain in
    out_z (difficulty_win256 p prevs)
  | "payatw", [h] ->
    let (b, prevs) = at_height (z_of_hex h) !chain in
    let r = calc_payouts_win256 p b prevs in
    out_map r ^ spec_check_payout p b (window p prevs) r
  | "payw", [] ->
    out_map (get_pop_payout_win256 p !chain)
  | _ -> failwith ("unknown op " ^ op)
let () = main_loop handle
