(* Conc model driver: C16 validator transition system (and, below, the C17 caches) *)

let verdict_str (map : int array) v = match v with
  | VValid -> "valid"
  | VDuplicates -> "dup"
  | VInvalid i -> let k = int_of_nat i in
    Printf.sprintf "invalid:%d" (if k < Array.length map then map.(k) else -1)

(* task list in PopData order: context payloads (v,x) then ATVs (a,b); the duplicate copy is appended
   to the vector of the payload it copies *)
let tasks_of_spec (spec : string) (dup : bool) : (bool * int) list =
  let n = String.length spec in
  let idxs = List.init n (fun i -> i) in
  let is_ctx c = (c = 'v' || c = 'x' || c = 'V') and is_vtb c = (c = 't' || c = 'u') in
  let ctx = List.filter (fun i -> is_ctx spec.[i]) idxs in
  let vtb = List.filter (fun i -> is_vtb spec.[i]) idxs in
  let atv = List.filter (fun i -> not (is_ctx spec.[i]) && not (is_vtb spec.[i])) idxs in
  let valid i = (spec.[i] = 'v' || spec.[i] = 'a' || spec.[i] = 'V' || spec.[i] = 't') in
  let first_valid = try Some (List.find valid idxs) with Not_found -> None in
  let ctx', vtb', atv' = match dup, first_valid with
    | true, Some i when List.mem i ctx -> ctx @ [i], vtb, atv
    | true, Some i when List.mem i vtb -> ctx, vtb @ [i], atv
    | true, Some i -> ctx, vtb, atv @ [i]
    | _ -> ctx, vtb, atv in
  List.map (fun i -> (valid i, i)) (ctx' @ vtb' @ atv')



(* ---------------- C17: cache templates ---------------- *)
let n_of_int (i : int) : n = if i <= 0 then N0 else Npos (pos_of_int i)
let fval (k : int) : int = (k * 2654435761 + 12345) land 0xffffffff
let ieq (a : int) (b : int) = (a = b)
let index_of (k : int) (l : (int, int) item list) : int =
  let rec go i = function [] -> 999 | it :: r -> if it.ikey = k then i else go (i + 1) r in go 0 l

let run_lfru id size tw ops =
  let l = ref ([] : (int, int) item list) in
  let vals = Buffer.create 64 and pol = Buffer.create 64 in
  List.iter (fun o ->
    if o = "c" then (l := []; Buffer.add_string pol " c")
    else begin
      let at = String.index o '@' in
      let key = int_of_string (String.sub o 1 (at - 1)) in
      let now = int_of_string (String.sub o (at + 1) (String.length o - at - 1)) in
      let ((v, hit), l') = lfru_get_or_default ieq fval (nat_of_int size) (n_of_int tw) key (n_of_int now) !l in
      l := l';
      Buffer.add_string vals (" " ^ string_of_int v);
      if hit then Buffer.add_string pol " h" else Buffer.add_string pol (" m" ^ string_of_int (index_of key l'))
    end) ops;
  print_string (id ^ ".p" ^ Buffer.contents pol); print_newline ();
  string_of_int (List.length ops) ^ Buffer.contents vals

let run_lru id maxsize elast ops =
  let l = ref ([] : (int * int) list) in
  let vals = Buffer.create 64 and pol = Buffer.create 64 in
  List.iter (fun o ->
    if o = "c" then (l := []; Buffer.add_string pol " c")
    else begin
      let key = int_of_string (String.sub o 1 (String.length o - 1)) in
      if o.[0] = 'i' then (l := lru_insert ieq (nat_of_int maxsize) (nat_of_int elast) key (fval key) !l; Buffer.add_string pol " i")
      else begin
        let (r, l') = lru_try_get ieq key !l in
        l := l';
        match r with
        | Some v -> Buffer.add_string vals (" " ^ string_of_int v); Buffer.add_string pol " h"
        | None -> Buffer.add_string pol " m"
      end
    end) ops;
  Buffer.add_string pol " /";
  List.iter (fun (k, _) -> Buffer.add_string pol (" " ^ string_of_int k)) !l;
  print_string (id ^ ".p" ^ Buffer.contents pol); print_newline ();
  string_of_int (List.length ops) ^ Buffer.contents vals

let cur_id = ref ""

(* C16: the MPMC ring buffer, sequential op sequences *)
let run_ring size ops =
  let r = ref (ring_init (nat_of_int size)) in
  let out = Buffer.create 64 in
  List.iter (fun o ->
    let op = if o.[0] = 'u' then RPush (int_of_string (String.sub o 1 (String.length o - 1))) else RPop in
    let (a, r') = ring_step op !r in
    r := r';
    Buffer.add_string out (match a with
      | PushOk -> " 1" | PushFull -> " 0" | PopEmpty -> " -" | Spin -> " SPIN"
      | PopOk (Some v) -> " " ^ string_of_int v | PopOk None -> " none")) ops;
  string_of_int (List.length ops) ^ Buffer.contents out

let lcg = ref 1
let rnd n = lcg := (!lcg * 1103515245 + 12345) land 0x3fffffff; (!lcg lsr 8) mod n

let apply l s = match step false l s with Some s' -> s' | None -> failwith "label not enabled"

(* drive the model with a pseudo-random schedule until main is outside checkPopData *)
let run_to_quiescence (w : int) (s0 : state) : state =
  let s = ref s0 in
  let fuel = ref 1000000 in
  while not (quiescent_main !s.main) && !fuel > 0 do
    decr fuel;
    let cands = ref [LPost; LWait] in
    for i = 0 to w - 1 do
      let n = nat_of_int i in
      cands := LPop n :: LSteal n :: LRun n :: LFulfil n :: !cands
    done;
    let en = List.filter (fun l -> step false l !s <> None) !cands in
    (match en with
     | [] -> failwith "model deadlock (contradicts C16_no_deadlock_partial)"
     | _ -> s := apply (List.nth en (rnd (List.length en))) !s)
  done;
  if !fuel = 0 then failwith "model out of fuel";
  !s

let stop_restart (w : int) (s : state) : state =
  let s = ref (apply LStopReq s) in
  for _ = 1 to w do s := apply LJoin !s done;
  apply (LStart (nat_of_int w)) !s

let bigcap = nat_of_int 4096

let parse_label (t : string) : label =
  let arg () = nat_of_int (int_of_string (String.sub t 1 (String.length t - 1))) in
  match t.[0] with
  | 'C' -> (match String.split_on_char '/' (String.sub t 1 (String.length t - 1)) with
      | [bits; d] -> LCall (List.init (String.length bits) (fun i -> bits.[i] = '1'), d = "1")
      | _ -> failwith "bad call label")
  | 'P' -> LPost | 'W' -> LWait | 'Q' -> LStopReq | 'J' -> LJoin
  | 'p' -> LPop (arg ()) | 's' -> LSteal (arg ()) | 'r' -> LRun (arg ()) | 'f' -> LFulfil (arg ())
  | 'S' -> LStart (arg ())
  | _ -> failwith ("bad label " ^ t)

let handle op args = match op, args with
  | "lfru", size :: tw :: ops -> run_lfru !cur_id (int_of_string size) (int_of_string tw) ops
  | "lru", maxsize :: elast :: ops -> run_lru !cur_id (int_of_string maxsize) (int_of_string elast) ops
  | "ring", size :: ops -> run_ring (int_of_string size) ops
  | "lrumt", _ -> "ok"
  | "powhit", _ -> "ok"
  | "serial", _ -> "ok"
  | "blk", _ :: ops -> "ok " ^ string_of_int (List.length ops)
  | "pow", _ :: _ :: _ :: _ :: ops -> "ok " ^ string_of_int (List.length ops)
  | "multi", workers :: seed :: _ :: rounds :: callers ->
    (* every caller's verdict is the sequential verdict of its own payloads (C16_multi_client_verdict) *)
    let one sd =
      let (spec, dup) = (match String.split_on_char ',' sd with
        | [sp; d] -> ((if sp = "-" then "" else sp), d = "1") | [sp] -> ((if sp = "-" then "" else sp), false)
        | _ -> failwith "bad caller") in
      let tl = tasks_of_spec spec dup in
      let map = Array.of_list (List.map snd tl) in
      let has_dup = dup && List.exists (fun (v, _) -> v) tl in
      ignore workers; ignore seed;
      verdict_str map (seq_verdict (mk_tasks O O (List.map fst tl)) has_dup) in
    let row = String.concat "," (List.map one callers) in
    String.concat ";" (List.init (int_of_string rounds) (fun _ -> row))
  | "check", workers :: seed :: _ :: spec :: dup :: stopmode :: rounds :: rest ->
    let w = max 1 (int_of_string workers) in
    (* queue capacity = upper_power_of_two(maxATVs + maxVTBs + maxVbkBlocks) *)
    let cap = (match rest with
      | _ :: lim :: _ when lim <> "0" ->
        (match List.map int_of_string (String.split_on_char '/' lim) with
         | [a; b; c] -> let sum = a + b + c in let p = ref 1 in while !p < sum do p := 2 * !p done; nat_of_int !p
         | _ -> bigcap)
      | _ -> bigcap) in
    let spec = if spec = "-" then "" else spec in
    let dup = (dup = "1") in
    let tl = tasks_of_spec spec dup in
    let vs = List.map fst tl in
    let map = Array.of_list (List.map snd tl) in
    let has_dup = dup && List.exists (fun (v, _) -> v) tl in
    lcg := (int_of_string seed) land 0xffffff + 17;
    let s = ref (init (nat_of_int w) cap) in
    let out = ref [] in
    let rounds = int_of_string rounds in
    for r = 0 to rounds - 1 do
      s := apply (LCall (vs, has_dup)) !s;
      s := run_to_quiescence w !s;
      let v = (match !s.main with
        | MReturned v ->
          if v <> seq_verdict !s.cur !s.curdup then failwith "run verdict <> seq_verdict (contradicts C16_verdict_schedule_independent)";
          if holders !s <> [] || holds_token !s then failwith "token still held at return (contradicts C16_released_on_return)";
          verdict_str map v
        | MThrow -> "throw" | _ -> "stuck") in
      out := v :: !out;
      if (stopmode = "1" || stopmode = "2" || (stopmode = "3" && r mod 7 = 6)) && r + 1 < rounds then s := stop_restart w !s
    done;
    String.concat ";" (List.rev !out)
  | "replay", workers :: v0 :: labels ->
    let w = max 1 (int_of_string workers) in
    let v0 = (v0 = "1") in
    let s = ref (init (nat_of_int w) bigcap) in
    let verdicts = ref [] in
    let k = ref 0 in
    let rejected = ref (-1) in
    List.iter (fun t ->
      if !rejected < 0 then begin
        match step v0 (parse_label t) !s with
        | Some s' ->
          (match s'.main, !s.main with
           | MReturned v, MReturned _ -> ()
           | MReturned v, _ -> verdicts := (match v with VValid -> "valid" | VDuplicates -> "dup"
                                            | VInvalid i -> Printf.sprintf "invalid:%d" (int_of_nat i)) :: !verdicts
           | MThrow, MThrow -> ()
           | MThrow, _ -> verdicts := "throw" :: !verdicts
           | _ -> ());
          s := s'; incr k
        | None -> rejected := !k
      end) labels;
    if !rejected >= 0 then Printf.sprintf "rejected %d %s" !rejected (List.nth labels !rejected)
    else Printf.sprintf "ok %s held=%d" (String.concat ";" (List.rev !verdicts)) (List.length (holders !s))
  | _ -> failwith ("unknown op " ^ op)
(* like prelude's main_loop, but the handler may print auxiliary "<id>.x" lines and needs the id *)
let () =
  (try
    while true do
      let line = input_line stdin in
      match split_ws line with
      | id :: op :: args ->
        cur_id := id;
        let r = (try handle op args with Failure m -> "MODEL-ERROR " ^ m | Not_found -> "MODEL-ERROR not_found") in
        print_string id; print_char ' '; print_string r; print_newline ()
      | _ -> ()
    done
  with End_of_file -> ())
