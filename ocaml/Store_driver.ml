(* C09/C10 model driver (extracted Store_model: FinalizeDefs + SaveLoadDefs).
   ids are plain decimal numbers on the wire (the plugin maps a<n>/v<n>/w<n>/t<n> to numbers). *)
let n_of_int (i : int) : n = if i <= 0 then N0 else Npos (pos_of_int i)
let int_of_n (x : n) : int = match x with N0 -> 0 | Npos p -> int_of_pos p
let ints s = if s = "-" || s = "" then [] else List.map int_of_string (List.filter (fun x -> x <> "") (String.split_on_char ',' s))
let csv l = if l = [] then "-" else String.concat "," (List.map string_of_int l)
let sorted l = List.sort compare l

(* ---------------- C09: finalizeBlocks on an explicit tree ----------------
   fin <maxreorg> <preserve> <maxfin|-> <chain> <tips> <block;block;...>   block = id:parent|-:height:dirty:final:pl.pl *)
let parse_block s =
  match String.split_on_char ':' s with
  | [id; par; h; d; f; pl] ->
    let pls = if pl = "" || pl = "-" then [] else List.map int_of_string (List.filter (fun x -> x <> "") (String.split_on_char '.' pl)) in
    (n_of_int (int_of_string id),
     { f_parent = (if par = "-" then None else Some (n_of_int (int_of_string par)));
       f_height = n_of_int (int_of_string h); f_dirty = (d = "1"); f_final = (f = "1");
       f_pl = List.map n_of_int pls })
  | _ -> failwith ("bad block " ^ s)

let show_tree (t : ftree) =
  let ids = List.map (fun (k, _) -> int_of_n k) t.t_blocks in
  let fin = List.filter_map (fun (k, b) -> if b.f_final then Some (int_of_n k) else None) t.t_blocks in
  let fp = List.map (fun (p, b) -> Printf.sprintf "%d:%d" (int_of_n p) (int_of_n b)) t.t_fpidx in
  Printf.sprintf "chain=%s blocks=%s final=%s tips=%s fp=%s"
    (csv (List.map int_of_n t.t_chain)) (csv (sorted ids)) (csv (sorted fin))
    (csv (sorted (List.map int_of_n t.t_tips)))
    (if fp = [] then "-" else String.concat "," (List.sort compare fp))

(* ---------------- C10: micro-op histories ---------------- *)
let cur : (state * storage) option ref = ref None
let flag_of = function
  | "boot" -> FBootstrap | "fblock" -> FFailedBlock | "fpop" -> FFailedPop | "fchild" -> FFailedChild
  | "haspl" -> FHasPayloads | "active" -> FActive | "deleted" -> FDeleted | s -> failwith ("flag " ^ s)
let nl s = List.map n_of_int (ints s)
let pairs s = (* e1:b1,e2:b2 *)
  if s = "-" || s = "" then [] else
  List.map (fun x -> match String.split_on_char ':' x with
      | [a; b] -> (n_of_int (int_of_string a), n_of_int (int_of_string b)) | _ -> failwith "pair")
    (List.filter (fun x -> x <> "") (String.split_on_char ',' s))
let mop args = match args with
  | ["hdr"; id; par] -> OInsertHeader (n_of_int (int_of_string id), n_of_int (int_of_string par))
  | ["setpl"; id; pl] -> OSetPayloads (n_of_int (int_of_string id), nl pl)
  | ["connect"; id] -> OConnect (n_of_int (int_of_string id))
  | ["apply"; id; lvl; es] -> OApply (n_of_int (int_of_string id), n_of_int (int_of_string lvl), pairs es)
  | ["unapply"; id] -> OUnapply (n_of_int (int_of_string id))
  | ["inval"; id; f; desc] -> OInvalidate (n_of_int (int_of_string id), flag_of f, nl desc)
  | ["reval"; id; f; desc] -> ORevalidate (n_of_int (int_of_string id), flag_of f, nl desc)
  | ["remove"; ids] -> ORemoveSubtree (nl ids)
  | ["rmpl"; id] -> ORemovePayloads (n_of_int (int_of_string id))
  | ["settip"; id] -> OSetTip (n_of_int (int_of_string id))
  | ["save"] -> OSave
  | _ -> failwith "bad micro-op"
let show_blocks (bl : (n * block) list) =
  let l = List.filter_map (fun (k, b) ->
      if b.b_pers.p_status.s_deleted then None
      else Some (Printf.sprintf "%d:%d" (int_of_n k) (int_of_n (status_word b.b_pers.p_status)))) bl in
  if l = [] then "-" else String.concat "," (List.sort compare l)

let handle op args = match op, args with
  | "fin", [mr; pr; mf; chain; tips; blocks] ->
    let bl = List.map parse_block (List.filter (fun x -> x <> "") (String.split_on_char ';' blocks)) in
    let t = { t_blocks = bl; t_chain = nl chain; t_tips = nl tips; t_fpidx = [] } in
    let fuel = nat_of_int (List.length bl + 2) in
    let maxfin = if mf = "-" then n_of_int 1000000000 else n_of_int (int_of_string mf) in
    show_tree (finalizeBlocks fuel t (n_of_int (int_of_string mr)) (n_of_int (int_of_string pr)) maxfin)
  | "spfin", [vmr; vpr; refs; bmr; bpr; vchain; vtips; vblocks; bchain; btips; bblocks] ->
    (* C09 cascade: VbkBlockTree::finalizeBlocks = sp_finalize (coq/Store/StackDefs.v) on the observed VBK and BTC trees *)
    let tree chain tips blocks =
      let bl = List.map parse_block (List.filter (fun x -> x <> "") (String.split_on_char ';' blocks)) in
      { t_blocks = bl; t_chain = nl chain; t_tips = nl tips; t_fpidx = [] } in
    let v = tree vchain vtips vblocks and b = tree bchain btips bblocks in
    let fuel = nat_of_int (List.length v.t_blocks + List.length b.t_blocks + 2) in
    let ni x = n_of_int (int_of_string x) in
    let p = { sp_alt_maxreorg = N0; sp_alt_preserve = N0; sp_vbk_maxreorg = ni vmr; sp_vbk_preserve = ni vpr;
              sp_btc_maxreorg = ni bmr; sp_btc_preserve = ni bpr } in
    let (v', b') = sp_finalize fuel p (nl refs) v b in
    show_tree v' ^ " | " ^ show_tree b'
  | "minit", [] -> cur := Some (init, storage0); "ok"
  | "mop", a ->
    (match !cur with
     | None -> "NO-STATE"
     | Some (s, st) ->
       (match step prims_fixed (mop a) s st with
        | Done (s', st') -> cur := Some (s', st'); "ok"
        | Abort w -> "ABORT " ^ string_of_int (int_of_n w)))
  | "mdirty", [] ->
    (match !cur with None -> "NO-STATE" | Some (s, _) -> csv (sorted (List.map int_of_n (dirty_ids s))))
  | "mstate", [] ->
    (match !cur with None -> "NO-STATE" | Some (s, _) -> Printf.sprintf "tip=%d %s" (int_of_n s.tip) (show_blocks s.blocks))
  | "mload", [] ->
    (match !cur with
     | None -> "NO-STATE"
     | Some (_, st) ->
       (match load prims_fixed st with
        | Loaded s -> Printf.sprintf "tip=%d %s" (int_of_n s.tip) (show_blocks s.blocks)
        | LoadFail w -> "LOADFAIL " ^ string_of_int (int_of_n w)))
  | _ -> failwith ("unknown op " ^ op)
let () = main_loop handle
