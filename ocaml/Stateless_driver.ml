(* C05 model driver: embedding search, Merkle paths, decision pipelines.
   The oracles of the Coq sections are instantiated per case from the leaf facts that the harness
   measured with library primitives (PoW verdict and hashes of each context block, verify(), derived
   address, context-info root, header callback); SHA-256 is implemented here for the Merkle folds. *)
let hexb s = if s = "-" then [] else zbytes_of_hex s
let code v = let (a, r) = verdict_code v in
  let a = int_of_z a and r = int_of_z r in
  if a = 1 then "1" else if a = 0 then Printf.sprintf "0 %d" r else if a = 2 then "OOB-BITS" else "OOB-BUF"

(* ---- SHA-256 over int lists ---- *)
let k256 = [|
  0x428a2f98;0x71374491;0xb5c0fbcf;0xe9b5dba5;0x3956c25b;0x59f111f1;0x923f82a4;0xab1c5ed5;
  0xd807aa98;0x12835b01;0x243185be;0x550c7dc3;0x72be5d74;0x80deb1fe;0x9bdc06a7;0xc19bf174;
  0xe49b69c1;0xefbe4786;0x0fc19dc6;0x240ca1cc;0x2de92c6f;0x4a7484aa;0x5cb0a9dc;0x76f988da;
  0x983e5152;0xa831c66d;0xb00327c8;0xbf597fc7;0xc6e00bf3;0xd5a79147;0x06ca6351;0x14292967;
  0x27b70a85;0x2e1b2138;0x4d2c6dfc;0x53380d13;0x650a7354;0x766a0abb;0x81c2c92e;0x92722c85;
  0xa2bfe8a1;0xa81a664b;0xc24b8b70;0xc76c51a3;0xd192e819;0xd6990624;0xf40e3585;0x106aa070;
  0x19a4c116;0x1e376c08;0x2748774c;0x34b0bcb5;0x391c0cb3;0x4ed8aa4a;0x5b9cca4f;0x682e6ff3;
  0x748f82ee;0x78a5636f;0x84c87814;0x8cc70208;0x90befffa;0xa4506ceb;0xbef9a3f7;0xc67178f2 |]
let m32 = 0xffffffff
let rotr x n = ((x lsr n) lor (x lsl (32 - n))) land m32
let sha256_ints (msg : int list) : int list =
  let ml = List.length msg in
  let padlen = let r = (ml + 9) mod 64 in if r = 0 then 0 else 64 - r in
  let total = ml + 9 + padlen in
  let b = Bytes.make total '\000' in
  List.iteri (fun i x -> Bytes.set b i (Char.chr (x land 255))) msg;
  Bytes.set b ml '\x80';
  let bits = ml * 8 in
  for i = 0 to 7 do Bytes.set b (total - 1 - i) (Char.chr ((bits lsr (8 * i)) land 255)) done;
  let h = [| 0x6a09e667; 0xbb67ae85; 0x3c6ef372; 0xa54ff53a; 0x510e527f; 0x9b05688c; 0x1f83d9ab; 0x5be0cd19 |] in
  let w = Array.make 64 0 in
  for blk = 0 to total / 64 - 1 do
    for t = 0 to 15 do
      let o = blk * 64 + t * 4 in
      w.(t) <- (Char.code (Bytes.get b o) lsl 24) lor (Char.code (Bytes.get b (o+1)) lsl 16)
               lor (Char.code (Bytes.get b (o+2)) lsl 8) lor Char.code (Bytes.get b (o+3))
    done;
    for t = 16 to 63 do
      let s0 = rotr w.(t-15) 7 lxor rotr w.(t-15) 18 lxor (w.(t-15) lsr 3) in
      let s1 = rotr w.(t-2) 17 lxor rotr w.(t-2) 19 lxor (w.(t-2) lsr 10) in
      w.(t) <- (w.(t-16) + s0 + w.(t-7) + s1) land m32
    done;
    let a = ref h.(0) and bb = ref h.(1) and c = ref h.(2) and d = ref h.(3)
    and e = ref h.(4) and f = ref h.(5) and g = ref h.(6) and hh = ref h.(7) in
    for t = 0 to 63 do
      let s1 = rotr !e 6 lxor rotr !e 11 lxor rotr !e 25 in
      let ch = (!e land !f) lxor ((lnot !e) land m32 land !g) in
      let t1 = (!hh + s1 + ch + k256.(t) + w.(t)) land m32 in
      let s0 = rotr !a 2 lxor rotr !a 13 lxor rotr !a 22 in
      let mj = (!a land !bb) lxor (!a land !c) lxor (!bb land !c) in
      let t2 = (s0 + mj) land m32 in
      hh := !g; g := !f; f := !e; e := (!d + t1) land m32; d := !c; c := !bb; bb := !a; a := (t1 + t2) land m32
    done;
    h.(0) <- (h.(0) + !a) land m32; h.(1) <- (h.(1) + !bb) land m32; h.(2) <- (h.(2) + !c) land m32;
    h.(3) <- (h.(3) + !d) land m32; h.(4) <- (h.(4) + !e) land m32; h.(5) <- (h.(5) + !f) land m32;
    h.(6) <- (h.(6) + !g) land m32; h.(7) <- (h.(7) + !hh) land m32
  done;
  List.concat (List.map (fun x -> [ (x lsr 24) land 255; (x lsr 16) land 255; (x lsr 8) land 255; x land 255 ]) (Array.to_list h))
let sha256 (l : z list) : z list = List.map z_of_int (sha256_ints (List.map int_of_z l))
let sha256d (l : z list) : z list = List.map z_of_int (sha256_ints (sha256_ints (List.map int_of_z l)))

(* ---- facts ---- *)
let facts (args : string list) : (string, string) Hashtbl.t =
  let h = Hashtbl.create 64 in
  List.iter (fun t -> match String.index_opt t '=' with
    | Some i -> Hashtbl.replace h (String.sub t 0 i) (String.sub t (i+1) (String.length t - i - 1))
    | None -> ()) args; h
let get h k = try Hashtbl.find h k with Not_found -> failwith ("missing fact " ^ k)
let zdec s = z_of_int (int_of_string s)
let net s = if s = "-" then None else Some (z_of_hex s)
let split_on c s = if s = "-" || s = "" then [] else String.split_on_char c s
let layers s = List.map hexb (split_on ',' s)
let ids = layers

(* a BTC header as the checks see it: nBits, hash as a number, hash and previous-hash bytes; the PoW verdict is
   COMPUTED by the model (pow_btc: compact decoding, sign/overflow/zero, target <= pow limit, hash <= target) *)
type bblock = { bpow : bool; bhash : z list; bprev : z list }
let btc_ctx limit s : bblock list =
  if String.length s > 0 && s.[0] = '#' then
    (* only the number of blocks matters (context-too-many): n copies of an invalid block *)
    List.init (int_of_string (String.sub s 1 (String.length s - 1))) (fun _ -> { bpow = false; bhash = []; bprev = [] })
  else List.map (fun b -> match String.split_on_char ':' b with
    | [bits; hn; h; pr] -> { bpow = pow_btc limit (z_of_hex bits) (z_of_hex hn); bhash = hexb h; bprev = hexb pr }
    | _ -> failwith "bad ctx block") (split_on ';' s)

let vertab : (string, bool) Hashtbl.t = Hashtbl.create 16
let verify_o (h : z list) (_ : z list) (_ : z list) : bool = try Hashtbl.find vertab (hex_of_zbytes h) with Not_found -> false
let addr_from_pubkey_o (pk : z list) = pk          (* the key is represented by the address derived from it *)
let addr_checksum_o (a : z list) = a
let ctxinfo_root_o (c : z list) = if c = [] then None else Some c
let check_block_header_o (h : z list) (_ : z list) = (h = [z_of_int 1])

let vmpath h pre = { vp_subject = hexb (get h (pre ^ "vs")); vp_treeIndex = zdec (get h (pre ^ "vt"));
                     vp_index = zdec (get h (pre ^ "vi")); vp_layers = layers (get h (pre ^ "vl")) }
let poptx h pre =
  Hashtbl.replace vertab (get h (pre ^ "hash")) (get h (pre ^ "ver") = "1");
  { p_network = net (get h (pre ^ "net")); p_context = btc_ctx (z_of_hex (get h (pre ^ "limit"))) (get h (pre ^ "ctx"));
    p_pubbytes = hexb (get h (pre ^ "pub")); p_btctx = hexb (get h (pre ^ "btctx"));
    p_btctx_hash = hexb (get h (pre ^ "btchash"));
    p_path = { mp_subject = hexb (get h (pre ^ "mps")); mp_index = zdec (get h (pre ^ "mpi")); mp_layers = layers (get h (pre ^ "mpl")) };
    p_bop_root = hexb (get h (pre ^ "broot")); p_address = hexb (get h (pre ^ "addr"));
    p_pubkey = hexb (get h (pre ^ "exp")); p_signature = []; p_hash = hexb (get h (pre ^ "hash")) }
let vtb h pre = { v_tx = poptx h pre; v_path = vmpath h pre; v_containing_root = hexb (get h (pre ^ "croot")) }
let vbktx h pre =
  Hashtbl.replace vertab (get h (pre ^ "hash")) (get h (pre ^ "ver") = "1");
  { t_network = net (get h (pre ^ "net")); t_outputs = zdec (get h (pre ^ "nout")); t_fee = zdec (get h (pre ^ "fee"));
    t_pubdata = { pd_identifier = zdec (get h (pre ^ "pid")); pd_header = [z_of_int (int_of_string (get h (pre ^ "hdrok")))];
                  pd_contextInfo = hexb (get h (pre ^ "ctxroot")) };
    t_address = hexb (get h (pre ^ "addr")); t_pubkey = hexb (get h (pre ^ "exp")); t_signature = []; t_hash = hexb (get h (pre ^ "hash")) }
let atv h pre = { a_tx = vbktx h pre; a_path = vmpath h pre; a_bop_root = hexb (get h (pre ^ "croot")) }

let res_s = function Ok -> "1" | Err (c, s) -> Printf.sprintf "0 %d %d" (int_of_z c) (int_of_z s)
let bh b = b.bhash and bp b = b.bprev and bw b = b.bpow

let run_poptx h pre = check_vbk_pop_tx bh bp bw sha256d verify_o addr_from_pubkey_o addr_checksum_o (net (get h (pre ^ "magic"))) (poptx h pre)
let run_vtb h pre = full_check_vtb bh bp bw sha256d sha256 verify_o addr_from_pubkey_o addr_checksum_o (net (get h (pre ^ "magic"))) (vtb h pre)
let run_vbktx h pre = check_vbk_tx verify_o addr_from_pubkey_o addr_checksum_o ctxinfo_root_o check_block_header_o
                        (net (get h (pre ^ "magic"))) (zdec (get h (pre ^ "altid"))) (vbktx h pre)
let run_atv h pre = full_check_atv sha256 verify_o addr_from_pubkey_o addr_checksum_o ctxinfo_root_o check_block_header_o
                        (net (get h (pre ^ "magic"))) (zdec (get h (pre ^ "altid"))) (atv h pre)

(* a VBK header: plausibility and PoW verdicts are COMPUTED by the model from height, timestamp, difficulty bits, the
   hash number and the chain parameters *)
type vblock = { vplaus : bool; vpow : bool; vheight : z; vtrim : z list; vprev : z list }
let vblocks h s =
  let fork = zdec (get h "fork") and start = z_of_hex (get h "start") and btime = z_of_hex (get h "btime")
  and en = (get h "en" = "1") and mind = z_of_hex (get h "mind") in
  let mk hgt ts bits hn t pr =
    { vplaus = (int_of_z (vbk_plausibility fork start btime en (zdec hgt) (z_of_hex ts)) = 0);
      vpow = pow_vbk vbk_max_difficulty mind (z_of_hex bits) (z_of_hex hn);
      vheight = zdec hgt; vtrim = hexb t; vprev = hexb pr } in
  List.map (fun b -> match String.split_on_char ':' b with
    | [hgt; ts; bits; hn] -> mk hgt ts bits hn "-" "-"
    | [hgt; ts; bits; hn; t; pr] -> mk hgt ts bits hn t pr
    | _ -> failwith "bad vbk block") (split_on ';' s)
let plaus_code h s = match String.split_on_char ':' s with
  | hgt :: ts :: _ -> int_of_z (vbk_plausibility (zdec (get h "fork")) (z_of_hex (get h "start")) (z_of_hex (get h "btime"))
                                  (get h "en" = "1") (zdec hgt) (z_of_hex ts))
  | _ -> failwith "bad vbk block"

let handle op args = match op, args with
  | ("embed" | "embedh"), [data; tx] -> code (check_embedding (hexb data) (hexb tx))
  | "split", [data; tx] -> code (containsSplit (hexb data) (hexb tx))
  | "splitv0", [data; tx] -> code (containsSplit_v0 (hexb data) (hexb tx))
  | "contig", [data; tx] -> b2s (contiguous_search (hexb data) (hexb tx))
  | "contigv0", [data; tx] -> b2s (contiguous_search_v0 (hexb data) (hexb tx))
  | "sha256", [m] -> hex_of_zbytes (sha256 (hexb m))
  | "poptx", _ -> res_s (run_poptx (facts args) "")
  | "vtb", _ -> res_s (run_vtb (facts args) "")
  | "vbktx", _ -> res_s (run_vbktx (facts args) "")
  | "atv", _ -> res_s (run_atv (facts args) "")
  | "vbkblock", _ ->
    let h = facts args in
    let b = List.hd (vblocks h (get h "blocks")) in
    let r = check_vbk_block (fun b -> b.vplaus) (fun b -> b.vpow) b in
    if int_of_z r = 0 then "1" else Printf.sprintf "0 %d %d" (int_of_z r) (plaus_code h (get h "blocks"))
  | "btcblock", _ ->
    let h = facts args in
    if pow_btc (z_of_hex (get h "limit")) (z_of_hex (get h "bits")) (z_of_hex (get h "hash")) then "1" else "0 1 0"
  | "vbkblocks", _ ->
    let h = facts args in
    let r = check_vbk_blocks (fun b -> b.vheight) (fun b -> b.vtrim) (fun b -> b.vprev) (fun b -> b.vplaus) (fun b -> b.vpow) (vblocks h (get h "blocks")) in
    if int_of_z r = 0 then "1" else Printf.sprintf "0 %d 0" (int_of_z r)
  | "popdata", _ ->
    let h = facts args in
    let nv = int_of_string (get h "nv") and na = int_of_string (get h "na") in
    let vs = List.init nv (fun i -> vtb h (Printf.sprintf "v%d." i)) in
    let ats = List.init na (fun i -> atv h (Printf.sprintf "a%d." i)) in
    let magic = if nv > 0 then net (get h "v0.magic") else if na > 0 then net (get h "a0.magic") else None in
    let altid = if na > 0 then zdec (get h "a0.altid") else Z0 in
    let d = { d_estimate = zdec (get h "est"); d_context = vblocks h (get h "blocks"); d_vtbs = vs; d_atvs = ats;
              d_context_ids = ids (get h "cids"); d_vtb_ids = ids (get h "vids"); d_atv_ids = ids (get h "aids") } in
    let st0 = ((List.init nv (fun _ -> false), List.init na (fun _ -> false)), false) in
    let (r, ((fv, fa), c)) =
      check_pop_data bh bp bw (fun b -> b.vplaus) (fun b -> b.vpow) sha256d sha256 verify_o addr_from_pubkey_o addr_checksum_o
        ctxinfo_root_o check_block_header_o magic altid (zdec (get h "maxsize")) (zdec (get h "maxvbk")) (zdec (get h "maxvtb"))
        (zdec (get h "maxatv")) d st0 in
    let fl l = String.concat "" (List.map b2s l) in
    Printf.sprintf "%s | %s/%s/%s" (res_s r) (fl fv) (fl fa) (b2s c)
  | _ -> failwith ("unknown op " ^ op)
let () = main_loop handle
