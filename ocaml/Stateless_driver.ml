(* C05 model driver: embedding search, Merkle paths, decision pipelines *)
let hexb s = if s = "-" then [] else zbytes_of_hex s
let code v = let (a, r) = verdict_code v in
  let a = int_of_z a and r = int_of_z r in
  if a = 1 then "1" else if a = 0 then Printf.sprintf "0 %d" r else if a = 2 then "OOB-BITS" else "OOB-BUF"

let handle op args = match op, args with
  | ("embed" | "embedh"), [data; tx] -> code (check_embedding (hexb data) (hexb tx))
  | "split", [data; tx] -> code (containsSplit (hexb data) (hexb tx))
  | "splitv0", [data; tx] -> code (containsSplit_v0 (hexb data) (hexb tx))
  | "contig", [data; tx] -> b2s (contiguous_search (hexb data) (hexb tx))
  | "contigv0", [data; tx] -> b2s (contiguous_search_v0 (hexb data) (hexb tx))
  | _ -> failwith ("unknown op " ^ op)
let () = main_loop handle
