(* C03 model driver: extracted Score model (impl as coded, spec, generated keystone functions) *)
let zl_of_csv (s : string) : z list =
  if s = "-" then [] else List.map z_of_hex (String.split_on_char ',' s)

(* view / profile slots: "n" = none, otherwise a hex number *)
let slots_of_csv (s : string) : z option list =
  if s = "-" then [] else
    List.map (fun t -> if t = "n" then None else Some (z_of_hex t)) (String.split_on_char ',' s)

let show_res (f : 'a -> string) (r : 'a res) : string =
  match r with Ok v -> "ok:" ^ f v | Abort -> "abort" | Ub -> "ub"

let sgn_z (v : z) : int = match v with Z0 -> 0 | Zpos _ -> 1 | Zneg _ -> -1

let cfg fd tb = { fd = z_of_hex fd; table = zl_of_csv tb }

let spec_sign reading c a b : int =
  let prof = match reading with
    | "pub" -> pub_profile | "inf" -> inf_profile | _ -> failwith "reading" in
  sgn_z (spec c (prof a) (prof b))

(* ---- exhaustive sweep: profiles = all slot lists of length 0..maxk over [none; h_1..h_m],
   indexed in the order: by length, then lexicographic with none first ---- *)
let profiles (maxk : int) (hs : z list) : z option list array =
  let vals = None :: List.map (fun h -> Some h) hs in
  let acc = ref [] in
  let rec gen k prefix =
    if k = 0 then acc := List.rev prefix :: !acc
    else List.iter (fun v -> gen (k - 1) (v :: prefix)) vals in
  for k = 0 to maxk do gen k [] done;
  Array.of_list (List.rev !acc)

let view_of reading (p : z option list) : z option list =
  match reading with
  | "pub" -> holes_view p | "inf" -> real_view p | _ -> failwith "reading"

let mix (h : int) (v : int) : int = ((h * 1000003) lxor (v land 0xffffffff)) land 0x3fffffffffffffff

let handle op args = match op, args with
  | "cmp", [fd; tb; _ki; _first; a; b] ->
    show_res hex_of_z (impl (cfg fd tb) (slots_of_csv a) (slots_of_csv b))
  | "spec", [reading; fd; tb; a; b] ->
    string_of_int (spec_sign reading (cfg fd tb) (slots_of_csv a) (slots_of_csv b))
  | "sweep", [reading; fd; tb; _ki; maxk; hs; lo; hi] ->
    let c = cfg fd tb in
    let ps = profiles (int_of_string maxk) (zl_of_csv hs) in
    let n = Array.length ps in
    let lo = int_of_string lo and hi = min n (int_of_string hi) in
    let h = ref 0 and bad = ref 0 and first = ref "" and cnt = ref 0 in
    let prof = match reading with "pub" -> pub_profile | _ -> inf_profile in
    let xs = Array.map prof ps in
    let vs = Array.map (view_of reading) ps in
    for i = lo to hi - 1 do
      for j = 0 to n - 1 do
        incr cnt;
        (match impl c vs.(i) vs.(j) with
         | Ok r ->
           h := mix !h (int_of_z r);
           if sgn_z r <> sgn_z (spec c xs.(i) xs.(j)) then begin
             incr bad; if !first = "" then first := Printf.sprintf "%d,%d" i j end
         | _ -> h := mix !h 0x7ffffff1; incr bad; if !first = "" then first := Printf.sprintf "%d,%d" i j)
      done
    done;
    Printf.sprintf "%x %d %d %s" !h !cnt !bad (if !first = "" then "-" else !first)
  | "k2", [h; ki] ->
    let h = z_of_hex h and ki = z_of_hex ki in
    String.concat " " [
      show_res hex_of_z (highestKeystoneAtOrBefore h ki);
      show_res hex_of_z (blockHeightToKeystoneNumber h ki);
      show_res b2s (isKeystone h ki);
      show_res hex_of_z (firstKeystoneAfter h ki);
      show_res hex_of_z (highestBlockWhichConnectsKeystoneToPrevious h ki) ]
  | "k3", [a; b; ki] ->
    let a = z_of_hex a and b = z_of_hex b and ki = z_of_hex ki in
    String.concat " " [
      show_res b2s (isCrossedKeystoneBoundary a b ki);
      show_res b2s (areOnSameKeystoneInterval a b ki) ]
  | "gpk", [h; ki; n] ->
    show_res hex_of_z (getPreviousKeystoneHeight (z_of_hex h) (z_of_hex ki) (z_of_hex n))
  (* mathematical versions, evaluated only by the model (compared with k2/k3/gpk by the plugin) *)
  | "m2", [h; ki] ->
    let h = z_of_hex h and ki = z_of_hex ki in
    String.concat " " [
      "ok:" ^ hex_of_z (m_highestKeystoneAtOrBefore h ki);
      "ok:" ^ hex_of_z (m_keystoneNumber h ki);
      "ok:" ^ b2s (m_isKeystone h ki);
      "ok:" ^ hex_of_z (m_firstKeystoneAfter h ki);
      (if m_isKeystone h ki then "ok:" ^ hex_of_z (m_highestConnecting h ki) else "abort") ]
  | "m3", [a; b; ki] ->
    let a = z_of_hex a and b = z_of_hex b and ki = z_of_hex ki in
    "ok:" ^ b2s (m_crossed a b ki) ^ " ok:" ^ b2s (m_sameInterval a b ki)
  | "mgpk", [h; ki; n] ->
    "ok:" ^ hex_of_z (m_previousKeystone (z_of_hex h) (z_of_hex ki) (z_of_hex n))
  | "ktx", [ta; chain; t; hs] ->
    (* getKeystoneContext as coded and its specification; "n" = NO_ENDORSEMENT *)
    let hl = if hs = "-" then [] else List.map (fun x -> nat_of_int (int_of_string ("0x" ^ x))) (String.split_on_char ',' hs) in
    let sh = function None -> "n" | Some n -> Printf.sprintf "%x" (int_of_nat n) in
    sh (ktx (ta = "1") (zl_of_csv chain) (z_of_hex t) hl) ^ " " ^ sh (ktx_spec (ta = "1") (zl_of_csv chain) (z_of_hex t) hl)
  | "params", [] ->
    let l t = String.concat "," (List.map hex_of_z t) in
    Printf.sprintf "alt %s %s %s vbk %s %s %s"
      (hex_of_z alt_keystone_interval) (hex_of_z alt_finality_delay) (l alt_fr_table)
      (hex_of_z vbk_keystone_interval) (hex_of_z vbk_finality_delay) (l vbk_fr_table)
  | "outer", [valid; istip; tiph; candh; forkh; finh; onact; above; applyok; ki; core; balone] ->
    let b s = s = "1" in
    let i = { cand_valid = b valid; cand_is_tip = b istip; tip_h = z_of_hex tiph; cand_h = z_of_hex candh;
              fork_h = z_of_hex forkh; fin_h = (if finh = "n" then None else Some (z_of_hex finh));
              cand_on_active = b onact; cand_above_tip = b above; apply_ok = b applyok; o_ki = z_of_hex ki;
              core = z_of_hex core; b_valid_alone = b balone } in
    let (r, _) = outer_cmp i in hex_of_z r
  | _ -> failwith ("unknown op " ^ op)
let () = main_loop handle
