(* Tree model driver (C07 / C08): same script as harness/h_tree.cpp.
     begin ...                      new ALT model (root id 0 at height 0)
     T hdr n p | T body n | T set n | T inv n b|p | T reval n b|p | T rm n | T rmpl n
     P begin | P hdr n p | P inv n b|p [ord i j ..] | P reval n b|p [ord ..] | P rm n [ord ..]
   answer: "<result> ; <id>:<status>:<height> ... ; tips <sorted> ; tip <id> ; applied <n>"
   every other line (registry / world ops) is answered with "-" *)
let n_of_int (i : int) : n = match z_of_int i with Zpos p -> Npos p | _ -> N0
let int_of_n (v : n) : int = match v with N0 -> 0 | Npos p -> int_of_pos p

let alt = ref (alt_init Z0)
let pow = ref (pow_init Z0 (z_of_int 1))

let dump (s : tree) : string =
  let bs = List.map (fun b -> (int_of_n (bid b), int_of_n (encode (bst b)), int_of_z (bheight b))) (blocks s) in
  let bs = List.sort compare bs in
  let b = Buffer.create 256 in
  List.iter (fun (i, st, h) -> Buffer.add_string b (Printf.sprintf " %d:%d:%d" i st h)) bs;
  Buffer.add_string b " ; tips";
  List.iter (fun i -> Buffer.add_string b (Printf.sprintf " %d" i)) (List.sort compare (List.map int_of_n (tips s)));
  Buffer.add_string b (Printf.sprintf " ; tip %d ; applied %d" (int_of_n (tip s)) (int_of_z (applied s)));
  Buffer.contents b

let res_str = function
  | ROk -> "ok" | RFailPrev -> "fail-prev" | RFailChain -> "fail-chain" | RStored -> "stored"
  | RConnected -> "connected" | RTrue -> "true" | RFalse -> "false"

let reason_of = function "p" -> RPop | _ -> RBlock

let rec split_ord (l : string list) : string list * n list =
  match l with
  | [] -> ([], [])
  | "ord" :: r -> ([], List.map (fun x -> n_of_int (int_of_string x)) r)
  | x :: r -> let (a, o) = split_ord r in (x :: a, o)

(* the registry of the harness: the first "hdr n p" whose parent is registered fixes the parent of n for good *)
let reg_alt : (int, int) Hashtbl.t = Hashtbl.create 64
let reg_pow : (int, int) Hashtbl.t = Hashtbl.create 64
let parent_of (reg : (int, int) Hashtbl.t) (n : int) (p : int) : int =
  match Hashtbl.find_opt reg n with
  | Some q -> q
  | None -> if n <> 0 && (p = 0 || Hashtbl.mem reg p) then (Hashtbl.replace reg n p; p) else (-1)

let parse_op (reg : (int, int) Hashtbl.t) (args : string list) : op =
  let (a, ord) = split_ord args in
  match a with
  | ["hdr"; n; p] ->
    let n = int_of_string n in
    let p = parent_of reg n (int_of_string p) in
    (* an unregistered parent: the model is asked for a parent id that no block has *)
    OHdr (n_of_int n, (if p < 0 then n_of_int 999999 else n_of_int p), z_of_int 1)
  | ["body"; n] -> OBody (n_of_int (int_of_string n))
  | ["set"; n] -> OSet (n_of_int (int_of_string n))
  | ["inv"; n; r] -> OInv (n_of_int (int_of_string n), reason_of r, ord)
  | ["reval"; n; r] -> OReval (n_of_int (int_of_string n), reason_of r, ord)
  | ["rm"; n] -> ORm (n_of_int (int_of_string n), ord)
  | ["rmpl"; n] -> ORmpl (n_of_int (int_of_string n))
  | _ -> failwith "bad op"

let exec (st : tree ref) (reg : (int, int) Hashtbl.t) (args : string list) : string =
  let o = parse_op reg args in
  (* the order handed over by the implementation must be a permutation of the model's tip set *)
  let r = match step_out !st o with
    | Done (s1, r) -> st := s1; res_str r
    | Skip -> "SKIP"
    | Abort -> "ABORT" in
  r ^ " ;" ^ dump !st

let handle op args = match op, args with
  | "begin", _ -> alt := alt_init Z0; Hashtbl.reset reg_alt; "ok"
  | "T", _ -> exec alt reg_alt args
  | "P", "begin" :: _ -> pow := pow_init Z0 (z_of_int 1); Hashtbl.reset reg_pow; "ok ;" ^ dump !pow
  | "P", _ -> exec pow reg_pow args
  | _ -> "-"
let () = main_loop handle
