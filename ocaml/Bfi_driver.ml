(* BFI wire-format model driver: runs the extracted codecs of coq/Bfi/BfiDefs.v on the line protocol of
   harness/h_bfi.cpp (same ops, same value tokens, same result text). *)

(* ---- numbers and bytes ---- *)
let n_of_hex (s : string) : n = match z_of_hex s with Z0 -> N0 | Zpos p -> Npos p | Zneg _ -> failwith "negative N"
let hex_of_n (v : n) : string = match v with N0 -> "0" | Npos p -> hex_of_pos p
let int_of_n (v : n) : int = match v with N0 -> 0 | Npos p -> int_of_pos p
let n_of_int (i : int) : n = if i <= 0 then N0 else Npos (pos_of_int i)

let byte_tab : byte array = Array.init 256 (fun i -> byte_of_N (n_of_int i))
let int_of_byte (b : byte) : int = int_of_n (to_N0 b)
let bytes_of_hex (s : string) : byte list =
  if s = "-" then [] else begin
    let n = String.length s / 2 in
    let r = ref [] in
    for i = n - 1 downto 0 do r := byte_tab.(hexval s.[2*i] * 16 + hexval s.[2*i+1]) :: !r done;
    !r end
let hex_of_bytes (l : byte list) : string =
  if l = [] then "-" else begin
    let b = Buffer.create 64 in
    List.iter (fun x -> Buffer.add_string b (Printf.sprintf "%02x" (int_of_byte x))) l;
    Buffer.contents b end

let err_text = function
  | EEof -> "EOF" | ENonCanonical -> "NONCANONICAL" | ETooLarge -> "TOOLARGE"
  | ESuperfluous -> "SUPERFLUOUS" | EUnknownOpt -> "UNKNOWNOPT"

(* ---- typed descriptors: codec + token parser + token printer ---- *)
type 'a io = { parse : string list -> 'a * string list; show : 'a -> string list }
type desc = D : 'a codec * 'a io * bool -> desc      (* bool: the C++ type has a CSizeComputer path *)

let next = function [] -> failwith "tokens exhausted" | x :: r -> (x, r)
let io_n : n io = { parse = (fun t -> let (x, r) = next t in (n_of_hex x, r)); show = (fun v -> [hex_of_n v]) }
let io_z : z io = { parse = (fun t -> let (x, r) = next t in (z_of_hex x, r)); show = (fun v -> [hex_of_z v]) }
let io_bytes : byte list io =
  { parse = (fun t -> let (x, r) = next t in (bytes_of_hex x, r)); show = (fun v -> [hex_of_bytes v]) }
let io_list (e : 'a io) : 'a list io =
  { parse = (fun t ->
      let (c, r) = next t in
      let k = int_of_n (n_of_hex c) in
      let acc = ref [] and rest = ref r in
      for _ = 1 to k do let (v, r') = e.parse !rest in acc := v :: !acc; rest := r' done;
      (List.rev !acc, !rest));
    show = (fun l -> hex_of_n (n_of_int (List.length l)) :: List.concat (List.map e.show l)) }

let io_outpoint : outpoint io =
  { parse = (fun t -> let (h, r) = io_bytes.parse t in let (k, r) = io_n.parse r in ({ op_hash = h; op_n = k }, r));
    show = (fun o -> io_bytes.show o.op_hash @ io_n.show o.op_n) }
let io_wit = io_list io_bytes
let io_txin : txin io =
  { parse = (fun t ->
      let (p, r) = io_outpoint.parse t in
      let (s, r) = io_bytes.parse r in
      let (q, r) = io_n.parse r in
      let (w, r) = io_wit.parse r in
      ({ ti_prevout = p; ti_script = s; ti_seq = q; ti_wit = w }, r));
    show = (fun i -> io_outpoint.show i.ti_prevout @ io_bytes.show i.ti_script @ io_n.show i.ti_seq @ io_wit.show i.ti_wit) }
let io_txout : txout io =
  { parse = (fun t -> let (v, r) = io_z.parse t in let (s, r) = io_bytes.parse r in ({ to_value = v; to_script = s }, r));
    show = (fun o -> io_z.show o.to_value @ io_bytes.show o.to_script) }
let io_tx : tx io =
  { parse = (fun t ->
      let (v, r) = io_z.parse t in
      let (l, r) = io_n.parse r in
      let (i, r) = (io_list io_txin).parse r in
      let (o, r) = (io_list io_txout).parse r in
      ({ tx_vin = i; tx_vout = o; tx_version = v; tx_locktime = l }, r));
    show = (fun x -> io_z.show x.tx_version @ io_n.show x.tx_locktime @ (io_list io_txin).show x.tx_vin
                     @ (io_list io_txout).show x.tx_vout) }
let io_header : header io =
  { parse = (fun t ->
      let (v, r) = io_z.parse t in
      let (p, r) = io_bytes.parse r in
      let (m, r) = io_bytes.parse r in
      let (ts, r) = io_n.parse r in
      let (b, r) = io_n.parse r in
      let (nn, r) = io_n.parse r in
      ({ h_version = v; h_prev = p; h_merkle = m; h_time = ts; h_bits = b; h_nonce = nn }, r));
    show = (fun h -> io_z.show h.h_version @ io_bytes.show h.h_prev @ io_bytes.show h.h_merkle @ io_n.show h.h_time
                     @ io_n.show h.h_bits @ io_n.show h.h_nonce) }
let io_block : block io =
  { parse = (fun t -> let (h, r) = io_header.parse t in let (x, r) = (io_list io_tx).parse r in ({ b_header = h; b_vtx = x }, r));
    show = (fun b -> io_header.show b.b_header @ (io_list io_tx).show b.b_vtx) }

let nat k = nat_of_int k
let rec desc_of (ty : string) : desc =
  if String.length ty > 4 && String.sub ty 0 4 = "vec:" then
    (match desc_of (String.sub ty 4 (String.length ty - 4)) with
     | D (c, io, hs) -> D (c_vec c, io_list io, hs))
  else match ty with
  | "u8" -> D (c_uint (nat 1), io_n, true)
  | "u16" -> D (c_uint (nat 2), io_n, true)
  | "u32" -> D (c_uint (nat 4), io_n, true)
  | "u64" -> D (c_uint (nat 8), io_n, true)
  | "i8" -> D (c_sint (nat 1), io_z, true)
  | "i16" -> D (c_sint (nat 2), io_z, true)
  | "i32" -> D (c_sint (nat 4), io_z, true)
  | "i64" -> D (c_sint (nat 8), io_z, true)
  | "bytes" | "str" -> D (c_bytes, io_bytes, true)
  | "u256" -> D (c_blob (nat 32), io_bytes, true)
  | "outpoint" -> D (c_outpoint, io_outpoint, true)
  | "txin" -> D (c_txin, io_txin, true)
  | "txout" -> D (c_txout, io_txout, true)
  | "tx" -> D (c_tx true, io_tx, false)
  | "txnw" -> D (c_tx false, io_tx, false)
  | "header" -> D (c_header, io_header, true)
  | "block" -> D (c_block true, io_block, false)
  | "blocknw" -> D (c_block false, io_block, false)
  | _ -> failwith ("unknown type " ^ ty)

let handle op args = match op, args with
  | "consts", [] -> hex_of_n mAX_SIZE
  | "cs_w", [v] -> let x = n_of_hex v in hex_of_bytes (write_compact x) ^ " " ^ hex_of_n (size_of_compact x)
  | "cs_r", [h] ->
    (match read_compact (bytes_of_hex h) with
     | Ok (v, rest) -> "OK " ^ hex_of_n v ^ " " ^ hex_of_bytes rest
     | Err e -> "ERR " ^ err_text e)
  | ("enc" | "encx"), ty :: toks ->
    (match desc_of ty with D (c, io, hs) ->
       let (v, rest) = io.parse toks in
       if rest <> [] then failwith "trailing tokens";
       hex_of_bytes (c.enc v) ^ " " ^ (if hs then hex_of_n (c.ssize v) else "-"))
  | "dec", [ty; h] ->
    (match desc_of ty with D (c, io, _) ->
       (match c.dec (bytes_of_hex h) with
        | Ok (v, rest) -> "OK " ^ String.concat " " (io.show v) ^ " R " ^ hex_of_bytes rest
        | Err e -> "ERR " ^ err_text e))
  | _ -> failwith ("unknown op " ^ op)
let () = main_loop handle
