(* POP state machine model driver (Pop/SmDefs.v, concrete reference-count machine).
   ops:  begin <ki> | conn <a> <parent> <dup> <groups> | set <a> | cmp <a|-> <hint> | sm | react
   ids:  a<n> -> 3n, v<n> -> 3n+1, b<n> -> 3n+2 *)
let n_of_int (i : int) : n = if i <= 0 then N0 else Npos (pos_of_int i)
let int_of_n (x : n) : int = match x with N0 -> 0 | Npos p -> int_of_pos p

let enc (s : string) : n =
  let k = int_of_string (String.sub s 1 (String.length s - 1)) in
  match s.[0] with
  | 'a' -> n_of_int (3 * k) | 'v' -> n_of_int (3 * k + 1) | 'b' -> n_of_int (3 * k + 2)
  | _ -> failwith ("bad id " ^ s)
let name (x : n) : string =
  let i = int_of_n x in
  (match i mod 3 with 0 -> "a" | 1 -> "v" | _ -> "b") ^ string_of_int (i / 3)

let parse_cmd (s : string) : ccmd =
  let body = String.sub s 1 (String.length s - 1) in
  let parts = String.split_on_char '.' body in
  match s.[0], parts with
  | 'R', [v; p] -> AddRef (enc v, enc p)
  | 'E', [e; c; b] -> AddEnd (enc e, enc c, enc b)
  | 'N', [v] -> Need (enc v)
  | 'X', _ -> Poison
  | _ -> failwith ("bad cmd " ^ s)
let parse_groups (s : string) : ccmd list list =
  if s = "-" then [] else
  List.map (fun g -> List.map parse_cmd (String.split_on_char ',' g)) (String.split_on_char ';' s)

let state : (pstate, ccmd) st option ref = ref None
let ki = ref 1
let get () = match !state with Some s -> s | None -> failwith "no state"

let crossed (fh : z) (th : z) : bool = (int_of_z fh / !ki) < (int_of_z th / !ki)

(* `begin <ki> alt`: dumps are restricted to the ALT part (tip, applied count, block levels/flags). Used for histories
   in which a VBK reorganisation takes VTBs off the VBK best chain: SP fork resolution is outside the model, so the
   BTC reference counts / VBK endorsements of the two sides legitimately differ there. *)
let altonly = ref false

let dump (s : (pstate, ccmd) st) : string =
  let b = Buffer.create 256 in
  Buffer.add_string b (Printf.sprintf "tip=%s n=%d |" (name s.tip) (int_of_n s.napp));
  let bl = List.sort (fun x y -> compare (int_of_n x.b_id) (int_of_n y.b_id)) s.blocks in
  List.iter (fun x ->
    let f = (if x.b_fb then "b" else "") ^ (if x.b_fp then "p" else "") ^ (if x.b_fc then "c" else "") in
    Buffer.add_string b (Printf.sprintf " %s:%d:%s:%s" (name x.b_id) (int_of_n x.b_lvl) (if f = "" then "-" else f)
                           (if x.b_act then "1" else "0"))) bl;
  if !altonly then Buffer.contents b else
  let cnt = Hashtbl.create 64 in
  let ends = ref [] in
  List.iter (fun it -> match it with
    | IRef x -> let i = int_of_n x in Hashtbl.replace cnt i (1 + (try Hashtbl.find cnt i with Not_found -> 0))
    | IEnd (e, c, bp) -> ends := (name e ^ ">" ^ name c ^ "@" ^ name bp) :: !ends) s.pst;
  let keys = List.sort compare (Hashtbl.fold (fun k _ acc -> k :: acc) cnt []) in
  Buffer.add_string b " |";
  List.iter (fun k -> if k mod 3 = 1 then Buffer.add_string b (Printf.sprintf " v%d=%d" (k / 3) (Hashtbl.find cnt k))) keys;
  Buffer.add_string b " |";
  List.iter (fun k -> if k mod 3 = 2 then Buffer.add_string b (Printf.sprintf " b%d=%d" (k / 3) (Hashtbl.find cnt k))) keys;
  Buffer.add_string b " |";
  List.iter (fun e -> Buffer.add_string b (" " ^ e)) (List.sort compare !ends);
  Buffer.contents b

let handle op args = match op, args with
  | "begin", (k :: opt) ->
    ki := int_of_string k;
    altonly := (opt = ["alt"]);
    state := Some (c_init (enc "a0") Z0 [IRef (enc "v0"); IRef (enc "b0")]); "ok"
  | "conn", [a; p; d; gs] ->
    (match c_connect (get ()) (enc a) (enc p) (d = "1") (parse_groups gs) with
     | Ok s -> state := Some s; "ok"
     | Abort c -> "ABORT " ^ string_of_int (int_of_n c))
  | "set", [a] ->
    (match c_setState (get ()) (enc a) with
     | Ok (s, ok) -> state := Some s; if ok then "true" else "false"
     | Abort c -> "ABORT " ^ string_of_int (int_of_n c))
  | "cmp", (a :: hint :: rest) ->
    (* the score comparison is an oracle of the model (property C03). The implementation's answer 1 can stem from
       score >= 0 or from score < 0 followed by "candidate invalid when applied alone": when the expected dump
       after the call is given, the oracle value is chosen among {1, -1} so that the model explains it *)
    let cand = if a = "-" then None else Some (enc a) in
    let run h = c_compare (fun _ _ -> z_of_int h) crossed (get ()) cand in
    let expd = match rest with [e] when e <> "-" -> Some (String.map (fun c -> if c = '~' then ' ' else c) e) | _ -> None in
    let h = int_of_string hint in
    let r1 = run h in
    let pick = match r1, expd with
      | Ok (s1, _), Some e when h = 1 && dump s1 <> e ->
        (match run (-1) with Ok (s2, r2) when dump s2 = e -> Ok (s2, r2) | _ -> r1)
      | _ -> r1 in
    (match pick with
     | Ok (s, r) -> state := Some s; let i = int_of_z r in if i < 0 then "-1" else if i > 0 then "1" else "0"
     | Abort c -> "ABORT " ^ string_of_int (int_of_n c))
  | "sm", [] -> dump (get ())
  | "react", [] ->
    (* C20: the re-activation sweep of the harness (`on A react`): setState to every block at the fully-valid level
       (ids in increasing order, as the harness sorts them), then back to the original tip. Pop/SmLaterDefs.v *)
    let s = get () in
    let ids = List.sort (fun x y -> compare (int_of_n x) (int_of_n y)) (full_ids s) in
    (match react s ids with
     | Ok ((s', l), back) ->
       state := Some s';
       let fails = List.filter (fun (_, ok) -> not ok) l in
       "react n=" ^ string_of_int (List.length l) ^
       (if fails = [] && back then "" else
          " FAIL" ^ String.concat "" (List.map (fun (t, _) -> " " ^ name t ^ "(false)") fails) ^ (if back then "" else " back"))
     | Abort c -> "ABORT " ^ string_of_int (int_of_n c))
  | _ -> failwith ("unknown op " ^ op)
let () = main_loop handle
