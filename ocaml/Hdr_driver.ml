(* C17 round 2: VbkBlock::toRaw / what progPowHashImpl reads back (HeaderDefs), lru11 as a lossy map (LruMapDefs) *)
let ieq (a : int) (b : int) = (a = b)

let handle op args = match op, args with
  | "hdr", [hg; ve; pr; k1; k2; mr; ts; df; nn] ->
    let h = { h_height = z_of_hex hg; h_version = z_of_hex ve; h_prev = zbytes_of_hex pr; h_ks1 = zbytes_of_hex k1;
              h_ks2 = zbytes_of_hex k2; h_merkle = zbytes_of_hex mr; h_ts = z_of_hex ts; h_diff = z_of_hex df;
              h_nonce = z_of_hex nn } in
    if not (hdr_wf h) then failwith "generated header outside the field types' ranges" else
    let raw = hdr_raw h in
    (* the model's own read-back must agree with the fields (theorem C17_raw_height_epoch_nonce, re-checked here) *)
    if hex_of_z (raw_height raw) <> hex_of_z h.h_height then failwith "raw_height" else
    hex_of_zbytes raw ^ " " ^ hex_of_z (raw_epoch raw)
  | "lrum", maxsize :: elast :: ops ->
    let parse o =
      if o = "c" then LClear
      else if o.[0] = 'i' then begin
        let dot = String.index o '.' in
        LIns (int_of_string (String.sub o 1 (dot - 1)), int_of_string (String.sub o (dot + 1) (String.length o - dot - 1)))
      end else LGet (int_of_string (String.sub o 1 (String.length o - 1))) in
    let lops = List.map parse ops in
    let (ans, l) = lop_run ieq (nat_of_int (int_of_string maxsize)) (nat_of_int (int_of_string elast)) lops [] in
    if not (answers_admissible ieq ieq lops ans []) then failwith "model answers not admissible" else
    let show o a = match o, a with
      | LIns _, _ -> "i" | LClear, _ -> "c"
      | LGet _, Some (Some v) -> "v" ^ string_of_int v
      | LGet _, _ -> "m" in
    String.concat " " (List.map2 show lops ans) ^ " / " ^ string_of_int (List.length l)
  | _ -> failwith ("unknown op " ^ op)

let () = main_loop handle
