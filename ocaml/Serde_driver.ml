(* Serde model driver: runs the extracted codecs of coq/Serde on the shared line protocol.
   ops:  dec <T> <hex>          -> "V <value> <remaining>" | "INVALID" | "OOB" | "BADALLOC"
         chk <T> <hex>          -> "V" | "INVALID"           (decode verdict only; the harness also runs the stateless checks)
         enc <T> <value>        -> "<hex> <estimateSize>"    ("NOTWF" if the value violates wfd/fits)
         prim <name> <args..>   -> primitives (read/write of single values)
   value text: numbers = hex, '-' prefix negative; bytes = hex, "-" empty; {a,b,..} record; [a;b;..] list; ~ = none *)

(* ---- value trees ---- *)
type tree = A of string | L of tree list | R of tree list

let parse_tree (s : string) : tree =
  let n = String.length s in
  let pos = ref 0 in
  let peek () = if !pos < n then s.[!pos] else '\000' in
  let rec value () =
    match peek () with
    | '{' -> incr pos; R (items ',' '}')
    | '[' -> incr pos; L (items ';' ']')
    | _ ->
      let st = !pos in
      while !pos < n && (match s.[!pos] with '{' | '}' | '[' | ']' | ',' | ';' -> false | _ -> true) do incr pos done;
      A (String.sub s st (!pos - st))
  and items sep close =
    if peek () = close then (incr pos; [])
    else begin
      let acc = ref [value ()] in
      while peek () = sep do incr pos; acc := value () :: !acc done;
      if peek () <> close then failwith "tree syntax";
      incr pos; List.rev !acc
    end in
  let t = value () in
  if !pos <> n then failwith "tree trailing";
  t

let rec show_tree = function
  | A s -> s
  | L l -> "[" ^ String.concat ";" (List.map show_tree l) ^ "]"
  | R l -> "{" ^ String.concat "," (List.map show_tree l) ^ "}"

(* ---- bytes ---- *)
let bytes_of_hex (s : string) : byte0 list = if s = "-" then [] else List.map z2b (zbytes_of_hex s)
let ints_of_bytes (l : byte0 list) : int list = List.map (fun b -> int_of_z (b2z b)) l
let hex_of_bytes (l : byte0 list) : string =
  if l = [] then "-" else begin
    let b = Buffer.create 64 in
    List.iter (fun x -> Buffer.add_string b (Printf.sprintf "%02x" (int_of_z (b2z x)))) l;
    Buffer.contents b end

(* ---- sha256 (for the address checksum only) ---- *)
let sha256 (msg : int list) : int list =
  let k = [|
    0x428a2f98;0x71374491;0xb5c0fbcf;0xe9b5dba5;0x3956c25b;0x59f111f1;0x923f82a4;0xab1c5ed5;
    0xd807aa98;0x12835b01;0x243185be;0x550c7dc3;0x72be5d74;0x80deb1fe;0x9bdc06a7;0xc19bf174;
    0xe49b69c1;0xefbe4786;0x0fc19dc6;0x240ca1cc;0x2de92c6f;0x4a7484aa;0x5cb0a9dc;0x76f988da;
    0x983e5152;0xa831c66d;0xb00327c8;0xbf597fc7;0xc6e00bf3;0xd5a79147;0x06ca6351;0x14292967;
    0x27b70a85;0x2e1b2138;0x4d2c6dfc;0x53380d13;0x650a7354;0x766a0abb;0x81c2c92e;0x92722c85;
    0xa2bfe8a1;0xa81a664b;0xc24b8b70;0xc76c51a3;0xd192e819;0xd6990624;0xf40e3585;0x106aa070;
    0x19a4c116;0x1e376c08;0x2748774c;0x34b0bcb5;0x391c0cb3;0x4ed8aa4a;0x5b9cca4f;0x682e6ff3;
    0x748f82ee;0x78a5636f;0x84c87814;0x8cc70208;0x90befffa;0xa4506ceb;0xbef9a3f7;0xc67178f2 |] in
  let m32 = 0xFFFFFFFF in
  let rotr x n = ((x lsr n) lor (x lsl (32 - n))) land m32 in
  let len = List.length msg in
  let padlen = let r = (len + 9) mod 64 in if r = 0 then 0 else 64 - r in
  let total = len + 9 + padlen in
  let buf = Bytes.make total '\000' in
  List.iteri (fun i b -> Bytes.set buf i (Char.chr b)) msg;
  Bytes.set buf len '\x80';
  let bits = len * 8 in
  for i = 0 to 7 do Bytes.set buf (total - 1 - i) (Char.chr ((bits lsr (8 * i)) land 255)) done;
  let h = [| 0x6a09e667;0xbb67ae85;0x3c6ef372;0xa54ff53a;0x510e527f;0x9b05688c;0x1f83d9ab;0x5be0cd19 |] in
  let w = Array.make 64 0 in
  for blk = 0 to total / 64 - 1 do
    for i = 0 to 15 do
      let g j = Char.code (Bytes.get buf (blk * 64 + i * 4 + j)) in
      w.(i) <- (g 0 lsl 24) lor (g 1 lsl 16) lor (g 2 lsl 8) lor g 3
    done;
    for i = 16 to 63 do
      let s0 = rotr w.(i-15) 7 lxor rotr w.(i-15) 18 lxor (w.(i-15) lsr 3) in
      let s1 = rotr w.(i-2) 17 lxor rotr w.(i-2) 19 lxor (w.(i-2) lsr 10) in
      w.(i) <- (w.(i-16) + s0 + w.(i-7) + s1) land m32
    done;
    let a = ref h.(0) and b = ref h.(1) and c = ref h.(2) and d = ref h.(3)
    and e = ref h.(4) and f = ref h.(5) and g = ref h.(6) and hh = ref h.(7) in
    for i = 0 to 63 do
      let s1 = rotr !e 6 lxor rotr !e 11 lxor rotr !e 25 in
      let ch = (!e land !f) lxor ((lnot !e) land m32 land !g) in
      let t1 = (!hh + s1 + ch + k.(i) + w.(i)) land m32 in
      let s0 = rotr !a 2 lxor rotr !a 13 lxor rotr !a 22 in
      let mj = (!a land !b) lxor (!a land !c) lxor (!b land !c) in
      let t2 = (s0 + mj) land m32 in
      hh := !g; g := !f; f := !e; e := (!d + t1) land m32; d := !c; c := !b; b := !a; a := (t1 + t2) land m32
    done;
    h.(0) <- (h.(0) + !a) land m32; h.(1) <- (h.(1) + !b) land m32; h.(2) <- (h.(2) + !c) land m32;
    h.(3) <- (h.(3) + !d) land m32; h.(4) <- (h.(4) + !e) land m32; h.(5) <- (h.(5) + !f) land m32;
    h.(6) <- (h.(6) + !g) land m32; h.(7) <- (h.(7) + !hh) land m32
  done;
  List.concat (List.map (fun x -> [(x lsr 24) land 255; (x lsr 16) land 255; (x lsr 8) land 255; x land 255]) (Array.to_list h))

(* ---- base58 / base59 text of a byte string: leading zero bytes -> '1', then the digits of the number ---- *)
let alphabet58 = "123456789ABCDEFGHJKLMNPQRSTUVWXYZabcdefghijkmnopqrstuvwxyz"
let alphabet59 = alphabet58 ^ "0"
let encode_base (base : int) (alphabet : string) (data : int list) : string =
  let rec zeros = function 0 :: r -> let (z, t) = zeros r in (z + 1, t) | l -> (0, l) in
  let (nz, rest) = zeros data in
  let num = ref (Array.of_list rest) in
  let digits = ref [] in
  let nonzero a = Array.exists (fun x -> x <> 0) a in
  while nonzero !num do
    let rem = ref 0 in
    let a = !num in
    for i = 0 to Array.length a - 1 do
      let t = !rem * 256 + a.(i) in
      a.(i) <- t / base; rem := t mod base
    done;
    digits := !rem :: !digits
  done;
  String.make nz alphabet.[0] ^ String.concat "" (List.map (fun d -> String.make 1 alphabet.[d]) !digits)

let idx58 c = try Some (String.index alphabet58 c) with Not_found -> None
let is_b58 s = let ok = ref true in String.iter (fun c -> if idx58 c = None then ok := false) s; !ok

(* Address::fromString on the text form of the decoded bytes (address.cpp) *)
let address_text_ok (text : string) : bool =
  String.length text = 30 && text.[0] = 'V' &&
  begin
    let data = String.sub text 0 25 in
    let multisig = text.[29] = '0' in
    let checksum = if multisig then String.sub text 25 4 else String.sub text 25 5 in
    let shape_ok =
      if multisig then
        (match idx58 text.[1], idx58 text.[2] with
         | Some m0, Some n0 ->
           let m = m0 + 1 and n = n0 + 1 in
           n >= 2 && m <= n && n <= 58 && m <= 58 && is_b58 (String.sub text 0 29)
         | _ -> false)
      else is_b58 text in
    shape_ok &&
    begin
      let h = sha256 (List.init (String.length data) (fun i -> Char.code data.[i])) in
      let cs = encode_base 58 alphabet58 h in
      let want = if multisig then 4 else 5 in
      String.length cs >= want && String.sub cs 0 want = checksum
    end
  end

(* inverse of encode_base on well-formed text: leading alphabet.[0] -> zero bytes, then the big-endian number *)
let decode_base (base : int) (alphabet : string) (text : string) : int list =
  let n = String.length text in
  let nz = ref 0 in
  while !nz < n && text.[!nz] = alphabet.[0] do incr nz done;
  let num = ref [] in   (* big-endian base-256 digits *)
  for i = !nz to n - 1 do
    let d = String.index alphabet text.[i] in
    let carry = ref d in
    let mul = List.rev_map (fun x -> let t = x * base + !carry in carry := t / 256; t mod 256) (List.rev !num) in
    (* rev_map over the reversed list processes least-significant first and returns most-significant first *)
    let rec push c acc = if c = 0 then acc else push (c / 256) ((c mod 256) :: acc) in
    num := push !carry mul
  done;
  List.init !nz (fun _ -> 0) @ !num

(* Address normalisation as performed by DeserializeFromVbkEncoding(Address) + Address::fromString:
   the type is derived from the TEXT (multisig iff it ends in '0'), not from the wire type byte *)
let addr_norm (ty : z) (bytes : byte0 list) : (z * byte0 list) option =
  let d = ints_of_bytes bytes in
  let text = match int_of_z ty with
    | 1 -> Some (encode_base 58 alphabet58 d)
    | 3 -> Some (encode_base 59 alphabet59 d)
    | _ -> None in
  match text with
  | Some t when address_text_ok t ->
    let multisig = t.[29] = '0' in
    let b' = if multisig then decode_base 59 alphabet59 t else decode_base 58 alphabet58 t in
    Some (z_of_int (if multisig then 3 else 1), List.map (fun x -> z2b (z_of_int x)) b')
  | _ -> None
let addr_ok ty bytes = addr_norm ty bytes <> None

(* ---- entity <-> tree ---- *)
let tz v = A (hex_of_z v)
let tb l = A (hex_of_bytes l)
let zt = function A s -> z_of_hex s | _ -> failwith "expected number"
let bt = function A s -> bytes_of_hex s | _ -> failwith "expected bytes"
let lt f = function L l -> List.map f l | _ -> failwith "expected list"

let t_address a = R [tz a.addr_type; tb a.addr_bytes]
let address_t = function R [t; b] -> { addr_type = zt t; addr_bytes = bt b } | _ -> failwith "address"
let t_output o = R [t_address o.out_addr; tz o.out_coin]
let output_t = function R [a; c] -> { out_addr = address_t a; out_coin = zt c } | _ -> failwith "output"
let t_btcblock b = R [tz b.bb_version; tb b.bb_prev; tb b.bb_merkle; tz b.bb_time; tz b.bb_bits; tz b.bb_nonce]
let btcblock_t = function
  | R [v; p; m; t; b; n] -> { bb_version = zt v; bb_prev = bt p; bb_merkle = bt m; bb_time = zt t; bb_bits = zt b; bb_nonce = zt n }
  | _ -> failwith "btcblock"
let t_vbkblock b = R [tz b.vb_height; tz b.vb_version; tb b.vb_prev; tb b.vb_ks1; tb b.vb_ks2; tb b.vb_merkle;
                      tz b.vb_time; tz b.vb_difficulty; tz b.vb_nonce]
let vbkblock_t = function
  | R [h; v; p; k1; k2; m; t; d; n] ->
    { vb_height = zt h; vb_version = zt v; vb_prev = bt p; vb_ks1 = bt k1; vb_ks2 = bt k2; vb_merkle = bt m;
      vb_time = zt t; vb_difficulty = zt d; vb_nonce = zt n }
  | _ -> failwith "vbkblock"
let t_merklepath m = R [tz m.mp_index; L (List.map tb m.mp_layers)]
let merklepath_t = function R [i; l] -> { mp_index = zt i; mp_layers = lt bt l } | _ -> failwith "merklepath"
let t_vbkmerklepath m = R [tz m.vmp_tree_index; tz m.vmp_index; tb m.vmp_subject; L (List.map tb m.vmp_layers)]
let vbkmerklepath_t = function
  | R [t; i; s; l] -> { vmp_tree_index = zt t; vmp_index = zt i; vmp_subject = bt s; vmp_layers = lt bt l }
  | _ -> failwith "vbkmerklepath"
let t_pubdata p = R [tz p.pd_identifier; tb p.pd_header; tb p.pd_context; tb p.pd_payout]
let pubdata_t = function
  | R [i; h; c; p] -> { pd_identifier = zt i; pd_header = bt h; pd_context = bt c; pd_payout = bt p }
  | _ -> failwith "pubdata"
let t_nbp (n, t) = R [(match n with Some v -> tz v | None -> A "~"); tz t]
let nbp_t = function R [A "~"; t] -> (None, zt t) | R [n; t] -> (Some (zt n), zt t) | _ -> failwith "nbp"
let t_vbktx t = R [t_nbp t.tx_net; t_address t.tx_src; tz t.tx_amount; L (List.map t_output t.tx_outputs);
                   tz t.tx_sig_index; t_pubdata t.tx_pub; tb t.tx_signature; tb t.tx_pubkey]
let vbktx_t = function
  | R [n; s; a; o; i; p; sg; pk] ->
    { tx_net = nbp_t n; tx_src = address_t s; tx_amount = zt a; tx_outputs = lt output_t o; tx_sig_index = zt i;
      tx_pub = pubdata_t p; tx_signature = bt sg; tx_pubkey = bt pk }
  | _ -> failwith "vbktx"
let t_vbkpoptx t = R [t_nbp t.ptx_net; t_address t.ptx_addr; t_vbkblock t.ptx_published; tb t.ptx_btctx;
                      t_merklepath t.ptx_merkle; t_btcblock t.ptx_bop; L (List.map t_btcblock t.ptx_context);
                      tb t.ptx_signature; tb t.ptx_pubkey]
let vbkpoptx_t = function
  | R [n; a; p; b; m; bop; ctx; sg; pk] ->
    { ptx_net = nbp_t n; ptx_addr = address_t a; ptx_published = vbkblock_t p; ptx_btctx = bt b;
      ptx_merkle = merklepath_t m; ptx_bop = btcblock_t bop; ptx_context = lt btcblock_t ctx;
      ptx_signature = bt sg; ptx_pubkey = bt pk }
  | _ -> failwith "vbkpoptx"
let t_atv a = R [tz a.atv_version; t_vbktx a.atv_tx; t_vbkmerklepath a.atv_merkle; t_vbkblock a.atv_block]
let atv_t = function
  | R [v; t; m; b] -> { atv_version = zt v; atv_tx = vbktx_t t; atv_merkle = vbkmerklepath_t m; atv_block = vbkblock_t b }
  | _ -> failwith "atv"
let t_vtb a = R [tz a.vtb_version; t_vbkpoptx a.vtb_tx; t_vbkmerklepath a.vtb_merkle; t_vbkblock a.vtb_block]
let vtb_t = function
  | R [v; t; m; b] -> { vtb_version = zt v; vtb_tx = vbkpoptx_t t; vtb_merkle = vbkmerklepath_t m; vtb_block = vbkblock_t b }
  | _ -> failwith "vtb"
let t_popdata p = R [tz p.pop_version; L (List.map t_vbkblock p.pop_context); L (List.map t_vtb p.pop_vtbs);
                     L (List.map t_atv p.pop_atvs)]
let popdata_t = function
  | R [v; c; t; a] -> { pop_version = zt v; pop_context = lt vbkblock_t c; pop_vtbs = lt vtb_t t; pop_atvs = lt atv_t a }
  | _ -> failwith "popdata"

let t_altblock b = R [tb b.ab_hash; tb b.ab_prev; tz b.ab_height; tz b.ab_time]
let altblock_t = function
  | R [h; p; ht; t] -> { ab_hash = bt h; ab_prev = bt p; ab_height = zt ht; ab_time = zt t } | _ -> failwith "altblock"
let t_keystones k = R [tb k.kc_first; tb k.kc_second]
let keystones_t = function R [a; b] -> { kc_first = bt a; kc_second = bt b } | _ -> failwith "keystones"
let t_ctxinfo c = R [tz c.ci_height; t_keystones c.ci_keystones]
let ctxinfo_t = function R [h; k] -> { ci_height = zt h; ci_keystones = keystones_t k } | _ -> failwith "ctxinfo"
let t_authctx c = R [t_ctxinfo c.ac_ctx; tb c.ac_state_root]
let authctx_t = function R [c; r] -> { ac_ctx = ctxinfo_t c; ac_state_root = bt r } | _ -> failwith "authctx"

let t_endorsement e = R [tb e.en_id; tb e.en_endorsed; tb e.en_containing; tb e.en_bop]
let endorsement_t = function
  | R [i; e; c; b] -> { en_id = bt i; en_endorsed = bt e; en_containing = bt c; en_bop = bt b } | _ -> failwith "endorsement"
let ids l = L (List.map tb l)
(* PopState is a multimap keyed by id: compare in id order (stable); Blob::operator< compares from the LAST byte down *)
let t_popstate l =
  let key e = hex_of_bytes (List.rev e.en_id) in
  L (List.map t_endorsement (List.stable_sort (fun a b -> compare (key a) (key b)) l))
let t_sba a = R [ids a.sba_bop_ids; L (List.map tz a.sba_refs)]
let t_sva a = R [ids a.sva_endorsed_by; ids a.sva_bop_ids; tz a.sva_ref_count; ids a.sva_vtb_ids; t_popstate a.sva_pop_state]
let t_saa a = R [ids a.saa_endorsed_by; ids a.saa_atv_ids; ids a.saa_vtb_ids; ids a.saa_vbk_ids; t_popstate a.saa_pop_state]
let t_stored th ta (h, (hd, (st, a))) = R [tz h; th hd; tz st; ta a]
let no_read _ = failwith "enc not supported for stored types"

(* ---- ops, generic in the codec ---- *)
let nlen l = List.length l

let do_dec (c : 'a codec) (show : 'a -> tree) (hex : string) : string =
  match c.dec (bytes_of_hex hex) with
  | Value (x, rest) -> Printf.sprintf "V %s %x" (show_tree (show x)) (nlen rest)
  | Invalid -> "INVALID" | Oob -> "OOB" | BadAlloc -> "BADALLOC"

let do_chk (c : 'a codec) (hex : string) : string =
  match c.dec (bytes_of_hex hex) with
  | Value (_, _) -> "V" | Invalid -> "INVALID" | Oob -> "OOB" | BadAlloc -> "BADALLOC"

let do_enc (c : 'a codec) (read : tree -> 'a) (txt : string) : string =
  let x = read (parse_tree txt) in
  if not (c.wfd x && c.fits x) then "NOTWF"
  else Printf.sprintf "%s %s" (hex_of_bytes (c.enc x)) (hex_of_z (c.esize x))

let with_codec (t : string) (k_dec : string -> string) (k_chk : string -> string) (k_enc : string -> string) = ()

let dispatch (op : string) (t : string) (arg : string) : string =
  let go c show read =
    match op with
    | "dec" -> do_dec c show arg
    | "chk" -> do_chk c arg
    | "enc" -> do_enc c read arg
    | _ -> failwith ("unknown op " ^ op) in
  match t with
  | "address" -> go (c_address addr_norm) t_address address_t
  | "coin" -> go c_coin tz zt
  | "output" -> go (c_output addr_norm) t_output output_t
  | "btctx" -> go c_btctx tb bt
  | "btcblock" -> go c_btcblock t_btcblock btcblock_t
  | "btcblockraw" -> go c_btcblock_raw t_btcblock btcblock_t
  | "vbkblock" -> go c_vbkblock t_vbkblock vbkblock_t
  | "vbkblockraw" -> go c_vbkblock_raw t_vbkblock vbkblock_t
  | "vbkendorsement" -> go c_vbk_endorsement t_endorsement endorsement_t
  | "altendorsement" -> go c_alt_endorsement t_endorsement endorsement_t
  | "storedbtc" -> go c_stored_btc (t_stored t_btcblock t_sba) no_read
  | "storedvbk" -> go c_stored_vbk (t_stored t_vbkblock t_sva) no_read
  | "storedalt" -> go c_stored_alt (t_stored t_altblock t_saa) no_read
  | "altblock" -> go c_altblock t_altblock altblock_t
  | "keystones" -> go c_keystones t_keystones keystones_t
  | "ctxinfo" -> go c_ctxinfo t_ctxinfo ctxinfo_t
  | "authctx" -> go c_authctx t_authctx authctx_t
  | "merklepath" -> go c_merklepath t_merklepath merklepath_t
  | "vbkmerklepath" -> go c_vbkmerklepath t_vbkmerklepath vbkmerklepath_t
  | "pubdata" -> go c_pubdata t_pubdata pubdata_t
  | "vbktx" -> go (c_vbktx addr_norm) t_vbktx vbktx_t
  | "vbkpoptx" -> go (c_vbkpoptx addr_norm) t_vbkpoptx vbkpoptx_t
  | "atv" -> go (c_atv addr_norm) t_atv atv_t
  | "vtb" -> go (c_vtb addr_norm) t_vtb vtb_t
  | "popdata" -> go (c_popdata addr_norm) t_popdata popdata_t
  | _ -> failwith ("unknown type " ^ t)

let show_res show = function
  | Value (x, rest) -> Printf.sprintf "V %s %x" (show x) (nlen rest)
  | Invalid -> "INVALID" | Oob -> "OOB" | BadAlloc -> "BADALLOC"

let ity_of = function
  | "u8" -> u8 | "i16" -> i16 | "u16" -> u16 | "i32" -> i32 | "u32" -> u32 | "i64" -> i64 | "u64" -> u64
  | s -> failwith ("ity " ^ s)

let prim (args : string list) : string =
  match args with
  | ["trimmed"; v] -> hex_of_bytes (trimmed_array (z_of_hex v))
  | ["wsbe"; v] -> hex_of_bytes (write_single_be (z_of_hex v))
  | ["rsbe"; t; h] -> show_res hex_of_z (read_single_be (ity_of t) (bytes_of_hex h))
  | ["rbe"; t; n; h] -> show_res hex_of_z (read_be (ity_of t) (z_of_hex n) (bytes_of_hex h))
  | ["rle"; t; h] -> show_res hex_of_z (read_le (ity_of t) (bytes_of_hex h))
  | ["rsbl"; mn; mx; h] -> show_res hex_of_bytes (read_sbl (z_of_hex mn) (z_of_hex mx) (bytes_of_hex h))
  | ["rvar"; mn; mx; h] -> show_res hex_of_bytes (read_var_len (z_of_hex mn) (z_of_hex mx) (bytes_of_hex h))
  | ["rcount"; mn; mx; h] -> show_res hex_of_z (read_count (z_of_hex mn) (z_of_hex mx) (bytes_of_hex h))
  | ["addrtext"; t; h] ->
    let d = ints_of_bytes (bytes_of_hex h) in
    (match t with "1" -> encode_base 58 alphabet58 d | _ -> encode_base 59 alphabet59 d) ^ " " ^ b2s (addr_ok (z_of_hex t) (bytes_of_hex h))
  | _ -> failwith "prim"

let handle op args = match op, args with
  | "prim", a -> prim a
  | ("dec" | "chk" | "enc"), [t; arg] -> dispatch op t arg
  | _ -> failwith ("unknown op " ^ op)
let () = main_loop handle
