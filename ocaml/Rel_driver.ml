(* Driver of the three-typed relations model (coq/Mempool/RelDefs.v, extracted rstep). One op per line; ids are
   small decimal numbers, one id space per payload type (t<n> -> n, w<n> -> n, v<n> -> n). Every tree verdict is an
   argument of the op, as the implementation returned it for that step (props/_relcorr.py reads them off the harness).

     new                             empty pool, bop/cont tables reset
     bop <atv> <vbk>                 block of proof carried by an ATV
     cont <vtb> <vbk>                containing block carried by a VTB
     suba <S|T|F> <atv>              submit<ATV>   with its verdict (FAILED_STATELESS / FAILED_STATEFUL / VALID)
     subv <S|T|F> <vtb>              submit<VTB>
     subb <S|T|F> <0|1> <vbk>        submit<VbkBlock>; the flag: the stable tree already has the block
     clean  O                        cleanUp
     gen    C O                      generatePopData  (connect pass, then cleanUp)
     rmall pb=.. pv=.. pa=.. O C     removeAll(PopData) (drop, cleanUp, connect pass)
     clr                             clear
   O = old=<vbk ids> stab=<vbk ids> badb=<vbk ids> badv=<vtb ids> bada=<atv ids>
       (too old / in the stable tree / failing checkContextually; everything not listed is not old, not stable, valid)
   C = sigb=<vbk id>:<f><c>,.. okv=<vtb ids> oka=<atv ids>
       (okv / oka: resubmissions answered VALID, every other one FAILED_STATEFUL. sigb: the first signal the
        implementation emitted for a VBK block during the pass - f: the block was in flight, c: it had a relation at that
        moment. submit<VbkBlock> signals after the in-flight insert (FAILED_STATEFUL) and when VALID creates the
        relation, and erases the in-flight entry after signalling; so a resubmitted block without a signal, or first
        signalled when no longer in flight, was VALID without a new relation (stable flag from stab=); signalled in
        flight without a relation it was FAILED_STATEFUL; signalled in flight with a relation it was VALID and not in
        the stable tree iff the relation did not exist before this resubmission, FAILED_STATEFUL otherwise)
   Answer: "cv=.. cw=.. ca=.. fv=.. fw=.. fa=.. rel=<vbk>:<atvs '.'-separated>/<vtbs>;..." (everything sorted; ids inside
   a relation with their multiplicity) or ABORT when the size assertion of cleanUp fires *)
let n_of_int (i : int) : n = if i <= 0 then N0 else Npos (pos_of_int i)
let int_of_n (x : n) : int = match x with N0 -> 0 | Npos p -> int_of_pos p

let tbl_bop : (int, int) Hashtbl.t = Hashtbl.create 64
let tbl_cont : (int, int) Hashtbl.t = Hashtbl.create 64
(* an ATV/VTB whose carried block was never declared cannot be stepped: the translator declares it before use *)
let look t (x : n) : n = n_of_int (try Hashtbl.find t (int_of_n x) with Not_found -> failwith "undeclared payload")
let f_bop = look tbl_bop and f_cont = look tbl_cont

let state = ref mp0
let aborted = ref false

let ids_of (v : string) : int list =
  List.map int_of_string (List.filter (fun x -> x <> "") (String.split_on_char ',' v))
let arg (name : string) (args : string list) : int list =
  let k = name ^ "=" in
  let kl = String.length k in
  match List.filter (fun a -> String.length a >= kl && String.sub a 0 kl = k) args with
  | a :: _ -> ids_of (String.sub a kl (String.length a - kl))
  | [] -> []
let mem_n (l : int list) (x : n) : bool = List.mem (int_of_n x) l

let oracle_of (args : string list) : oracle =
  let old = arg "old" args and stab = arg "stab" args and badb = arg "badb" args
  and badv = arg "badv" args and bada = arg "bada" args in
  { tooOld = mem_n old; onstable = mem_n stab;
    validB = (fun b -> not (mem_n badb b)); validV = (fun t -> not (mem_n badv t));
    validA = (fun a -> not (mem_n bada a)) }
let pairs (name : string) (args : string list) : (int * string) list =
  let k = name ^ "=" in
  let kl = String.length k in
  match List.filter (fun a -> String.length a >= kl && String.sub a 0 kl = k) args with
  | a :: _ ->
    List.map (fun x -> match String.split_on_char ':' x with
        | [i; v] -> (int_of_string i, v) | _ -> failwith ("bad pair " ^ x))
      (List.filter (fun x -> x <> "") (String.split_on_char ',' (String.sub a kl (String.length a - kl))))
  | [] -> []
type bverdict = BStateful | BFineNew | BFineOld
let coracle_of (args : string list) : coracle =
  let sigb = pairs "sigb" args and stab = arg "stab" args and fv = arg "okv" args and fa = arg "oka" args in
  let vd l x = if mem_n l x then Fine else Stateful in
  let bv (s : mp) (b : n) : bverdict =
    match List.assoc_opt (int_of_n b) sigb with
    | None -> BFineOld
    | Some v when String.length v = 2 ->
      if v.[0] = '0' then BFineOld
      else if v.[1] = '0' then BStateful
      else if has_rel b s.rels then BStateful else BFineNew
    | Some v -> failwith ("bad signal " ^ v) in
  { vB = (fun s b -> match bv s b with BStateful -> Stateful | _ -> Fine);
    stB = (fun s b -> match bv s b with BFineNew -> false | _ -> mem_n stab b);
    vV = (fun _ t -> vd fv t); vA = (fun _ a -> vd fa a) }

let verdict_of = function "S" -> Stateless | "T" -> Stateful | "F" -> Fine | v -> failwith ("bad verdict " ^ v)
let nlist (l : int list) : n list = List.map n_of_int l

let sorted (l : n list) : int list = List.sort compare (List.map int_of_n l)
let ints sep (l : int list) : string = String.concat sep (List.map string_of_int l)
let show () : string =
  if !aborted then "ABORT" else
  let s = !state in
  let rels = List.sort compare (List.map (fun r -> (int_of_n r.hdr, sorted r.ratvs, sorted r.rvtbs)) s.rels) in
  Printf.sprintf "cv=%s cw=%s ca=%s fv=%s fw=%s fa=%s rel=%s"
    (ints "," (sorted s.vbks)) (ints "," (sorted s.svtbs)) (ints "," (sorted s.satvs))
    (ints "," (sorted s.fb)) (ints "," (sorted s.fv)) (ints "," (sorted s.fa))
    (String.concat ";" (List.map (fun (h, a, w) -> Printf.sprintf "%d:%s/%s" h (ints "." a) (ints "." w)) rels))

let step (op : rop) : string =
  (if not !aborted then
     match rstep f_bop f_cont !state op with
     | ROk s -> state := s
     | RAbort -> aborted := true);
  show ()

let handle op args = match op, args with
  | "new", _ -> Hashtbl.reset tbl_bop; Hashtbl.reset tbl_cont; state := mp0; aborted := false; show ()
  | "bop", [a; b] -> Hashtbl.replace tbl_bop (int_of_string a) (int_of_string b); "ok"
  | "cont", [t; b] -> Hashtbl.replace tbl_cont (int_of_string t) (int_of_string b); "ok"
  | "suba", [v; a] -> step (SubA (verdict_of v, n_of_int (int_of_string a)))
  | "subv", [v; t] -> step (SubV (verdict_of v, n_of_int (int_of_string t)))
  | "subb", [v; st; b] -> step (SubB (verdict_of v, st = "1", n_of_int (int_of_string b)))
  | "clean", rest -> step (Clean (oracle_of rest))
  | "gen", rest -> step (Gen (coracle_of rest, oracle_of rest))
  | "rmall", rest ->
    step (RemAll (nlist (arg "pb" rest), nlist (arg "pv" rest), nlist (arg "pa" rest), oracle_of rest, coracle_of rest))
  | "clr", _ -> step Clr
  | "known", [ty; x] ->
    let x = n_of_int (int_of_string x) in
    b2s (match ty with "a" -> knownA !state x | "v" -> knownV !state x | _ -> knownB !state x)
  | _ -> failwith ("unknown op " ^ op)
let () = main_loop handle
