(* C18 model driver: one case per line, see props/C18.py for the op list *)

(* 256-bit number text (canonical hex) <-> 32 little-endian bytes *)
let le32_of_hexnum (s : string) : z list =
  let p = String.make (64 - String.length s) '0' ^ s in
  List.rev (zbytes_of_hex p)
let hexnum_of_le (l : z list) : string =
  let s = hex_of_zbytes (List.rev l) in
  let n = String.length s in
  let i = ref 0 in
  while !i < n - 1 && s.[!i] = '0' do incr i done;
  if n = 0 then "0" else String.sub s !i (n - !i)

let handle op args = match op, args with
  | "frombits", [c] ->
    let ((t, neg), ovf) = fromBits (z_of_hex c) in
    Printf.sprintf "%s %s %s" (hex_of_z t) (b2s neg) (b2s ovf)
  | "tobits", [v; neg] -> hex_of_z (toBits (z_of_hex v) (neg = "1"))
  | "frombits_b", [c] ->
    let ((t, neg), ovf) = fromBits_b (z_of_hex c) in
    Printf.sprintf "%s %s %s" (hexnum_of_le t) (b2s neg) (b2s ovf)
  | "tobits_b", [v; neg] -> hex_of_z (toBits_b (le32_of_hexnum v) (neg = "1"))
  | "add", [a; b] -> hexnum_of_le (uadd (le32_of_hexnum a) (le32_of_hexnum b))
  | "sub", [a; b] -> hexnum_of_le (usub (le32_of_hexnum a) (le32_of_hexnum b))
  | "mul", [a; b] -> hexnum_of_le (umul (le32_of_hexnum a) (le32_of_hexnum b))
  | "div", [a; b] ->
    (match udiv (le32_of_hexnum a) (le32_of_hexnum b) with Done q -> hexnum_of_le q | Throw -> "THROW")
  | "mul32", [a; w] -> hexnum_of_le (mul32 (le32_of_hexnum a) (z_of_hex w))
  | "shl", [a; n] -> hexnum_of_le (shl (le32_of_hexnum a) (z_of_hex n))
  | "shr", [a; n] -> hexnum_of_le (shr (le32_of_hexnum a) (z_of_hex n))
  | "not", [a] -> hexnum_of_le (bnot (le32_of_hexnum a))
  | "neg", [a] -> hexnum_of_le (neg (le32_of_hexnum a))
  | "inc", [a] -> hexnum_of_le (inc (le32_of_hexnum a))
  | "dec", [a] -> hexnum_of_le (dec (le32_of_hexnum a))
  | "cmp", [a; b] -> hex_of_z (cmp (le32_of_hexnum a) (le32_of_hexnum b))
  | "bits", [a] -> hex_of_z (ubits (le32_of_hexnum a))
  | "low64", [a] -> hex_of_z (getLow64 (le32_of_hexnum a))
  | "ofu64", [w] -> hexnum_of_le (of_u64 (z_of_hex w))
  | _ -> failwith ("unknown op " ^ op)
let () = main_loop handle
