(* C18 model driver: one case per line, see props/C18.py for the op list *)

(* 256-bit number text (canonical hex) <-> 32 little-endian bytes *)
let le32_of_hexnum (s : string) : z list =
  let p = String.make (64 - String.length s) '0' ^ s in
  List.rev (zbytes_of_hex p)
let hexnum_of_le (l : z list) : string =
  let s = hex_of_zbytes (List.rev l) in
  let n = String.length s in
  let i = ref 0 in
  while !i < n - 1 && s.[!i] = '0' do incr i done;
  if n = 0 then "0" else String.sub s !i (n - !i)

(* byte strings / texts: hex, "-" = empty *)
let bytes_arg s = if s = "-" then [] else zbytes_of_hex s
let hex_out l = match l with [] -> "-" | _ -> hex_of_zbytes l
let out_bytes o = match o with Ok v -> "OK " ^ hex_out v | Invalid -> "INVALID" | Abort -> "ABORT"
(* sha256 is a Section variable of the address model: the case line supplies the
   values of the real function as <input>:<output> pairs *)
let sha_table args = List.map (fun p -> match String.split_on_char ':' p with
  | [i; o] -> (bytes_arg i, bytes_arg o) | _ -> failwith "bad sha pair") args
let sha_of tbl x = try List.assoc x tbl with Not_found -> failwith "sha256 value not supplied"
let out_addr o = match o with
  | Ok a -> Printf.sprintf "OK %s %s" (hex_of_z a.addr_type) (hex_out (addr_to_string a))
  | Invalid -> "INVALID" | Abort -> "ABORT"

let handle op args = match op, args with
  | "hexstr", [b] -> hex_out (hex_str (bytes_arg b))
  | "parsehex", [s] -> hex_out (parse_hex (bytes_arg s))
  | "ishex", [s] -> b2s (is_hex (bytes_arg s))
  | "b58enc", [b] -> out_bytes (b58_encode (bytes_arg b))
  | "b58dec", [s] -> out_bytes (b58_decode (bytes_arg s))
  | "b59enc", [b] -> "OK " ^ hex_out (b59_encode (bytes_arg b))
  | "b59dec", [s] -> out_bytes (b59_decode (bytes_arg s))
  | "addrpk", k :: sha ->
    let f = sha_of (sha_table sha) in
    let kb = bytes_arg k in
    (match addr_from_public_key f kb with
     | Ok a ->
       let d = (match addr_is_derived_from_public_key f a kb with Ok true -> "1" | Ok false -> "0" | _ -> "X") in
       let back = out_addr (addr_from_string f (addr_to_string a)) in
       Printf.sprintf "%s derived=%s back=%s" (out_addr (Ok a)) d back
     | o -> out_addr o)
  | "addrstr", s :: sha -> out_addr (addr_from_string (sha_of (sha_table sha)) (bytes_arg s))
  | ("frombits" | "pfrombits"), [c] ->
    let ((t, neg), ovf) = fromBits (z_of_hex c) in
    Printf.sprintf "%s %s %s" (hex_of_z t) (b2s neg) (b2s ovf)
  | ("tobits" | "ptobits"), [v; neg] -> hex_of_z (toBits (z_of_hex v) (neg = "1"))
  | "frombits_b", [c] ->
    let ((t, neg), ovf) = fromBits_b (z_of_hex c) in
    Printf.sprintf "%s %s %s" (hexnum_of_le t) (b2s neg) (b2s ovf)
  | "tobits_b", [v; neg] -> hex_of_z (toBits_b (le32_of_hexnum v) (neg = "1"))
  | "add", [a; b] -> hexnum_of_le (uadd (le32_of_hexnum a) (le32_of_hexnum b))
  | "sub", [a; b] -> hexnum_of_le (usub (le32_of_hexnum a) (le32_of_hexnum b))
  | "mul", [a; b] -> hexnum_of_le (umul (le32_of_hexnum a) (le32_of_hexnum b))
  | "div", [a; b] ->
    (match udiv (le32_of_hexnum a) (le32_of_hexnum b) with Done q -> hexnum_of_le q | Throw -> "THROW")
  | "mul32", [a; w] -> hexnum_of_le (mul32 (le32_of_hexnum a) (z_of_hex w))
  | "shl", [a; n] -> hexnum_of_le (shl (le32_of_hexnum a) (z_of_hex n))
  | "shr", [a; n] -> hexnum_of_le (shr (le32_of_hexnum a) (z_of_hex n))
  | "shl_g", [a; n] -> hexnum_of_le (shl_g (le32_of_hexnum a) (z_of_hex n))
  | "shr_g", [a; n] -> hexnum_of_le (shr_g (le32_of_hexnum a) (z_of_hex n))
  | "bits_g", [a] -> hex_of_z (ubits_g (le32_of_hexnum a))
  | "not", [a] -> hexnum_of_le (bnot (le32_of_hexnum a))
  | "neg", [a] -> hexnum_of_le (neg (le32_of_hexnum a))
  | "inc", [a] -> hexnum_of_le (inc (le32_of_hexnum a))
  | "dec", [a] -> hexnum_of_le (dec (le32_of_hexnum a))
  | "cmp", [a; b] -> hex_of_z (cmp (le32_of_hexnum a) (le32_of_hexnum b))
  | "bits", [a] -> hex_of_z (ubits (le32_of_hexnum a))
  | "low64", [a] -> hex_of_z (getLow64 (le32_of_hexnum a))
  | "ofu64", [w] -> hexnum_of_le (of_u64 (z_of_hex w))
  | _ -> failwith ("unknown op " ^ op)
let () = main_loop handle
