let handle op args = match op, args with
  | "frombits", [c] ->
    let ((t, neg), ovf) = fromBits (z_of_hex c) in
    Printf.sprintf "%s %s %s" (hex_of_z t) (b2s neg) (b2s ovf)
  | "tobits", [v; neg] -> hex_of_z (toBits (z_of_hex v) (neg = "1"))
  | _ -> failwith ("unknown op " ^ op)
let () = main_loop handle
