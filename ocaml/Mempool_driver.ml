(* Mempool model driver. Ops:
     vsm <div> <op>...     op = i<k>:<v> | e<k> | c     -> "set=v,v,.. map=k:v,.." (map sorted by key) | ABORT
   the comparator is  (a / div) < (b / div) *)
let n_of_int (i : int) : n = if i <= 0 then N0 else Npos (pos_of_int i)
let int_of_n (x : n) : int = match x with N0 -> 0 | Npos p -> int_of_pos p

let parse_op (s : string) : op =
  if s = "c" then Clear
  else if s.[0] = 'e' then Erase (n_of_int (int_of_string (String.sub s 1 (String.length s - 1))))
  else
    let body = String.sub s 1 (String.length s - 1) in
    match String.split_on_char ':' body with
    | [k; v] -> Insert (n_of_int (int_of_string k), n_of_int (int_of_string v))
    | _ -> failwith ("bad op " ^ s)

let show (s : vsm) : string =
  let set = String.concat "," (List.map (fun v -> string_of_int (int_of_n v)) s.vset) in
  let m = List.sort compare (List.map (fun (k, v) -> (int_of_n k, int_of_n v)) s.vmap) in
  "set=" ^ set ^ " map=" ^ String.concat "," (List.map (fun (k, v) -> Printf.sprintf "%d:%d" k v) m)

let handle op args = match op, args with
  | "vsm", d :: ops ->
    let div = int_of_string d in
    let height v = n_of_int (int_of_n v / div) in
    (match run height empty (List.map parse_op ops) with Ok s -> show s | Abort -> "ABORT")
  | "vsm0", d :: ops ->
    let div = int_of_string d in
    let height v = n_of_int (int_of_n v / div) in
    (match run_v0 height empty (List.map parse_op ops) with Ok s -> show s | Abort -> "ABORT")
  | _ -> failwith ("unknown op " ^ op)
let () = main_loop handle
