(* Mempool model driver. Ops:
     vsm <div> <op>...     op = i<k>:<v> | e<k> | c     -> "set=v,v,.. map=k:v,.." (map sorted by key) | ABORT
   the comparator is  (a / div) < (b / div) *)
let n_of_int (i : int) : n = if i <= 0 then N0 else Npos (pos_of_int i)
let int_of_n (x : n) : int = match x with N0 -> 0 | Npos p -> int_of_pos p

let parse_op (s : string) : op =
  if s = "c" then Clear
  else if s.[0] = 'e' then Erase (n_of_int (int_of_string (String.sub s 1 (String.length s - 1))))
  else
    let body = String.sub s 1 (String.length s - 1) in
    match String.split_on_char ':' body with
    | [k; v] -> Insert (n_of_int (int_of_string k), n_of_int (int_of_string v))
    | _ -> failwith ("bad op " ^ s)

let show (s : vsm) : string =
  let set = String.concat "," (List.map (fun v -> string_of_int (int_of_n v)) s.vset) in
  let m = List.sort compare (List.map (fun (k, v) -> (int_of_n k, int_of_n v)) s.vmap) in
  "set=" ^ set ^ " map=" ^ String.concat "," (List.map (fun (k, v) -> Printf.sprintf "%d:%d" k v) m)

(* ---- pool model, one instance per payload type (0 vbk, 1 vtb, 2 atv), stepped with the tree verdicts the
   harness reports. Payload / block codes: v<n> -> 4n, w<n> -> 4n+2, t<n> -> 4n+1.
     pnew
     pdef <code> <height> <parent block code> <carried block code>
     psub <type> <code> <S|T|F> base=<codes>
     ptry base=.. sv=.. sw=.. sa=..            one connect pass (VbkBlocks, then VTBs, then ATVs)
     pclean gcw=.. gca=.. gfv=.. gfw=.. gfa=..  cleanUp (connected VTB/ATV to drop; in-flight per type to drop)
     pdrop w=.. a=..                            removeAll: ids leave the connected sets
     pclear
   every command answers the state: "C atv=.. vtb=.. F atv=.. vtb=.. vbk=.." (connected sorted, in flight in
   sorted-view order) or ABORT *)
let tbl_ht : (int, int) Hashtbl.t = Hashtbl.create 64
let tbl_par : (int, int) Hashtbl.t = Hashtbl.create 64
let tbl_blk : (int, int) Hashtbl.t = Hashtbl.create 64
let look t (x : n) : n = n_of_int (try Hashtbl.find t (int_of_n x) with Not_found -> 0)
let f_ht = look tbl_ht and f_par = look tbl_par and f_blk = look tbl_blk
let pools : pool array = [| pempty; pempty; pempty |]
let aborted = ref false
let codes (s : string) : n list =
  let p = String.index s '=' in
  let v = String.sub s (p + 1) (String.length s - p - 1) in
  List.map (fun x -> n_of_int (int_of_string x)) (List.filter (fun x -> x <> "") (String.split_on_char ',' v))
let arg (name : string) (args : string list) : n list =
  match List.filter (fun a -> String.length a > String.length name && String.sub a 0 (String.length name + 1) = name ^ "=") args with
  | a :: _ -> codes a | [] -> []
let setp i (r : res) = match r with POk s -> pools.(i) <- s | PAbort -> aborted := true
let ints l = String.concat "," (List.map (fun v -> string_of_int (int_of_n v)) l)
let sorted_ints l = String.concat "," (List.map string_of_int (List.sort compare (List.map int_of_n l)))
let pstate () =
  if !aborted then "ABORT" else
  Printf.sprintf "C atv=%s vtb=%s F atv=%s vtb=%s vbk=%s" (sorted_ints pools.(2).conn) (sorted_ints pools.(1).conn)
    (ints pools.(2).infl.vset) (ints pools.(1).infl.vset) (ints pools.(0).infl.vset)
let carried i = List.map f_blk pools.(i).conn

let handle op args = match op, args with
  | "pnew", _ -> Hashtbl.reset tbl_ht; Hashtbl.reset tbl_par; Hashtbl.reset tbl_blk;
    pools.(0) <- pempty; pools.(1) <- pempty; pools.(2) <- pempty; aborted := false; pstate ()
  | "pdef", [c; h; p; b] ->
    Hashtbl.replace tbl_ht (int_of_string c) (int_of_string h);
    Hashtbl.replace tbl_par (int_of_string c) (int_of_string p);
    Hashtbl.replace tbl_blk (int_of_string c) (int_of_string b); "ok"
  | "psub", ty :: c :: v :: rest ->
    let i = int_of_string ty in
    let vd = (match v with "S" -> Stateless | "T" -> Stale | _ -> Fine) in
    (* blocks carried by payloads of the other types that are connected are part of what the trees know (base) *)
    setp i (submit f_ht f_par f_blk (arg "base" rest) vd (n_of_int (int_of_string c)) pools.(i)); pstate ()
  | "ptry", rest ->
    let base0 = arg "base" rest in
    let before1 = pools.(1).conn in
    setp 0 (tryConnect f_ht f_par f_blk base0 (arg "sv" rest) pools.(0));
    let base1 = base0 @ carried 0 in
    setp 1 (tryConnect f_ht f_par f_blk base1 (arg "sw" rest) pools.(1));
    let base2 = base1 @ List.map f_blk (List.filter (fun p -> not (List.mem p before1)) pools.(1).conn) in
    setp 2 (tryConnect f_ht f_par f_blk base2 (arg "sa" rest) pools.(2)); pstate ()
  | "pclean", rest ->
    setp 0 (cleanUp f_ht [] (arg "gfv" rest) pools.(0));
    setp 1 (cleanUp f_ht (arg "gcw" rest) (arg "gfw" rest) pools.(1));
    setp 2 (cleanUp f_ht (arg "gca" rest) (arg "gfa" rest) pools.(2)); pstate ()
  | "pdrop", rest ->
    pools.(1) <- dropIds (arg "w" rest) pools.(1);
    pools.(2) <- dropIds (arg "a" rest) pools.(2); pstate ()
  | "psync", rest ->
    (* the connected VBK blocks of the model are the temporary-tree blocks: drop those the trees no longer know *)
    let base = arg "base" rest in
    pools.(0) <- dropIds (List.filter (fun x -> not (List.mem x base)) pools.(0).conn) pools.(0);
    (* connected VTBs / ATVs whose carried block vanished from both trees (a reorg removed it after the temporary
       copy had been cleaned up): the model's presence test would still count the block *)
    let vanished i = List.filter (fun p -> not (List.mem (f_blk p) base)) pools.(i).conn in
    ints (vanished 1 @ vanished 2)
  | "pclear", _ ->
    setp 0 (clear0 pools.(0)); setp 1 (clear0 pools.(1)); setp 2 (clear0 pools.(2)); pstate ()
  | "vsm", d :: ops ->
    let div = int_of_string d in
    let height v = n_of_int (int_of_n v / div) in
    (match run height empty (List.map parse_op ops) with Ok s -> show s | Abort -> "ABORT")
  | "vsm0", d :: ops ->
    let div = int_of_string d in
    let height v = n_of_int (int_of_n v / div) in
    (match run_v0 height empty (List.map parse_op ops) with Ok s -> show s | Abort -> "ABORT")
  | _ -> failwith ("unknown op " ^ op)
let () = main_loop handle
