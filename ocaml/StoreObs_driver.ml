(* C10 reload-observation driver (extracted StoreObs_model: SaveLoadDefs + ReloadObsDefs). Same micro-op wire
   format as Store_driver.ml (minit / mop ...), plus mobs <ids> and mloadx <ids>. *)
let n_of_int (i : int) : n = if i <= 0 then N0 else Npos (pos_of_int i)
let int_of_n (x : n) : int = match x with N0 -> 0 | Npos p -> int_of_pos p
let ints s = if s = "-" || s = "" then [] else List.map int_of_string (List.filter (fun x -> x <> "") (String.split_on_char ',' s))
let csv l = if l = [] then "-" else String.concat "," (List.map string_of_int l)
let sorted l = List.sort compare l

(* ---------------- C10: micro-op histories ---------------- *)
let cur : (state * storage) option ref = ref None
let flag_of = function
  | "boot" -> FBootstrap | "fblock" -> FFailedBlock | "fpop" -> FFailedPop | "fchild" -> FFailedChild
  | "haspl" -> FHasPayloads | "active" -> FActive | "deleted" -> FDeleted | s -> failwith ("flag " ^ s)
let nl s = List.map n_of_int (ints s)
let pairs s = (* e1:b1,e2:b2 *)
  if s = "-" || s = "" then [] else
  List.map (fun x -> match String.split_on_char ':' x with
      | [a; b] -> (n_of_int (int_of_string a), n_of_int (int_of_string b)) | _ -> failwith "pair")
    (List.filter (fun x -> x <> "") (String.split_on_char ',' s))
let mop args = match args with
  | ["hdr"; id; par] -> OInsertHeader (n_of_int (int_of_string id), n_of_int (int_of_string par))
  | ["setpl"; id; pl] -> OSetPayloads (n_of_int (int_of_string id), nl pl)
  | ["connect"; id] -> OConnect (n_of_int (int_of_string id))
  | ["apply"; id; lvl; es] -> OApply (n_of_int (int_of_string id), n_of_int (int_of_string lvl), pairs es)
  | ["unapply"; id] -> OUnapply (n_of_int (int_of_string id))
  | ["inval"; id; f; desc] -> OInvalidate (n_of_int (int_of_string id), flag_of f, nl desc)
  | ["reval"; id; f; desc] -> ORevalidate (n_of_int (int_of_string id), flag_of f, nl desc)
  | ["remove"; ids] -> ORemoveSubtree (nl ids)
  | ["rmpl"; id] -> ORemovePayloads (n_of_int (int_of_string id))
  | ["settip"; id] -> OSetTip (n_of_int (int_of_string id))
  | ["save"] -> OSave
  | _ -> failwith "bad micro-op"
let show_blocks (bl : (n * block) list) =
  let l = List.filter_map (fun (k, b) ->
      if b.b_pers.p_status.s_deleted then None
      else Some (Printf.sprintf "%d:%d" (int_of_n k) (int_of_n (status_word b.b_pers.p_status)))) bl in
  if l = [] then "-" else String.concat "," (List.sort compare l)

(* observation of reload (Store/ReloadObsDefs.v): tip=<t> id:parent:height:status:pl.pl:eid>endorsed.:ref:final:by.by ; ... *)
let dots l = if l = [] then "-" else String.concat "." l
let show_obs ((t, l) : n * ((n * bobs option) * n list) list) =
  let one ((id, ob), by) =
    match ob with
    | None -> Printf.sprintf "%d:x" (int_of_n id)
    | Some b ->
      Printf.sprintf "%d:%s:%d:%d:%s:%s:%d:%d:%s" (int_of_n id)
        (match b.o_parent with None -> "-" | Some p -> string_of_int (int_of_n p))
        (int_of_n b.o_height) (int_of_n b.o_status)
        (dots (List.map (fun x -> string_of_int (int_of_n x)) b.o_pl))
        (dots (List.sort compare (List.map (fun (e, k) -> Printf.sprintf "%d>%d" (int_of_n e) (int_of_n k)) b.o_ce)))
        (int_of_n b.o_ref) (if b.o_final then 1 else 0)
        (dots (List.map string_of_int (sorted (List.map int_of_n by)))) in
  Printf.sprintf "tip=%d %s" (int_of_n t) (if l = [] then "-" else String.concat ";" (List.sort compare (List.map one l)))

let handle op args = match op, args with
  | "minit", [] -> cur := Some (init, storage0); "ok"
  | "mop", a ->
    (match !cur with
     | None -> "NO-STATE"
     | Some (s, st) ->
       (match step prims_fixed (mop a) s st with
        | Done (s', st') -> cur := Some (s', st'); "ok"
        | Abort w -> "ABORT " ^ string_of_int (int_of_n w)))
  | "mobs", [ids] ->
    (match !cur with None -> "NO-STATE" | Some (s, _) -> show_obs (obs_state s (nl ids)))
  | "mloadx", [ids] ->
    (match !cur with
     | None -> "NO-STATE"
     | Some (_, st) ->
       (match load_obs prims_fixed st (nl ids) with
        | Inl o -> show_obs o
        | Inr w -> "LOADFAIL " ^ string_of_int (int_of_n w)))
  | _ -> failwith ("unknown op " ^ op)
let () = main_loop handle
