(* C15 model driver: extracted Pow model (BTC/VBK contextual rules + abstract PoW tree).
   The VBK double step [coef] is supplied natively here (OCaml floats are IEEE binary64)
   and every (K, t, result) it is asked for is logged to $POW_COEF_LOG; the plugin re-evaluates
   all of them inside Coq with the primitive-float definition VbkFloat.vbk_coef. *)
type kind = KBtc of btcParams | KVbk of vbkParams
type tstate = { kind : kind; mutable tr : tree; hdrs : (string, hdr) Hashtbl.t }
let trees : (string, tstate) Hashtbl.t = Hashtbl.create 16
let now = ref Z0

let coef_seen : (int * int, unit) Hashtbl.t = Hashtbl.create 97
let coef_log = (try Some (open_out (Sys.getenv "POW_COEF_LOG")) with Not_found -> None)
let coef (k : z) (t : z) : z option =
  let ki = int_of_z k and ti = int_of_z t in
  let r =
    if ti = 0 then None else
    let c = (float_of_int ki /. float_of_int ti +. 0.000000005) *. 100000000.0 in
    if Float.is_nan c || c >= 4294967296.0 || c <= -1.0 then None
    else Some (z_of_int (int_of_float c)) in
  (match coef_log with
   | Some oc when not (Hashtbl.mem coef_seen (ki, ti)) ->
     Hashtbl.replace coef_seen (ki, ti) ();
     Printf.fprintf oc "%d %d %s\n" ki ti (match r with None -> "none" | Some v -> string_of_int (int_of_z v))
   | _ -> ());
  r

let bool_of s = (s = "1")
let code_str = function
  | COk -> "ok" | CBadPow -> "badpow" | CBadPrev -> "badprev" | CBadBits -> "badbits"
  | CTimeOld -> "timeold" | CTimeNew -> "timenew" | CBadKs -> "badks" | CBadChain -> "badchain"
  | CAbort -> "abort" | CThrow -> "throw" | CUndef -> "undef"
let res_str f = function Ok v -> f v | Abort -> "abort" | Throw -> "throw" | Undef -> "undef"

let get t = try Hashtbl.find trees t with Not_found -> failwith ("no tree " ^ t)
let accept ts hd = match ts.kind with
  | KBtc p -> btc_accept p ts.tr hd
  | KVbk p -> vbk_accept coef p ts.tr hd

let after_accept ts (hd : hdr) c =
  let b = find_blk ts.tr.t_blocks hd.h_id in
  Printf.sprintf "%s tip=%s work=%s h=%s" (code_str c) (hex_of_z ts.tr.t_tip.k_id)
    (match b with Some b -> hex_of_z b.k_work | None -> "-")
    (match b with Some b -> hex_of_z b.k_height | None -> "-")

let chain_at ts parent = map to_bidx (chain_of ts.tr.t_blocks parent)

let handle op args = match op, args with
  | "params", [n] ->
    let pb (p : btcParams) = Printf.sprintf "%s %s %s %s %s %s" (hex_of_z p.bp_pow_limit) (hex_of_z p.bp_timespan)
        (hex_of_z p.bp_spacing) (b2s p.bp_allow_min) (b2s p.bp_no_retarget) (hex_of_z p.bp_max_future) in
    let pv (p : vbkParams) = Printf.sprintf "%s %s %s %s %s %s" (hex_of_z p.vp_min_diff) (b2s p.vp_no_retarget)
        (hex_of_z p.vp_N) (hex_of_z p.vp_T) (hex_of_z p.vp_max_future) (hex_of_z p.vp_ks) in
    (match n with
     | "btc_main" -> pb btc_main | "btc_test" -> pb btc_test | "btc_regtest" -> pb btc_regtest
     | "vbk_main" -> pv vbk_main | "vbk_test" -> pv vbk_test | "vbk_regtest" -> pv vbk_regtest
     | _ -> failwith "params")
  | "consts", [] -> Printf.sprintf "%s %s" (hex_of_z vbk_history_for_timestamp_average) (hex_of_z vbk_maximum_difficulty)
  | "newbtc", [t; limit; timespan; spacing; allow; noret; future; gid; gtime; gbits] ->
    let p = { bp_pow_limit = z_of_hex limit; bp_timespan = z_of_hex timespan; bp_spacing = z_of_hex spacing;
              bp_allow_min = bool_of allow; bp_no_retarget = bool_of noret; bp_max_future = z_of_hex future } in
    Hashtbl.replace trees t { kind = KBtc p; tr = genesis_tree btc_block_proof (z_of_hex gid) (z_of_hex gtime) (z_of_hex gbits);
                              hdrs = Hashtbl.create 64 };
    "ok"
  | "newvbk", [t; mindiff; noret; n; tt; future; ks; gid; gtime; gbits] ->
    let p = { vp_min_diff = z_of_hex mindiff; vp_no_retarget = bool_of noret; vp_N = z_of_hex n; vp_T = z_of_hex tt;
              vp_max_future = z_of_hex future; vp_ks = z_of_hex ks } in
    Hashtbl.replace trees t { kind = KVbk p; tr = genesis_tree vbk_block_proof (z_of_hex gid) (z_of_hex gtime) (z_of_hex gbits);
                              hdrs = Hashtbl.create 64 };
    "ok"
  | "now", [t] -> now := z_of_hex t; "ok"
  | "acc", [t; id; parent; time; bits; pow; ks1; ks2] ->
    let ts = get t in
    let hd = { h_id = z_of_hex id; h_parent = z_of_hex parent; h_time = z_of_hex time; h_bits = z_of_hex bits;
               h_pow = bool_of pow; h_now = !now; h_ks1 = z_of_hex ks1; h_ks2 = z_of_hex ks2 } in
    Hashtbl.replace ts.hdrs id hd;
    let (tr', c) = accept ts hd in
    ts.tr <- tr'; after_accept ts hd c
  | "load", [t; id; parent; time; bits] ->
    (* loadBlockForward(fast_load): insertion without any check; the best tip is not observed on such trees *)
    let ts = get t in
    let proof = (match ts.kind with KBtc _ -> btc_block_proof | KVbk _ -> vbk_block_proof) in
    let (tr', ok) = insert_header proof ts.tr (z_of_hex id) (z_of_hex parent) (z_of_hex time) (z_of_hex bits) in
    ts.tr <- tr';
    let b = find_blk ts.tr.t_blocks (z_of_hex id) in
    Printf.sprintf "%s work=%s h=%s" (if ok then "ok" else "fail")
      (match b with Some b -> hex_of_z b.k_work | None -> "-") (match b with Some b -> hex_of_z b.k_height | None -> "-")
  | "dup", [t; id] ->
    let ts = get t in
    let hd0 = (try Hashtbl.find ts.hdrs id with Not_found -> failwith "dup of unknown header") in
    let hd = { hd0 with h_now = !now } in
    let (tr', c) = accept ts hd in
    ts.tr <- tr'; after_accept ts hd c
  | "inv", [t; id] ->
    let ts = get t in
    let order = map (fun b -> b.k_id) ts.tr.t_blocks in
    let (tr', ok) = invalidate_fork ts.tr (z_of_hex id) order in
    ts.tr <- tr';
    if ok then "ok tip=" ^ hex_of_z ts.tr.t_tip.k_id else "skip"
  | "probe", [t; parent; time] ->
    let ts = get t in
    (match find_blk ts.tr.t_blocks (z_of_hex parent) with
     | None -> "noparent"
     | Some pb ->
       let ch = chain_at ts (z_of_hex parent) in
       (match ts.kind with
        | KBtc p -> Printf.sprintf "next=%s mtp=%s" (res_str hex_of_z (btc_next_work p pb.k_height ch (z_of_hex time)))
                      (hex_of_z (btc_mtp ch))
        | KVbk p -> Printf.sprintf "next=%s mtp=%s" (res_str hex_of_z (vbk_next_work coef p pb.k_height ch))
                      (res_str hex_of_z (vbk_min_timestamp ch))))
  | "ks", [t; parent; ks1; ks2] ->
    let ts = get t in
    (match find_blk ts.tr.t_blocks (z_of_hex parent), ts.kind with
     | Some pb, KVbk p -> res_str b2s (vbk_validate_keystones p pb.k_height (chain_at ts (z_of_hex parent)) (z_of_hex ks1) (z_of_hex ks2))
     | _ -> "noparent")
  | "chain", [t; id] ->   (* for in-Coq re-evaluation: "<height> id:time:bits,..." *)
    let ts = get t in
    (match find_blk ts.tr.t_blocks (z_of_hex id) with
     | None -> "noparent"
     | Some pb -> hex_of_z pb.k_height ^ " " ^ String.concat "," (List.map (fun (b : bidx) ->
         Printf.sprintf "%s:%s:%s" (hex_of_z b.x_id) (hex_of_z b.x_time) (hex_of_z b.x_bits)) (chain_at ts (z_of_hex id))))
  | _ -> failwith ("unknown op " ^ op)
let () = main_loop handle; (match coef_log with Some oc -> close_out oc | None -> ())
