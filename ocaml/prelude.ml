(* prelude shared by all model drivers; textually placed after `open <X>_model`.
   Conversions between hex text and the extracted Coq numbers (positive/Z/N/nat
   stay Coq datatypes: ExtrOcamlBasic only). *)
let rec pos_of_bits (bs : bool list) (acc : positive) : positive =
  match bs with [] -> acc | b :: r -> pos_of_bits r (if b then XI acc else XO acc)

let hexval c = match c with
  | '0'..'9' -> Char.code c - 48 | 'a'..'f' -> Char.code c - 87 | 'A'..'F' -> Char.code c - 55
  | _ -> failwith ("bad hex digit " ^ String.make 1 c)

(* msb-first bit list of a hex string *)
let bits_of_hex (s : string) : bool list =
  let l = ref [] in
  String.iter (fun c -> let v = hexval c in
    l := (v land 1 <> 0) :: (v land 2 <> 0) :: (v land 4 <> 0) :: (v land 8 <> 0) :: !l) s;
  List.rev !l

let n_of_hex_bits bs =
  let rec strip = function false :: r -> strip r | l -> l in
  match strip bs with [] -> None | _ :: r -> Some (pos_of_bits r XH)

let z_of_hex (s : string) : z =
  let neg, s = if String.length s > 0 && s.[0] = '-' then true, String.sub s 1 (String.length s - 1) else false, s in
  match n_of_hex_bits (bits_of_hex s) with
  | None -> Z0 | Some p -> if neg then Zneg p else Zpos p

let rec pos_bits (p : positive) (acc : bool list) : bool list = (* msb first *)
  match p with XH -> true :: acc | XO q -> pos_bits q (false :: acc) | XI q -> pos_bits q (true :: acc)

let hex_of_bits (bs : bool list) : string =
  let n = List.length bs in
  let pad = (4 - n mod 4) mod 4 in
  let bs = List.init pad (fun _ -> false) @ bs in
  let b = Buffer.create 16 in
  let rec go = function
    | a :: b1 :: c :: d :: r ->
      let v = (if a then 8 else 0) + (if b1 then 4 else 0) + (if c then 2 else 0) + (if d then 1 else 0) in
      Buffer.add_char b "0123456789abcdef".[v]; go r
    | _ -> () in
  go bs; Buffer.contents b

let hex_of_pos p = hex_of_bits (pos_bits p [])
let hex_of_z (v : z) : string = match v with Z0 -> "0" | Zpos p -> hex_of_pos p | Zneg p -> "-" ^ hex_of_pos p

let rec int_of_pos (p : positive) : int = match p with XH -> 1 | XO q -> 2 * int_of_pos q | XI q -> 2 * int_of_pos q + 1
let int_of_z (v : z) : int = match v with Z0 -> 0 | Zpos p -> int_of_pos p | Zneg p -> - (int_of_pos p)
let rec pos_of_int (i : int) : positive = if i <= 1 then XH else if i land 1 = 0 then XO (pos_of_int (i lsr 1)) else XI (pos_of_int (i lsr 1))
let z_of_int (i : int) : z = if i = 0 then Z0 else if i > 0 then Zpos (pos_of_int i) else Zneg (pos_of_int (- i))
let rec nat_of_int (i : int) : nat = if i <= 0 then O else S (nat_of_int (i - 1))
let rec int_of_nat (n : nat) : int = match n with O -> 0 | S m -> 1 + int_of_nat m
let b2s b = if b then "1" else "0"

(* bytes <-> list of z (one z per byte), hex text "" = empty *)
let zbytes_of_hex (s : string) : z list =
  let n = String.length s / 2 in
  List.init n (fun i -> z_of_int (hexval s.[2*i] * 16 + hexval s.[2*i+1]))
let hex_of_zbytes (l : z list) : string =
  String.concat "" (List.map (fun b -> Printf.sprintf "%02x" (int_of_z b)) l)

let split_ws (s : string) : string list =
  List.filter (fun x -> x <> "") (String.split_on_char ' ' s)

(* main loop: one case per line "<id> <op> <args..>"; handler returns the canonical result text *)
let main_loop (handle : string -> string list -> string) : unit =
  (try
    while true do
      let line = input_line stdin in
      match split_ws line with
      | id :: op :: args ->
        let r = (try handle op args with Failure m -> "MODEL-ERROR " ^ m | Not_found -> "MODEL-ERROR not_found") in
        print_string id; print_char ' '; print_string r; print_newline ()
      | _ -> ()
    done
  with End_of_file -> ())
