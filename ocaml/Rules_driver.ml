(* C04/C19 rule-model driver. Reads the same script as harness/h_rules.cpp:
   `begin k=v..` resets; `decl ...` lines describe the world at id level; `on X verdict|set <a>` evaluates the
   extracted [apply_chain] on the ancestry of <a>; `on X atvinfo|vtbinfo <p>` prints the declared payload (for
   honest ATVs: the context info computed by the extracted [honest_atv] = model of createFromPrevious).
   Every other line is answered "-" (not compared). *)

let idnum (s : string) : int = int_of_string (String.sub s 1 (String.length s - 1))
let zid s = z_of_int (idnum s)
let csv s = if s = "-" || s = "" then [] else List.filter (fun x -> x <> "") (String.split_on_char ',' s)

let alts : blk list ref = ref []
let vbks : blk list ref = ref []
let btcs : blk list ref = ref []
let hid : z list ref = ref []
let vts : (z * z) list ref = ref [(Z0, z_of_int 1603044490)]
let atvs : (string, atv) Hashtbl.t = Hashtbl.create 64
let vtbs : (string, vtb) Hashtbl.t = Hashtbl.create 64
let pds : (string, body) Hashtbl.t = Hashtbl.create 64
let aparent : (string, string) Hashtbl.t = Hashtbl.create 64
let bts : (z * z) list ref = ref [(Z0, z_of_int 1296688602)]
let vnow = ref 1700000000
let settle = ref 50 and vsettle = ref 400 and ki = ref 5

let root = { b_id = Z0; b_parent = z_of_int (-1); b_height = Z0 }
let reset () =
  alts := [root]; vbks := [root]; btcs := [root]; hid := []; vnow := 1700000000; bts := [(Z0, z_of_int 1296688602)]; vts := [(Z0, z_of_int 1603044490)];
  Hashtbl.reset atvs; Hashtbl.reset vtbs; Hashtbl.reset pds; Hashtbl.reset aparent;
  settle := 50; vsettle := 400; ki := 5

let world () = { alts = !alts; vbks = !vbks; btcs = !btcs; hidden = !hid; vtimes = !vts; btimes = !bts; vnow = z_of_int !vnow }
let params () = default_params (z_of_int !settle) (z_of_int !vsettle) (z_of_int !ki)

let has tr id = List.exists (fun b -> b.b_id = id) tr
let add tr s p h =
  let id = zid s in
  if not (has !tr id) then tr := !tr @ [ { b_id = id; b_parent = zid p; b_height = z_of_hex h } ]

let name pfx (v : z) = pfx ^ string_of_int (int_of_z v)
let oname pfx = function None -> "-" | Some v -> name pfx v
let oz s = if s = "-" then None else Some (zid s)

let kind = function
  | EDup -> "dup" | EVbkPrev -> "vbkprev" | EVbkTime -> "vbktime" | EVtbContaining -> "vtbcontaining" | EVtbMany -> "vtbmany"
  | EBtcCtx -> "btcctx" | EBtcPrev -> "btcprev" | EBtcTime -> "btctime" | EVNoEndorsed -> "vnoendorsed" | EVDiffers -> "vdiffers"
  | EVExpired -> "vexpired" | ESfEndorsed -> "sfendorsed" | ESfContext -> "sfcontext" | EDiffers -> "differs"
  | EExpired -> "expired"

let empty_body = { bd_ctx = []; bd_vtbs = []; bd_atvs = [] }

let rec ancestry a acc =
  if a = "a0" then acc
  else match Hashtbl.find_opt aparent a with
    | Some p -> ancestry p (a :: acc)
    | None -> a :: acc

let verdict a =
  let ch = List.map (fun x -> (zid x, (match Hashtbl.find_opt pds x with Some b -> b | None -> empty_body))) (ancestry a []) in
  match apply_chain (world ()) (params ()) st0 ch with
  | VOk _ -> "true"
  | VRefused (c, e) -> Printf.sprintf "false %s %s" (name "a" c) (kind e)

(* C19: the VTBs of ALT block [a] as the extracted honest miner [honest_vtbs] (Rules/C19HonestDefs.v) builds them from
   (id, containing block, endorsed HEIGHT, block of proof) only, in the state of the theorem
   C19_honest_block_accepted_full: after the ancestry of a's parent and a's VBK context *)
let vtb_str (x : vtb) =
  Printf.sprintf "%s %s %s %s" (name "v" x.w_endorsed) (name "v" x.w_containing) (name "b" x.w_conn)
    (String.concat "," (List.map (name "b") x.w_bctx))
let body_of x = match Hashtbl.find_opt pds x with Some b -> b | None -> empty_body
let honest_rebuild a : vtb list option =
  let pre = List.filter (fun x -> x <> a) (ancestry a []) in
  let ch = List.map (fun x -> (zid x, body_of x)) pre in
  match apply_chain (world ()) (params ()) st0 ch with
  | VRefused _ -> None
  | VOk s ->
    let b = body_of a in
    let s1 = { vknown = known_after s.vknown b.bd_ctx; brefs = s.brefs; vin = s.vin; seen = s.seen } in
    let spec (w : vtb) =
      let eh = match height_of !vbks w.w_endorsed with Some h -> h | None -> z_of_int (-1) in
      let bop = match List.rev w.w_bctx with x :: _ -> x | [] -> w.w_conn in
      { vs_id = w.w_id; vs_cont = w.w_containing; vs_eh = eh; vs_bop = bop } in
    honest_vtbs (world ()) s1 (List.map spec b.bd_vtbs)
let hvtbs a = match honest_rebuild a with
  | None -> "none"
  | Some ws -> if ws = [] then "-" else String.concat ";" (List.map vtb_str ws)
let hverdict a = match honest_rebuild a with
  | None -> "none"
  | Some ws ->
    let ch = List.map (fun x -> (zid x, (if x = a then { (body_of x) with bd_vtbs = ws } else body_of x))) (ancestry a []) in
    (match apply_chain (world ()) (params ()) st0 ch with
     | VOk _ -> "true"
     | VRefused (c, e) -> Printf.sprintf "false %s %s" (name "a" c) (kind e))

let handle op args = match op, args with
  | "decl", ["hvtbs"; a] -> hvtbs a
  | "decl", ["hverdict"; a] -> hverdict a
  | "begin", kv ->
    reset ();
    List.iter (fun s -> match String.split_on_char '=' s with
      | ["alt_settle"; v] -> settle := int_of_string v
      | ["vbk_settle"; v] -> vsettle := int_of_string v
      | ["alt_ki"; v] -> ki := int_of_string v
      | _ -> ()) kv;
    "ok"
  | "decl", ["alt"; a; p; h] -> add alts a p (Printf.sprintf "%x" (int_of_string h)); Hashtbl.replace aparent a p; "ok"
  | "decl", ["vbk"; v; p; h; ts] ->
    if not (has !vbks (zid v)) then vts := (zid v, z_of_int (int_of_string ts)) :: !vts;
    add vbks v p (Printf.sprintf "%x" (int_of_string h)); "ok"
  | "decl", ["btc"; b; p; h; ts] ->
    if not (has !btcs (zid b)) then bts := (zid b, z_of_int (int_of_string ts)) :: !bts;
    add btcs b p (Printf.sprintf "%x" (int_of_string h)); "ok"
  | "decl", ["now"; n] -> vnow := int_of_string n; "ok"
  | "decl", ["hidden"; a] -> hid := zid a :: !hid; "ok"
  | "decl", ["atv"; t; e; bop; "honest"] ->
    Hashtbl.replace atvs t (honest_atv (world ()) (z_of_int !ki) (zid t) (zid e) (zid bop)); "ok"
  | "decl", ["atv"; t; e; bop; h; k1; k2] ->
    Hashtbl.replace atvs t { t_id = zid t; t_endorsed = zid e; t_bop = zid bop; t_h = z_of_hex h; t_k1 = oz k1; t_k2 = oz k2 }; "ok"
  | "decl", ["vtb"; w; e; c; last; bctx] ->
    Hashtbl.replace vtbs w { w_id = zid w; w_endorsed = zid e; w_containing = zid c; w_conn = zid last;
                             w_bctx = List.map zid (csv bctx) }; "ok"
  | "decl", ["pd"; a; ctx; ws; ts] ->
    Hashtbl.replace pds a { bd_ctx = List.map zid (csv ctx);
                            bd_vtbs = List.map (fun w -> Hashtbl.find vtbs w) (csv ws);
                            bd_atvs = List.map (fun t -> Hashtbl.find atvs t) (csv ts) }; "ok"
  | "decl", _ -> "ok"
  | "on", (_ :: ("verdict" | "set") :: a :: _) -> verdict a
  | "on", [_; "atvinfo"; t] ->
    (match Hashtbl.find_opt atvs t with
     | None -> "SKIP"
     | Some x -> Printf.sprintf "%s %s %s %s %s" (name "a" x.t_endorsed) (name "v" x.t_bop) (hex_of_z x.t_h)
                   (oname "a" x.t_k1) (oname "a" x.t_k2))
  | "on", [_; "btsof"; b] -> string_of_int (int_of_z (btime (world ()) (zid b)))
  | "on", [_; "vtsof"; v] -> string_of_int (int_of_z (vtime (world ()) (zid v)))
  | "on", [_; "vtbinfo"; w] ->
    (match Hashtbl.find_opt vtbs w with
     | None -> "SKIP"
     | Some x -> Printf.sprintf "%s %s %s %s" (name "v" x.w_endorsed) (name "v" x.w_containing) (name "b" x.w_conn)
                   (String.concat "," (List.map (name "b") x.w_bctx)))
  | _ -> "-"
let () = main_loop handle
