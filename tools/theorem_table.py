#!/usr/bin/env python3
"""tools/theorem_table.py — markdown inventory of the property theorems (coq/Properties_Cnn.v),
used for DESIGN.md 11.7. Counts what is in the files now."""
import os
import re

V = os.path.dirname(os.path.dirname(os.path.abspath(__file__)))
tot = 0
print("| id | n | theorems in `coq/Properties_<id>.v` (`_partial`: part of the full statement, `_refuted`: witness against a variant) |")
print("|---|---|---|")
for i in range(1, 21):
    pid = "C%02d" % i
    src = open(os.path.join(V, "coq", "Properties_%s.v" % pid)).read()
    names = re.findall(r"^Theorem\s+([A-Za-z0-9_']+)", src, re.M)
    tot += len(names)
    short = [n[len(pid) + 1:] if n.startswith(pid + "_") else n for n in names]
    print("| %s | %d | %s |" % (pid, len(names), ", ".join("`%s`" % s for s in short)))
print("\nTotal: %d property theorems." % tot)
