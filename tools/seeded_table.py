#!/usr/bin/env python3
"""print a markdown table of /verif/seeded/*/meta.json (for DESIGN.md section 11.4)"""
import glob, json, os
V = os.path.dirname(os.path.dirname(os.path.abspath(__file__)))
print("| seeded change | property | what it does (needs) | confirmed (suite passes, demo fails only with the change) | caught by quick check | how |")
print("|---|---|---|---|---|---|")
tot = {"n": 0, "first": 0, "after": 0, "other": 0}
for f in sorted(glob.glob(os.path.join(V, "seeded", "*", "meta.json"))):
    m = json.load(open(f))
    v = m.get("verification", {})
    s = v.get("steps", {})
    how = ""
    rp = sorted(glob.glob(os.path.join(os.path.dirname(f), "replays", "*.json")))
    if rp:
        try:
            r = json.load(open(rp[0]))
            how = str(r.get("what") or r.get("oracle") or r.get("kind") or "")[:90]
        except Exception:
            pass
    summ = " ".join(str(m.get("summary", "")).split())[:170]
    needs = " ".join(str(m.get("needs", "")).split())[:150]
    oc = v.get("other_checks", {})
    also = [k for k, r in sorted(oc.items()) if r.get("caught_by_quick")]
    caught = "yes" if v.get("caught_by_quick") else ("yes, after strengthening the check" if v.get("caught_by_quick_after_strengthening") else "NO")
    if also:
        caught += " (caught by the quick check of %s)" % ", ".join(also)
    tot["n"] += 1
    tot["first"] += 1 if v.get("caught_by_quick") else 0
    tot["after"] += 1 if (not v.get("caught_by_quick") and v.get("caught_by_quick_after_strengthening")) else 0
    tot["other"] += 1 if (not v.get("caught_by_quick") and not v.get("caught_by_quick_after_strengthening") and also) else 0
    print("| %s | %s | %s (%s) | %s | %s | %s |" % (
        os.path.basename(os.path.dirname(f)), m.get("property"), summ.replace("|", "/"), needs.replace("|", "/"),
        "yes" if m.get("confirmed") else "NO",
        caught,
        how.replace("|", "/")))
print()
print("Totals: %d changes; %d caught by the property's quick check as first run against them; %d caught after the check was "
      "strengthened in principle; %d caught only by another property's quick check; %d not caught." % (
          tot["n"], tot["first"], tot["after"], tot["other"], tot["n"] - tot["first"] - tot["after"] - tot["other"]))
