#!/usr/bin/env python3
"""print a markdown table of /verif/seeded/*/meta.json (for DESIGN.md section 11.4)"""
import glob, json, os
V = os.path.dirname(os.path.dirname(os.path.abspath(__file__)))
print("| seeded change | property | what it does (needs) | confirmed (suite passes, demo fails only with the change) | caught by quick check | how |")
print("|---|---|---|---|---|---|")
for f in sorted(glob.glob(os.path.join(V, "seeded", "*", "meta.json"))):
    m = json.load(open(f))
    v = m.get("verification", {})
    s = v.get("steps", {})
    how = ""
    rp = sorted(glob.glob(os.path.join(os.path.dirname(f), "replays", "*.json")))
    if rp:
        try:
            r = json.load(open(rp[0]))
            how = str(r.get("what") or r.get("oracle") or r.get("kind") or "")[:90]
        except Exception:
            pass
    summ = " ".join(str(m.get("summary", "")).split())[:170]
    needs = " ".join(str(m.get("needs", "")).split())[:150]
    print("| %s | %s | %s (%s) | %s | %s | %s |" % (
        os.path.basename(os.path.dirname(f)), m.get("property"), summ.replace("|", "/"), needs.replace("|", "/"),
        "yes" if m.get("confirmed") else "NO",
        "yes" if v.get("caught_by_quick") else ("yes, after strengthening the check" if v.get("caught_by_quick_after_strengthening") else "NO"),
        how.replace("|", "/")))
