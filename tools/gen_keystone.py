#!/usr/bin/env python3
"""gen_keystone.py <repo> <coq/Gen dir>  ->  <dir>/KeystoneGen.v

Translates the pure integer leaf functions of <repo>/src/pop/keystone_util.cpp
into Gallina from clang's typed AST (`clang++ -Xclang -ast-dump=json`), so that
every implicit conversion the C++ compiler inserts (int32_t op uint32_t is
UNSIGNED arithmetic!) is taken from the compiler and not from this script.

Semantics of the output (coq/Score/CInt.v): int = Z in [-2^31,2^31) with
overflow = Ub, unsigned = Z mod 2^32, x/0 and x%0 = Ub, a failing
VBK_ASSERT[_MSG] = Abort.  A function whose body can reach one of these has the
result type `res T`, otherwise the plain type.

Supported subset (anything else -> exit 1, nothing written = FAIL CLOSED):
  types       int / int32_t, unsigned int / uint32_t, bool
  statements  VBK_ASSERT[_MSG](c, ..)  |  if (c) { return e; }  |  if (c) return e;
              T x = e;  |  return e;  |  ;
  expressions integer / bool literals, parameters and locals, ( e ), !e,
              + - * (int and unsigned), / % (unsigned only), < <= > >= == !=,
              c ? a : b, calls of functions translated earlier in the same file,
              the implicit/C-style casts LValueToRValue, NoOp, IntegralCast between
              int and unsigned
Every function *defined* in keystone_util.cpp must be translated; a definition the
script cannot find in the AST dump is an error as well.
"""
import json
import os
import re
import subprocess
import sys

sys.path.insert(0, os.path.dirname(os.path.dirname(os.path.abspath(__file__))))
import vlib  # noqa: E402

SRC = "src/pop/keystone_util.cpp"
FILTER = "Keystone"   # substring of every function name in the file (checked below)


class Unsupported(Exception):
    pass


def die(msg):
    sys.stderr.write("gen_keystone: UNSUPPORTED: %s\n" % msg)
    sys.exit(1)


# ---------------------------------------------------------------------------
def ctype(node):
    t = node.get("type", {})
    q = t.get("desugaredQualType", t.get("qualType"))
    q = (q or "").replace("const ", "").strip()
    if q in ("int", "int32_t"):
        return "int"
    if q in ("unsigned int", "uint32_t"):
        return "uint"
    if q in ("bool", "_Bool"):
        return "bool"
    raise Unsupported("type %r" % (t,))


def inner(node):
    return [c for c in node.get("inner", []) if not c.get("kind", "").endswith("Comment")]


class Fn:
    def __init__(self, name, params, rtype):
        self.name, self.params, self.rtype = name, params, rtype
        self.monadic = False
        self.text = ""


class Tr:
    """translator of one function body"""

    def __init__(self, known):
        self.known = known      # name -> Fn (already translated)
        self.env = {}           # C name -> (gallina name, ctype)

    # an expression translates to (pure?, term); pure term : T, otherwise term : res T
    def lift(self, pt):
        pure, t = pt
        return t if not pure else "(Ok %s)" % t

    def combine(self, parts, build, result_monadic=False):
        """parts: list of (pure, term); build(list of atom terms) -> term.
        If all parts are pure and the op itself is pure the result is pure."""
        if all(p for p, _ in parts) and not result_monadic:
            return True, build([t for _, t in parts])
        names = []
        binds = []
        for i, (p, t) in enumerate(parts):
            if p:
                names.append(t)
            else:
                v = self.fresh()
                names.append(v)
                binds.append((v, t))
        body = build(names)
        if not result_monadic:
            body = "(Ok %s)" % body
        for v, t in reversed(binds):
            body = "(bind %s (fun %s => %s))" % (t, v, body)
        return False, body

    _n = 0

    def fresh(self):
        Tr._n += 1
        return "t%d" % Tr._n

    def expr(self, n):
        k = n.get("kind")
        ch = inner(n)
        if k == "IntegerLiteral":
            ctype(n)
            v = int(n["value"])
            return True, ("%d" % v if v >= 0 else "(%d)" % v)
        if k == "CXXBoolLiteralExpr":
            return True, ("true" if n["value"] else "false")
        if k == "ParenExpr":
            return self.expr(ch[0])
        if k == "DeclRefExpr":
            rd = n["referencedDecl"]
            if rd["kind"] not in ("ParmVarDecl", "VarDecl") or rd["name"] not in self.env:
                raise Unsupported("reference to %s %s" % (rd["kind"], rd.get("name")))
            g, t = self.env[rd["name"]]
            if t != ctype(n):
                raise Unsupported("type mismatch on %s" % rd["name"])
            return True, g
        if k in ("ImplicitCastExpr", "CStyleCastExpr"):
            ck = n.get("castKind")
            sub = ch[0]
            if ck in ("LValueToRValue", "NoOp"):
                if ctype(n) != ctype(sub):
                    raise Unsupported("%s changing type" % ck)
                return self.expr(sub)
            if ck == "IntegralCast":
                src, dst = ctype(sub), ctype(n)
                p = self.expr(sub)
                if src == dst:
                    return p
                if src == "int" and dst == "uint":
                    return self.combine([p], lambda a: "(to_u32 %s)" % a[0])
                if src == "uint" and dst == "int":
                    return self.combine([p], lambda a: "(to_i32 %s)" % a[0])
                raise Unsupported("IntegralCast %s -> %s" % (src, dst))
            raise Unsupported("cast kind %s" % ck)
        if k == "UnaryOperator":
            if n["opcode"] == "!" and ctype(n) == "bool" and ctype(ch[0]) == "bool":
                return self.combine([self.expr(ch[0])], lambda a: "(negb %s)" % a[0])
            raise Unsupported("unary operator %s" % n["opcode"])
        if k == "BinaryOperator":
            op = n["opcode"]
            ta, tb = ctype(ch[0]), ctype(ch[1])
            if ta != tb or ta == "bool":
                raise Unsupported("binary %s on %s,%s" % (op, ta, tb))
            a, b = self.expr(ch[0]), self.expr(ch[1])
            cmpops = {"<": "Z.ltb", "<=": "Z.leb", ">": "Z.gtb", ">=": "Z.geb", "==": "Z.eqb"}
            if op in cmpops:
                if ctype(n) != "bool":
                    raise Unsupported("comparison of type " + ctype(n))
                return self.combine([a, b], lambda x: "(%s %s %s)" % (cmpops[op], x[0], x[1]))
            if op == "!=":
                return self.combine([a, b], lambda x: "(negb (Z.eqb %s %s))" % (x[0], x[1]))
            if ctype(n) != ta:
                raise Unsupported("arithmetic result type")
            if ta == "uint":
                pure_ops = {"+": "u32_add", "-": "u32_sub", "*": "u32_mul"}
                mon_ops = {"/": "u32_div", "%": "u32_rem"}
                if op in pure_ops:
                    return self.combine([a, b], lambda x: "(%s %s %s)" % (pure_ops[op], x[0], x[1]))
                if op in mon_ops:
                    return self.combine([a, b], lambda x: "(%s %s %s)" % (mon_ops[op], x[0], x[1]), True)
            if ta == "int":
                mon_ops = {"+": "i32_add", "-": "i32_sub", "*": "i32_mul"}
                if op in mon_ops:
                    return self.combine([a, b], lambda x: "(%s %s %s)" % (mon_ops[op], x[0], x[1]), True)
            raise Unsupported("binary operator %s on %s" % (op, ta))
        if k == "ConditionalOperator":
            if ctype(ch[0]) != "bool" or ctype(ch[1]) != ctype(n) or ctype(ch[2]) != ctype(n):
                raise Unsupported("conditional operator types")
            c, a, b = self.expr(ch[0]), self.expr(ch[1]), self.expr(ch[2])
            if a[0] and b[0]:
                return self.combine([c], lambda x: "(if %s then %s else %s)" % (x[0], a[1], b[1]))
            la, lb = self.lift(a), self.lift(b)
            return self.combine([c], lambda x: "(if %s then %s else %s)" % (x[0], la, lb), True)
        if k == "CallExpr":
            callee = ch[0]
            if callee.get("kind") != "ImplicitCastExpr" or callee.get("castKind") != "FunctionToPointerDecay":
                raise Unsupported("call shape")
            ref = inner(callee)[0]
            if ref.get("kind") != "DeclRefExpr" or ref["referencedDecl"]["kind"] != "FunctionDecl":
                raise Unsupported("call target")
            name = ref["referencedDecl"]["name"]
            if name not in self.known:
                raise Unsupported("call of %s (not a previously translated function of this file)" % name)
            f = self.known[name]
            args = ch[1:]
            if len(args) != len(f.params):
                raise Unsupported("arity of call to " + name)
            for a, (_, pt) in zip(args, f.params):
                if ctype(a) != pt:
                    raise Unsupported("argument type in call to " + name)
            if ctype(n) != f.rtype:
                raise Unsupported("result type of call to " + name)
            parts = [self.expr(a) for a in args]
            return self.combine(parts, lambda x: "(%s %s)" % (name, " ".join(x)), f.monadic)
        raise Unsupported("expression kind %s" % k)

    # ---- statements -------------------------------------------------------
    def is_assert(self, st):
        """VBK_ASSERT[_MSG](x, ...) expands to
             if (!((x))) { auto msg = ...; do {log} while (false); fprintf(stderr, msg); std::terminate(); }
        returns the AST of x or None"""
        if st.get("kind") != "IfStmt" or st.get("hasElse"):
            return None
        ch = inner(st)
        if len(ch) != 2 or ch[1].get("kind") != "CompoundStmt":
            return None
        body = inner(ch[1])
        if not body:
            return None
        last = body[-1]
        if last.get("kind") != "CallExpr":
            return None
        try:
            ref = inner(inner(last)[0])[0]
            if ref["referencedDecl"]["name"] != "terminate":
                return None
        except (KeyError, IndexError):
            return None
        # strict shape of the rest of the macro body
        kinds = [b.get("kind") for b in body[:-1]]
        if kinds != ["DeclStmt", "DoStmt", "CallExpr"]:
            raise Unsupported("block ending in std::terminate() that is not the VBK_ASSERT expansion")
        vd = inner(body[0])
        if len(vd) != 1 or vd[0].get("kind") != "VarDecl" or vd[0].get("name") != "msg":
            raise Unsupported("VBK_ASSERT expansion: msg")
        c = ch[0]
        if c.get("kind") != "UnaryOperator" or c.get("opcode") != "!":
            raise Unsupported("VBK_ASSERT expansion: condition")
        return inner(c)[0]

    def stmts(self, sts, rtype):
        """translate a statement list that must end in a return on every path;
        returns (pure, term)"""
        if not sts:
            raise Unsupported("control reaches the end of the function without return")
        st, rest = sts[0], sts[1:]
        k = st.get("kind")
        if k == "NullStmt":
            return self.stmts(rest, rtype)
        a = self.is_assert(st)
        if a is not None:
            if ctype(a) != "bool":
                raise Unsupported("assert condition type")
            c = self.expr(a)
            r = self.lift(self.stmts(rest, rtype))
            return self.combine([c], lambda x: "(if %s then %s else Abort)" % (x[0], r), True)
        if k == "ReturnStmt":
            if rest:
                raise Unsupported("statements after return")
            ch = inner(st)
            if len(ch) != 1 or ctype(ch[0]) != rtype:
                raise Unsupported("return type")
            return self.expr(ch[0])
        if k == "IfStmt":
            ch = inner(st)
            if st.get("hasElse") or len(ch) != 2 or st.get("hasInit") or st.get("hasVar"):
                raise Unsupported("if with else / init")
            body = ch[1]
            bs = inner(body) if body.get("kind") == "CompoundStmt" else [body]
            if len(bs) != 1 or bs[0].get("kind") != "ReturnStmt":
                raise Unsupported("if body other than a single return")
            if ctype(ch[0]) != "bool":
                raise Unsupported("if condition type")
            c = self.expr(ch[0])
            t = self.stmts(bs, rtype)
            e = self.stmts(rest, rtype)
            if t[0] and e[0]:
                return self.combine([c], lambda x: "(if %s then %s else %s)" % (x[0], t[1], e[1]))
            lt, le = self.lift(t), self.lift(e)
            return self.combine([c], lambda x: "(if %s then %s else %s)" % (x[0], lt, le), True)
        if k == "DeclStmt":
            ch = inner(st)
            if len(ch) != 1 or ch[0].get("kind") != "VarDecl" or ch[0].get("init") != "c":
                raise Unsupported("declaration shape")
            vd = ch[0]
            t = ctype(vd)
            if t == "bool":
                raise Unsupported("bool local")
            name = vd["name"]
            if name in self.env or not re.match(r"^[A-Za-z_][A-Za-z0-9_]*$", name):
                raise Unsupported("local name " + name)
            init = inner(vd)
            if len(init) != 1 or ctype(init[0]) != t:
                raise Unsupported("initialiser of " + name)
            e = self.expr(init[0])
            g = "v_" + name
            self.env[name] = (g, t)
            r = self.stmts(rest, rtype)
            if e[0]:
                return r[0], "(let %s := %s in %s)" % (g, e[1], r[1])
            return False, "(bind %s (fun %s => %s))" % (e[1], g, self.lift(r))
        raise Unsupported("statement kind %s" % k)


GT = {"int": "Z", "uint": "Z", "bool": "bool"}


def translate(fdecl, known):
    name = fdecl["name"]
    ch = inner(fdecl)
    params = []
    body = None
    for c in ch:
        if c["kind"] == "ParmVarDecl":
            params.append((c["name"], ctype(c)))
        elif c["kind"] == "CompoundStmt":
            body = c
        else:
            raise Unsupported("%s: unexpected %s in function declaration" % (name, c["kind"]))
    q = fdecl["type"]["qualType"]
    rt = q.split("(")[0].strip()
    rtype = {"int32_t": "int", "int": "int", "uint32_t": "uint", "unsigned int": "uint", "bool": "bool"}.get(rt)
    if rtype is None:
        raise Unsupported("%s: return type %s" % (name, rt))
    f = Fn(name, params, rtype)
    tr = Tr(known)
    for pn, pt in params:
        if not re.match(r"^[A-Za-z_][A-Za-z0-9_]*$", pn):
            raise Unsupported("parameter name")
        tr.env[pn] = ("a_" + pn, pt)
    pure, term = tr.stmts(inner(body), rtype)
    f.monadic = not pure
    args = " ".join("(a_%s : Z)" % pn if pt != "bool" else "(a_%s : bool)" % pn for pn, pt in params)
    rty = GT[rtype] if pure else "res %s" % GT[rtype]
    sig = ", ".join("%s %s" % ({"int": "int32_t", "uint": "uint32_t", "bool": "bool"}[pt], pn) for pn, pt in params)
    f.text = ("(** %s %s(%s) *)\nDefinition %s %s : %s :=\n  %s.\n"
              % ({"int": "int32_t", "uint": "uint32_t", "bool": "bool"}[rtype], name, sig, name, args, rty, term))
    return f


def defined_functions(src):
    """names of the functions defined in the .cpp (regex over the text, used only
    to make sure the AST dump missed none)"""
    txt = re.sub(r"/\*.*?\*/", " ", src, flags=re.S)
    txt = re.sub(r"//[^\n]*", " ", txt)
    return re.findall(r"^(?:int32_t|uint32_t|bool|int|unsigned|void|[A-Za-z_:<>]+)\s+([A-Za-z_][A-Za-z0-9_]*)\s*\([^;{)]*\)\s*\{",
                      txt, flags=re.M)


def main():
    repo, outdir = sys.argv[1], sys.argv[2]
    path = os.path.join(repo, SRC)
    if not os.path.exists(path):
        die("missing " + SRC)
    p = subprocess.run(["clang++", "-std=c++11", "-I" + os.path.join(repo, "include"), "-fsyntax-only",
                        "-Xclang", "-ast-dump=json", "-Xclang", "-ast-dump-filter=" + FILTER, path],
                       stdout=subprocess.PIPE, stderr=subprocess.PIPE, timeout=240)
    if p.returncode != 0:
        die("clang failed: " + p.stderr.decode("utf-8", "replace")[-400:])
    s = p.stdout.decode()
    dec = json.JSONDecoder()
    i = 0
    decls = []
    while i < len(s):
        while i < len(s) and s[i].isspace():
            i += 1
        if i >= len(s):
            break
        if s[i] != "{":
            i = s.index("\n", i) + 1 if "\n" in s[i:] else len(s)
            continue
        o, i = dec.raw_decode(s, i)
        decls.append(o)
    defs = {}
    order = []
    for d in decls:
        if d.get("kind") != "FunctionDecl":
            continue
        if any(c.get("kind") == "CompoundStmt" for c in inner(d)):
            if d["name"] in defs:
                die("two definitions of " + d["name"])
            defs[d["name"]] = d
            order.append(d["name"])
    want = defined_functions(open(path).read())
    if not want:
        die("no function definitions recognised in " + SRC)
    for w in want:
        if w not in defs:
            die("function %s is defined in %s but was not found in the AST dump" % (w, SRC))
    known = {}
    out = []
    try:
        for name in order:
            if name not in want:
                die("AST dump contains a definition of %s that the source scan did not see" % name)
            f = translate(defs[name], known)
            known[name] = f
            out.append(f.text)
    except Unsupported as e:
        die("%s: %s" % (name, e))
    except (KeyError, IndexError, TypeError) as e:
        die("%s: malformed AST (%r)" % (name, e))
    hdr = ("(** GENERATED by tools/gen_keystone.py from %s (clang AST) - do not edit.\n"
           "    int = Z in [-2^31,2^31) with overflow = Ub; unsigned = Z mod 2^32; x/0, x%%0 = Ub;\n"
           "    failing VBK_ASSERT = Abort (see Score/CInt.v). *)\n"
           "From Coq Require Import ZArith Bool.\nFrom VB Require Import Score.CInt.\nLocal Open Scope Z_scope.\n\n" % SRC)
    sigs = "(* translated: %s *)\n" % ", ".join("%s/%d%s" % (n, len(known[n].params), "!" if known[n].monadic else "")
                                                   for n in order)
    vlib.write_if_changed(os.path.join(outdir, "KeystoneGen.v"), hdr + "\n".join(out) + "\n" + sigs)


if __name__ == "__main__":
    main()
