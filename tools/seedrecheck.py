#!/usr/bin/env python3
"""tools/seedrecheck.py <seeded name>[@Cnn] [more...] — re-run ONLY the property's quick check against a scratch
worktree with the (already confirmed) seeded patch applied, and update seeded/<name>/meta.json
(after a check was strengthened). The confirmation steps (suite, demo) are not repeated."""
import hashlib, json, os, re, shutil, subprocess, sys, time
V = os.path.dirname(os.path.dirname(os.path.abspath(__file__)))


def sh(cmd, cwd=None, timeout=7200, env=None):
    e = dict(os.environ); e.update(env or {})
    p = subprocess.run(cmd, cwd=cwd, shell=isinstance(cmd, str), stdout=subprocess.PIPE, stderr=subprocess.STDOUT, timeout=timeout, env=e)
    return p.returncode, p.stdout.decode("utf-8", "replace")


for name in sys.argv[1:]:
    # name@Cnn: run the check of ANOTHER property against the change (recorded under verification.other_checks)
    name, _, other = name.partition("@")
    d = os.path.join(V, "seeded", name)
    meta = json.load(open(os.path.join(d, "meta.json")))
    pid = other or meta["property"]
    wt = "/tmp/sr-" + name
    sh("git -C /repo worktree remove --force %s" % wt); shutil.rmtree(wt, ignore_errors=True)
    rc, o = sh("git -C /repo worktree add --detach %s HEAD" % wt); assert rc == 0, o
    rc, o = sh("git apply %s" % os.path.join(d, "patch.diff"), cwd=wt)
    res = {"applies_to_repo_head": rc == 0, "repo_head": sh("git -C /repo rev-parse --short HEAD")[1].strip()}
    if rc == 0:
        t = time.time()
        rc, o = sh([os.path.join(V, "check"), pid, "--tier", "quick"], cwd=V, env={"VERIF_REPO": wt})
        lines = [l for l in o.split("\n") if l.startswith(("VIOLATION", "KNOWN-FINDING"))][:6]
        res.update({"check_rc": rc, "check_wall_s": round(time.time() - t), "check_lines": lines})
        caught = rc == 1 and any(l.startswith("VIOLATION") for l in lines)
        res["caught_by_quick"] = caught
        if not other:
            meta.setdefault("verification", {})["caught_by_quick_after_strengthening"] = caught
        for l in lines:
            m = re.search(r"replay=(\S+)", l)
            if m and os.path.exists(m.group(1)):
                os.makedirs(os.path.join(d, "replays"), exist_ok=True)
                shutil.copy(m.group(1), os.path.join(d, "replays"))
    if other:
        meta.setdefault("verification", {}).setdefault("other_checks", {})[other] = res
    else:
        meta.setdefault("verification", {})["recheck"] = res
    json.dump(meta, open(os.path.join(d, "meta.json"), "w"), indent=1)
    sh("git -C /repo worktree remove --force %s" % wt); shutil.rmtree(wt, ignore_errors=True)
    tag = hashlib.sha1(os.path.realpath(wt).encode()).hexdigest()[:8]
    shutil.rmtree(os.path.join(V, "build-" + tag), ignore_errors=True)
    print(name, json.dumps({k: v for k, v in res.items() if k != "check_lines"}), flush=True)
