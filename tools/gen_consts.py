#!/usr/bin/env python3
"""gen_consts.py <repo> <coq/Gen dir>  ->  <coq/Gen dir>/Consts.v

Re-extracts from the repo's *current* headers every numeric constant the Coq
models depend on and writes them as Z definitions (name -> value):
  * include/veriblock/pop/consts.hpp : every `constexpr const <type> NAME = <expr>;`
    and `const static <type> NAME = <expr>;` whose expression is a simple
    integer constant expression (literals, + - * / ( ), sizeof(<fixed width
    type>), earlier constants); string constants are skipped; the TxType enum
    becomes TX_TYPE_<NAME>.
  * include/veriblock/pop/ct_params.hpp : ALT_HASH_SIZE (configured at build time)
  * include/veriblock/pop/entities/address.hpp : enum AddressType -> ADDRESS_TYPE_<NAME>
  * src/pop/entities/address.cpp : MULTISIG_* / STARTING_CHAR constants (chars as codes)
Fails closed (exit 1, nothing written) when a constant named in REQUIRED is
missing or an expression of a REQUIRED constant cannot be evaluated.
"""
import ast
import os
import re
import sys

sys.path.insert(0, os.path.dirname(os.path.dirname(os.path.abspath(__file__))))
import vlib  # noqa: E402

REQUIRED = [
    "SHA256_HASH_SIZE", "BTC_TX_MAX_RAW_SIZE", "BTC_HEADER_SIZE", "MAX_BTC_BLOCKS_IN_VBKPOPTX",
    "BTC_BLOCK_HASH_SIZE", "VBK_BLOCK_HASH_SIZE", "VBK_MERKLE_ROOT_HASH_SIZE",
    "VBK_PREVIOUS_BLOCK_HASH_SIZE", "VBK_PREVIOUS_KEYSTONE_HASH_SIZE",
    "MAX_PAYOUT_INFO_SIZE", "MAX_HEADER_SIZE_PUBLICATION_DATA", "MAX_CONTEXT_SIZE_PUBLICATION_DATA",
    "MAX_PUBLICATIONDATA_SIZE", "MAX_POPDATA_SIZE", "MAX_POPDATA_VBK", "MAX_POPDATA_VTB", "MAX_POPDATA_ATV",
    "MAX_PAYOUT", "MIN_ALT_HASH_SIZE", "MAX_ALT_HASH_SIZE", "MAX_BTCADDON_REFS", "MAX_VBKPOPTX_PER_VBK_BLOCK",
    "VTB_ID_SIZE", "ATV_ID_SIZE", "VBK_ID_SIZE", "VBK_PUBLICATIONDATA_SIZE",
    "VBK_HEADER_SIZE_VBLAKE", "VBK_HEADER_SIZE_PROGPOW", "MAX_LAYER_COUNT_MERKLE", "MAX_OUTPUTS_COUNT",
    "MAX_SIGNATURE_SIZE", "MAX_PUBLIC_KEY_SIZE", "VBK_ADDRESS_SIZE", "ADDRESS_POP_DATA_SIZE_PROGPOW",
    "ALT_HASH_SIZE", "TX_TYPE_VBK_TX", "TX_TYPE_VBK_POP_TX", "ADDRESS_TYPE_STANDARD", "ADDRESS_TYPE_MULTISIG",
]

SIZEOF = {"int8_t": 1, "uint8_t": 1, "char": 1, "int16_t": 2, "uint16_t": 2, "int32_t": 4, "uint32_t": 4,
          "int64_t": 8, "uint64_t": 8, "int": 4, "unsigned": 4}


def strip_comments(src):
    src = re.sub(r"/\*.*?\*/", " ", src, flags=re.S)
    src = re.sub(r"//[^\n]*", " ", src)
    return src


class Unsupported(Exception):
    pass


def c_eval(expr, env):
    """evaluate a simple C integer constant expression; raises Unsupported"""
    e = expr.strip()
    if '"' in e:
        raise Unsupported("string constant")
    e = re.sub(r"'(\\?.)'", lambda m: str(ord(m.group(1)[-1])), e)
    e = re.sub(r"sizeof\s*\(\s*([A-Za-z_0-9]+)\s*\)",
               lambda m: str(SIZEOF[m.group(1)]) if m.group(1) in SIZEOF else "@", e)
    e = re.sub(r"\b(0[xX][0-9a-fA-F]+|\d+)[uUlL]*\b", r"\1", e)
    if "@" in e or re.search(r"[^\w\s+\-*/()]", e):
        raise Unsupported("unsupported token in %r" % expr)
    try:
        tree = ast.parse(e, mode="eval")
    except SyntaxError:
        raise Unsupported("cannot parse %r" % expr)

    def ev(n):
        if isinstance(n, ast.Expression):
            return ev(n.body)
        if isinstance(n, ast.Constant) and isinstance(n.value, int):
            return n.value
        if isinstance(n, ast.Name):
            if n.id in env:
                return env[n.id]
            raise Unsupported("unknown name %s" % n.id)
        if isinstance(n, ast.UnaryOp) and isinstance(n.op, ast.USub):
            return -ev(n.operand)
        if isinstance(n, ast.BinOp):
            a, b = ev(n.left), ev(n.right)
            if isinstance(n.op, ast.Add):
                return a + b
            if isinstance(n.op, ast.Sub):
                return a - b
            if isinstance(n.op, ast.Mult):
                return a * b
            if isinstance(n.op, ast.Div):
                if b == 0:
                    raise Unsupported("division by zero")
                q = abs(a) // abs(b)
                return q if (a >= 0) == (b >= 0) else -q
        raise Unsupported("unsupported expression %r" % expr)
    return ev(tree)


def parse_consts(text, env, skipped, order):
    for m in re.finditer(r"(?:constexpr\s+const|const\s+static|static\s+const|constexpr)\s+([A-Za-z_0-9:]+)\s+"
                         r"([A-Za-z_][A-Za-z_0-9]*)\s*=\s*([^;]+);", text):
        name, expr = m.group(2), " ".join(m.group(3).split())
        try:
            env[name] = c_eval(expr, env)
            order.append(name)
        except Unsupported as u:
            skipped[name] = str(u)


def parse_enum(text, enum_name, prefix, env, order):
    m = re.search(r"enum\s+class\s+" + enum_name + r"\s*(?::\s*\w+\s*)?\{([^}]*)\}", text)
    if not m:
        return
    nxt = 0
    for item in m.group(1).split(","):
        item = item.strip()
        if not item:
            continue
        if "=" in item:
            n, e = item.split("=", 1)
            v = c_eval(e, env)
        else:
            n, v = item, nxt
        nxt = v + 1
        env[prefix + n.strip()] = v
        order.append(prefix + n.strip())


def main():
    repo, outdir = sys.argv[1], sys.argv[2]
    env, skipped, order = {}, {}, []

    def rd(rel):
        p = os.path.join(repo, rel)
        if not os.path.exists(p):
            print("gen_consts: missing source file %s" % rel)
            sys.exit(1)
        return strip_comments(open(p).read())
    consts = rd("include/veriblock/pop/consts.hpp")
    parse_consts(consts, env, skipped, order)
    ct = os.path.join(repo, "include/veriblock/pop/ct_params.hpp")
    if os.path.exists(ct):
        parse_consts(strip_comments(open(ct).read()), env, skipped, order)
    parse_enum(consts, "TxType", "TX_TYPE_", env, order)
    parse_enum(rd("include/veriblock/pop/entities/address.hpp"), "AddressType", "ADDRESS_TYPE_", env, order)
    acpp = rd("src/pop/entities/address.cpp")
    aenv, aord = dict(env), []
    parse_consts(acpp, aenv, skipped, aord)
    for n in aord:
        if n not in env and (n.startswith("MULTISIG_") or n.endswith("_CHAR")):
            env["ADDRESS_" + n if not n.startswith("ADDRESS") else n] = aenv[n]
            order.append("ADDRESS_" + n if not n.startswith("ADDRESS") else n)
    missing = [n for n in REQUIRED if n not in env]
    if missing:
        print("gen_consts: cannot extract required constants: " +
              ", ".join("%s (%s)" % (n, skipped.get(n, "not found")) for n in missing))
        sys.exit(1)
    seen, lines = set(), []
    lines.append("(** GENERATED by tools/gen_consts.py from the repository's headers — do not edit. *)")
    lines.append("From Coq Require Import ZArith.")
    lines.append("Local Open Scope Z_scope.")
    lines.append("")
    for n in order:
        if n in seen:
            continue
        seen.add(n)
        v = env[n]
        lines.append("Definition %s : Z := %s." % (n, "%d" % v if v >= 0 else "(%d)" % v))
    lines.append("")
    lines.append("(* skipped (not a simple integer constant expression): %s *)" %
                 ", ".join(sorted(k for k in skipped if k not in env)))
    vlib.write_if_changed(os.path.join(outdir, "Consts.v"), "\n".join(lines) + "\n")


if __name__ == "__main__":
    main()
