#!/usr/bin/env python3
"""gen_text_tables.py <repo> <coq/Gen dir>  ->  <dir>/TextTables.v

Regenerates, from the repo's CURRENT sources, the alphabets / index tables /
numeric constants of the text codecs (src/pop/base58.cpp, src/pop/base59.cpp,
src/pop/strutil.cpp, include/veriblock/pop/strutil.hpp, src/pop/entities/address.cpp,
include/veriblock/pop/consts.hpp) as Gallina definitions. The C18 proofs about
alphabet/table inverse-ness, rejection of foreign characters and round-trips are
re-checked against what the code says now.

Fails closed: any initialiser whose shape is not understood (regex miss, element
count different from the declared array size, non-literal element) -> exit 1,
nothing is written.
"""
import os
import re
import sys

sys.path.insert(0, os.path.dirname(os.path.dirname(os.path.abspath(__file__))))
import vlib  # noqa: E402


class Shape(Exception):
    pass


def strip_comments(src):
    src = re.sub(r"/\*.*?\*/", " ", src, flags=re.S)
    out = []
    for line in src.split("\n"):
        # remove // comments that are not inside a string/char literal
        res = []
        i = 0
        q = None
        while i < len(line):
            c = line[i]
            if q:
                res.append(c)
                if c == "\\" and i + 1 < len(line):
                    res.append(line[i + 1])
                    i += 1
                elif c == q:
                    q = None
            else:
                if c in "\"'":
                    q = c
                    res.append(c)
                elif line.startswith("//", i):
                    break
                else:
                    res.append(c)
            i += 1
        out.append("".join(res))
    return "\n".join(out)


def read(repo, rel):
    p = os.path.join(repo, rel)
    if not os.path.exists(p):
        raise Shape("missing source file " + rel)
    return strip_comments(open(p).read())


ESC = {"n": 10, "t": 9, "v": 11, "f": 12, "r": 13, "0": 0, "\\": 92, "'": 39, '"': 34, "a": 7, "b": 8}


def c_string(lit, what):
    """value of one or more adjacent C string literals (simple escapes only)"""
    parts = re.findall(r'"((?:[^"\\]|\\.)*)"', lit)
    if not parts or re.sub(r'"((?:[^"\\]|\\.)*)"', "", lit).strip() != "":
        raise Shape("string literal not understood for " + what + ": " + lit[:60])
    out = []
    for p in parts:
        i = 0
        while i < len(p):
            if p[i] == "\\":
                if i + 1 >= len(p) or p[i + 1] not in ESC:
                    raise Shape("escape not understood in " + what)
                out.append(ESC[p[i + 1]])
                i += 2
            else:
                if ord(p[i]) > 126 or ord(p[i]) < 32:
                    raise Shape("non-ascii character in " + what)
                out.append(ord(p[i]))
                i += 1
    return out


def c_char(tok, what):
    m = re.fullmatch(r"'((?:[^'\\]|\\.))'", tok.strip())
    if not m:
        raise Shape("char literal not understood in " + what + ": " + tok)
    s = m.group(1)
    if s[0] == "\\":
        if s[1] not in ESC:
            raise Shape("escape not understood in " + what)
        return ESC[s[1]]
    return ord(s)


def c_int(tok, what):
    t = tok.strip()
    m = re.fullmatch(r"([-+]?)\s*(0[xX][0-9a-fA-F]+|[0-9]+)[uUlL]*", t)
    if not m:
        raise Shape("integer literal not understood in " + what + ": " + t[:40])
    v = int(m.group(2), 16) if m.group(2).lower().startswith("0x") else int(m.group(2), 10)
    if m.group(2)[0] == "0" and len(m.group(2)) > 1 and not m.group(2).lower().startswith("0x"):
        raise Shape("octal literal in " + what)
    return -v if m.group(1) == "-" else v


def array(src, decl_re, what, elem, lo, hi):
    """decl_re must have one group for the declared size and be followed by `= { ... };`"""
    m = re.search(decl_re + r"\s*=\s*\{(.*?)\}\s*;", src, re.S)
    if not m:
        raise Shape("declaration of %s not found" % what)
    n = int(m.group(1))
    body = m.group(2).strip()
    if body.endswith(","):
        body = body[:-1]
    toks = [t for t in body.split(",")]
    vals = [elem(t, what) for t in toks]
    if len(vals) != n:
        raise Shape("%s: %d initialisers for declared size %d" % (what, len(vals), n))
    for v in vals:
        if not (lo <= v <= hi):
            raise Shape("%s: element %d outside [%d,%d]" % (what, v, lo, hi))
    return vals


def one(src, rx, what, flags=re.S):
    ms = re.findall(rx, src, flags)
    if len(ms) != 1:
        raise Shape("%s: expected exactly one match, found %d" % (what, len(ms)))
    return ms[0]


def zlist(vals):
    def z(v):
        return "(%d)" % v if v < 0 else "%d" % v
    lines = []
    for i in range(0, len(vals), 16):
        lines.append("   " + "; ".join(z(v) for v in vals[i:i + 16]))
    return "[\n" + ";\n".join(lines) + "]"


def generate(repo):
    b58 = read(repo, "src/pop/base58.cpp")
    b59 = read(repo, "src/pop/base59.cpp")
    su = read(repo, "src/pop/strutil.cpp")
    suh = read(repo, "include/veriblock/pop/strutil.hpp")
    adr = read(repo, "src/pop/entities/address.cpp")
    cons = read(repo, "include/veriblock/pop/consts.hpp")

    d = {}
    d["b58_alphabet"] = c_string(one(b58, r"static\s+const\s+char\s*\*\s*pszBase58\s*=\s*(.*?);", "pszBase58"), "pszBase58")
    d["b58_map"] = array(b58, r"static\s+const\s+int8_t\s+mapBase58\s*\[\s*(\d+)\s*\]", "mapBase58", c_int, -128, 127)
    # numeric shape of the two size estimates and the two bases used in the carry loops
    m = one(b58, r"strlen\s*\(\s*psz\s*\)\s*\*\s*(\d+)\s*/\s*(\d+)\s*\+\s*(\d+)\s*;", "base58 decode size estimate")
    d["b58_dec_size_num"], d["b58_dec_size_den"], d["b58_dec_size_add"] = (int(x) for x in m)
    m = one(b58, r"\(\s*pend\s*-\s*pbegin\s*\)\s*\*\s*(\d+)\s*/\s*(\d+)\s*\+\s*(\d+)\s*;", "base58 encode size estimate")
    d["b58_enc_size_num"], d["b58_enc_size_den"], d["b58_enc_size_add"] = (int(x) for x in m)
    m = one(b58, r"carry\s*\+=\s*(\d+)\s*\*\s*\(\s*\*it\s*\)\s*;\s*\*it\s*=\s*carry\s*%\s*(\d+)\s*;\s*carry\s*/=\s*(\d+)\s*;"
                 r".*?carry\s*\+=\s*(\d+)\s*\*\s*\(\s*\*it\s*\)\s*;\s*\*it\s*=\s*carry\s*%\s*(\d+)\s*;\s*carry\s*/=\s*(\d+)\s*;",
            "base58 carry loops")
    dm, dmod, ddiv, em, emod, ediv = (int(x) for x in m)
    if not (dmod == ddiv and emod == ediv):
        raise Shape("base58 carry loops: modulus and divisor differ")
    d["b58_dec_mul"], d["b58_dec_base"], d["b58_enc_mul"], d["b58_enc_base"] = dm, dmod, em, emod
    m = one(b58, r"return\s+DecodeBase58\s*\(\s*str\.c_str\(\)\s*,\s*out\s*,\s*str\.size\(\)\s*\+\s*(\d+)\s*,\s*state\s*\)", "DecodeBase58 max_ret_len")
    d["b58_max_ret_add"] = int(m)

    d["b59_alphabet"] = c_string(one(b59, r"static\s+const\s+char\s*\*\s*g_Base59Alphabet\s*=\s*(.*?);", "g_Base59Alphabet"), "g_Base59Alphabet")
    d["b59_base256"] = c_int(one(b59, r"static\s+const\s+uint32_t\s+g_kBase_256\s*=\s*([^;]*);", "g_kBase_256"), "g_kBase_256")
    d["b59_base"] = c_int(one(b59, r"static\s+const\s+size_t\s+g_kBase59\s*=\s*([^;]*);", "g_kBase59"), "g_kBase59")
    d["b59_indexes"] = array(b59, r"static\s+const\s+std::array\s*<\s*int8_t\s*,\s*(\d+)\s*>\s+g_Indexes", "g_Indexes", c_int, -128, 127)
    # the decode loop must bounds-check the character before indexing (shape of the current code)
    d["b59_bounds_checked"] = 1 if re.search(
        r"static_cast\s*<\s*uint8_t\s*>\s*\(\s*input\s*\[\s*i\s*\]\s*\)\s*;\s*if\s*\(\s*c\s*>=\s*g_Indexes\.size\(\)\s*\)\s*\{\s*return\s+state\.Invalid",
        b59) else 0

    d["hex_digit"] = array(su, r"static\s+const\s+signed\s+char\s+p_util_hexdigit\s*\[\s*(\d+)\s*\]", "p_util_hexdigit", c_int, -128, 127)
    d["hex_map"] = array(suh, r"static\s+const\s+char\s+hexmap\s*\[\s*(\d+)\s*\]", "hexmap", c_char, 0, 127)
    body = one(suh, r"constexpr\s+inline\s+bool\s+IsSpace\s*\(\s*char\s+c\s*\)\s*noexcept\s*\{\s*return\s+(.*?);\s*\}", "IsSpace")
    sp = []
    for t in body.split("||"):
        mm = re.fullmatch(r"\s*c\s*==\s*('(?:[^'\\]|\\.)')\s*", t, re.S)
        if not mm:
            raise Shape("IsSpace: disjunct not understood: " + t.strip()[:40])
        sp.append(c_char(mm.group(1), "IsSpace"))
    d["space_chars"] = sp

    d["addr_size"] = c_int(one(cons, r"constexpr\s+const\s+auto\s+VBK_ADDRESS_SIZE\s*=\s*([^;]*);", "VBK_ADDRESS_SIZE"), "VBK_ADDRESS_SIZE")
    d["addr_starting_char"] = c_char(one(adr, r"constexpr\s+const\s+auto\s+STARTING_CHAR\s*=\s*([^;]*);", "STARTING_CHAR"), "STARTING_CHAR")
    d["addr_multisig_ending_char"] = c_char(one(adr, r"constexpr\s+const\s+auto\s+MULTISIG_ENDING_CHAR\s*=\s*([^;]*);", "MULTISIG_ENDING_CHAR"), "MULTISIG_ENDING_CHAR")
    for name in ("MULTISIG_ADDRESS_M_VALUE", "MULTISIG_ADDRESS_N_VALUE", "MULTISIG_ADDRESS_MIN_N_VALUE",
                 "MULTISIG_ADDRESS_MAX_N_VALUE", "MULTISIG_ADDRESS_MAX_M_VALUE", "MULTISIG_ADDRESS_DATA_END",
                 "MULTISIG_ADDRESS_CHECKSUM_END"):
        d["addr_" + name.lower()] = c_int(one(adr, r"constexpr\s+const\s+auto\s+" + name + r"\s*=\s*([^;]*);", name), name)
    return d


ORDER_LISTS = ["b58_alphabet", "b58_map", "b59_alphabet", "b59_indexes", "hex_digit", "hex_map", "space_chars"]


def render(d):
    out = ["(** GENERATED by tools/gen_text_tables.py from the repo's current sources",
           "    (src/pop/base58.cpp, src/pop/base59.cpp, src/pop/strutil.cpp,",
           "    include/veriblock/pop/strutil.hpp, src/pop/entities/address.cpp,",
           "    include/veriblock/pop/consts.hpp). Never edit by hand. Characters and bytes are",
           "    numbers 0..255; a table entry -1 means \"no digit\". *)",
           "From Coq Require Import ZArith List.",
           "Import ListNotations.",
           "Local Open Scope Z_scope.",
           ""]
    for k in ORDER_LISTS:
        out.append("Definition %s : list Z := %s." % (k, zlist(d[k])))
        out.append("")
    for k in sorted(d):
        if k not in ORDER_LISTS:
            v = d[k]
            out.append("Definition %s : Z := %s." % (k, "(%d)" % v if v < 0 else "%d" % v))
    out.append("")
    return "\n".join(out)


def main():
    if len(sys.argv) != 3:
        print("usage: gen_text_tables.py <repo> <coq/Gen dir>", file=sys.stderr)
        return 2
    repo, outdir = sys.argv[1], sys.argv[2]
    try:
        d = generate(repo)
    except Shape as e:
        print("gen_text_tables: source shape not understood: %s" % e, file=sys.stderr)
        return 1
    vlib.write_if_changed(os.path.join(outdir, "TextTables.v"), render(d))
    return 0


if __name__ == "__main__":
    sys.exit(main())
