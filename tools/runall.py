#!/usr/bin/env python3
"""tools/runall.py [--seeds 1,2,3] [--tier quick] [ids...] — run checks on the unchanged tree, report rc/time/VIOLATION lines"""
import argparse, os, subprocess, sys, time, glob
V = os.path.dirname(os.path.dirname(os.path.abspath(__file__)))
ap = argparse.ArgumentParser()
ap.add_argument("ids", nargs="*")
ap.add_argument("--seeds", default="20260925")
ap.add_argument("--tier", default="quick")
a = ap.parse_args()
ids = a.ids or sorted(os.path.basename(f)[:-3] for f in glob.glob(os.path.join(V, "props", "C??.py")))
bad = 0
for pid in ids:
    for seed in a.seeds.split(","):
        t = time.time()
        e = dict(os.environ); e["VERIF_SEED"] = seed
        p = subprocess.run([os.path.join(V, "check"), pid, "--tier", a.tier], cwd=V, env=e, stdout=subprocess.PIPE, stderr=subprocess.PIPE)
        out = p.stdout.decode("utf-8", "replace")
        lines = [l for l in out.split("\n") if l.startswith(("VIOLATION", "KNOWN-FINDING"))]
        print("%s seed=%s rc=%d %.0fs %s" % (pid, seed, p.returncode, time.time() - t, " | ".join(lines)[:300]), flush=True)
        if p.returncode != 0:
            bad += 1
            sys.stdout.write(p.stderr.decode("utf-8", "replace")[-800:] + "\n")
sys.exit(1 if bad else 0)
