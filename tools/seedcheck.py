#!/usr/bin/env python3
"""tools/seedcheck.py <src dir with patch.diff, build_and_run.sh, meta.json> <seeded name>

Confirms an independently produced breaking change and files it under
/verif/seeded/<name>/:
  1. scratch worktree of /repo HEAD + `git apply patch.diff`
  2. full test build (Release) + ctest  -> must be 100% passed
  3. demonstration on the patched tree (must fail) and on an unpatched build (must pass)
  4. the property's quick check against the patched tree (VERIF_REPO) -> VIOLATION expected
Everything scratch is removed afterwards. Exit 0 iff steps 1-3 confirm the change
(step 4's outcome is recorded, not required).
"""
import json
import os
import re
import shutil
import subprocess
import sys
import time

V = os.path.dirname(os.path.dirname(os.path.abspath(__file__)))
BASE = os.environ.get("SEED_BASE", "/tmp/sc-base")  # unpatched reference build (library only); one per concurrent runner
CMAKE = ["-DCMAKE_BUILD_TYPE=Release", "-DWITH_BACKWARD=OFF", "-DWERROR=OFF",
         "-DFETCHCONTENT_SOURCE_DIR_GOOGLETEST=/usr/src/googletest", "-DFETCHCONTENT_UPDATES_DISCONNECTED=ON"]


def sh(cmd, cwd=None, timeout=7200, env=None):
    e = dict(os.environ)
    e.update(env or {})
    p = subprocess.run(cmd, cwd=cwd, shell=isinstance(cmd, str), stdout=subprocess.PIPE, stderr=subprocess.STDOUT,
                       timeout=timeout, env=e)
    return p.returncode, p.stdout.decode("utf-8", "replace")


def head():
    return sh("git -C /repo rev-parse HEAD")[1].strip()


def ensure_base():
    stamp = os.path.join(BASE, ".head")
    if os.path.exists(stamp) and open(stamp).read() == head() and os.path.exists(BASE + "/_build/lib/libveriblock-pop-cpp.a"):
        return
    sh("git -C /repo worktree remove --force %s" % BASE)
    shutil.rmtree(BASE, ignore_errors=True)
    rc, o = sh("git -C /repo worktree add --detach %s HEAD" % BASE)
    assert rc == 0, o
    rc, o = sh(["cmake", "-G", "Ninja", "-S", BASE, "-B", BASE + "/_build", "-DTESTING=OFF"] + CMAKE)
    assert rc == 0, o
    rc, o = sh("cmake --build %s/_build -j 8 --target veriblock-pop-cpp" % BASE)
    assert rc == 0, o[-3000:]
    open(stamp, "w").write(head())


def main():
    src, name = sys.argv[1], sys.argv[2]
    jobs = os.environ.get("SEED_JOBS", "8")
    meta = json.load(open(os.path.join(src, "meta.json")))
    pid = meta["property"]
    wt = "/tmp/sc-" + name
    res = {"checked_at_repo_head": head(), "steps": {}}
    ok = True
    try:
        ensure_base()
        sh("git -C /repo worktree remove --force %s" % wt)
        shutil.rmtree(wt, ignore_errors=True)
        rc, o = sh("git -C /repo worktree add --detach %s HEAD" % wt)
        assert rc == 0, o
        rc, o = sh("git apply %s" % os.path.abspath(os.path.join(src, "patch.diff")), cwd=wt)
        res["steps"]["apply"] = rc == 0
        if rc != 0:
            res["steps"]["apply_log"] = o[-2000:]
            ok = False
            return
        t = time.time()
        rc, o = sh(["cmake", "-G", "Ninja", "-S", wt, "-B", wt + "/_build", "-DTESTING=ON"] + CMAKE)
        rc2, o2 = sh("cmake --build %s/_build -j %s" % (wt, jobs))
        res["steps"]["compiles"] = rc == 0 and rc2 == 0
        if not res["steps"]["compiles"]:
            res["steps"]["build_log"] = (o + o2)[-3000:]
            ok = False
            return
        rc, o = sh("ctest --test-dir %s/_build -j %s --timeout 3600" % (wt, jobs))
        m = re.search(r"(\d+)% tests passed, (\d+) tests failed out of (\d+)", o)
        res["steps"]["ctest"] = m.group(0) if m else o[-500:]
        res["steps"]["suite_passes"] = rc == 0
        res["steps"]["suite_wall_s"] = round(time.time() - t)
        if rc != 0:
            res["steps"]["ctest_failed"] = re.findall(r"\d+ - (\S+) \(", o)[:20]
            ok = False
        # demonstration
        demo = os.path.join(src, "build_and_run.sh")
        rcp, op = sh(["bash", os.path.abspath(demo), wt], cwd=src, timeout=3600)
        rcb, ob = sh(["bash", os.path.abspath(demo), BASE], cwd=src, timeout=3600)
        res["steps"]["demo_patched_rc"] = rcp
        res["steps"]["demo_unpatched_rc"] = rcb
        res["steps"]["demo_patched_tail"] = op[-600:]
        res["steps"]["demo_unpatched_tail"] = ob[-300:]
        if rcp == 0 or rcb != 0:
            ok = False
        # our check against the patched tree
        shutil.rmtree(wt + "/_build", ignore_errors=True)
        t = time.time()
        rc, o = sh([os.path.join(V, "check"), pid, "--tier", "quick"], cwd=V, timeout=3600, env={"VERIF_REPO": wt})
        res["steps"]["check_rc"] = rc
        res["steps"]["check_wall_s"] = round(time.time() - t)
        res["steps"]["check_lines"] = [l for l in o.split("\n") if l.startswith(("VIOLATION", "KNOWN-FINDING"))][:6]
        res["caught_by_quick"] = rc == 1 and any(l.startswith("VIOLATION") for l in res["steps"]["check_lines"])
        # keep the replay files the check produced
        for l in res["steps"]["check_lines"]:
            m = re.search(r"replay=(\S+)", l)
            if m and os.path.exists(m.group(1)):
                os.makedirs(os.path.join(V, "seeded", name, "replays"), exist_ok=True)
                shutil.copy(m.group(1), os.path.join(V, "seeded", name, "replays"))
    finally:
        dst = os.path.join(V, "seeded", name)
        os.makedirs(dst, exist_ok=True)
        for f in os.listdir(src):
            p = os.path.join(src, f)
            if os.path.isfile(p) and os.path.getsize(p) < 2_000_000 and f != "meta.json":
                shutil.copy(p, dst)
        meta["confirmed"] = ok
        meta["verification"] = res
        json.dump(meta, open(os.path.join(dst, "meta.json"), "w"), indent=1)
        sh("git -C /repo worktree remove --force %s" % wt)
        shutil.rmtree(wt, ignore_errors=True)
        # scratch build dir of the check
        import hashlib
        tag = hashlib.sha1(os.path.realpath(wt).encode()).hexdigest()[:8]
        shutil.rmtree(os.path.join(V, "build-" + tag), ignore_errors=True)
        print(json.dumps({"name": name, "confirmed": ok, "caught_by_quick": res.get("caught_by_quick"), "steps": {k: v for k, v in res["steps"].items() if not k.endswith(("_tail", "_log"))}}, indent=1))
    sys.exit(0 if ok else 1)


if __name__ == "__main__":
    main()
