#!/usr/bin/env python3
"""Regenerate MANIFEST.json from props/Cnn.py META blocks (+ NOT_YET reasons)."""
import importlib
import json
import os
import sys

V = os.path.dirname(os.path.dirname(os.path.abspath(__file__)))
sys.path.insert(0, V)
ALL = ["C%02d" % i for i in range(1, 21)]
checks = []
na = []
for pid in ALL:
    p = os.path.join(V, "props", pid + ".py")
    ready = set(open(os.path.join(V, "tools", "ready.txt")).read().split())
    if not os.path.exists(p) or pid not in ready:
        na.append({"property_id": pid, "reason": "check not built yet in this round (planned, see DESIGN.md section 7); nothing is claimed for it"})
        continue
    m = importlib.import_module("props." + pid)
    meta = getattr(m, "META", {})
    checks.append({
        "property_id": pid,
        "quick_cmd": "./check %s --tier quick" % pid,
        "thorough_cmd": "./check %s --tier thorough" % pid,
        "evidence_file": "/verif/evidence/%s.json" % pid,
        "replay_cmd_template": "./check %s --replay {path}" % pid,
        "engine": "coq-proof+correspondence",
        "level_claimed": {
            "category": getattr(m, "LEVEL", "proof"),
            "text": meta.get("text", ""),
            "design_ref": meta.get("design_ref", "DESIGN.md section 7, " + pid),
        },
        "level_note": meta.get("note", ""),
        "technique": meta.get("technique", "Coq 8.16 machine-checked proof of a hand-written Gallina model + extraction-based correspondence check against the C++ implementation"),
    })
man = {
    "version": 1,
    "setup_cmd": "./setup.sh",
    "hooks": {
        "guard": "VERIBLOCK_ALT_INTEGRATION_CPP_VERIF",
        "enable": "checks configure their own library builds under /verif/build/lib-{rel,asan,tsan,ndebug} with -DVERIBLOCK_ALT_INTEGRATION_CPP_VERIF in CMAKE_CXX_FLAGS and rebuild them with ninja from /repo's working tree on every run",
        "baseline_off_cmd": "cmake --build /repo/_build -j 16 && ctest --test-dir /repo/_build -j8 --timeout 900",
        "source_commits": json.load(open(os.path.join(V, "tools", "hook_commits.json"))) if os.path.exists(os.path.join(V, "tools", "hook_commits.json")) else [],
        "add_only": True,
    },
    "engines": [{
        "name": "coq-proof+correspondence",
        "path": "/verif/check",
        "serves_properties": [c["property_id"] for c in checks],
        "kind_free_text": "Coq 8.16.1 theorems about hand-written executable Gallina models (coq/), tied to /repo by regenerated constants (tools/gen_*.py -> coq/Gen) and by a differential correspondence run of the extracted OCaml model against C++ harnesses linked to the library rebuilt from /repo's working tree",
    }],
    "checks": checks,
    "not_applicable": na,
    "notes": "See DESIGN.md. Known findings: known_findings.txt. Seeded breaking changes: seeded/.",
}
json.dump(man, open(os.path.join(V, "MANIFEST.json"), "w"), indent=1)
print("checks:", [c["property_id"] for c in checks], "not_applicable:", [n["property_id"] for n in na])
