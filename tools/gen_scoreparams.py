#!/usr/bin/env python3
"""gen_scoreparams.py <repo> <coq/Gen dir>  ->  <dir>/ScoreParams.v

Extracts, from the repo's CURRENT headers, the default fork-resolution
parameters of the two protected chains:
  AltChainParams  (include/veriblock/pop/blockchain/alt_chain_params.hpp):
      mKeystoneInterval, mFinalityDelay, mForkResolutionLookUpTable + their getters
  VbkChainParams  (include/veriblock/pop/blockchain/vbk_chain_params.hpp):
      getKeystoneInterval(), getFinalityDelay(), forkResolutionLookUpTable_ + getter
The hypotheses of the scoring theorems about the table (non-empty, entries
representable as int, #keystones * max entry < 2^31) are discharged in
coq/Score/CmpProofs.v for exactly these generated values, so a change of a
default in /repo re-checks them.  The values are additionally compared at run
time with what the linked library reports (harness op `params`).

Fails closed: every pattern must match exactly once, element types must be
uint32_t, every element a plain decimal literal; otherwise exit 1 and nothing is
written.
"""
import os
import re
import sys

sys.path.insert(0, os.path.dirname(os.path.dirname(os.path.abspath(__file__))))
import vlib  # noqa: E402

ALT = "include/veriblock/pop/blockchain/alt_chain_params.hpp"
VBK = "include/veriblock/pop/blockchain/vbk_chain_params.hpp"


def die(msg):
    sys.stderr.write("gen_scoreparams: UNSUPPORTED: %s\n" % msg)
    sys.exit(1)


def strip_comments(src):
    src = re.sub(r"/\*.*?\*/", " ", src, flags=re.S)
    return re.sub(r"//[^\n]*", " ", src)


def once(pat, txt, what):
    m = re.findall(pat, txt, flags=re.S)
    if len(m) != 1:
        die("%s: expected exactly one match, found %d" % (what, len(m)))
    return m[0]


def number(s, what):
    s = s.strip()
    if not re.match(r"^[0-9]+[uU]?$", s):
        die("%s: not a plain decimal literal: %r" % (what, s))
    v = int(s.rstrip("uU"))
    if not 0 <= v < 2 ** 32:
        die("%s: %d is not a uint32_t" % (what, v))
    return v


def table(s, what):
    items = [x for x in s.split(",")]
    if items and items[-1].strip() == "":
        items = items[:-1]
    if not items:
        die(what + ": empty initialiser")
    return [number(x, what) for x in items]


def main():
    repo, outdir = sys.argv[1], sys.argv[2]
    try:
        alt = strip_comments(open(os.path.join(repo, ALT)).read())
        vbk = strip_comments(open(os.path.join(repo, VBK)).read())
    except OSError as e:
        die(str(e))
    W = r"\s+"
    # ---- ALT: data members with in-class initialisers, trivial getters ----
    a_ki = number(once(r"\buint32_t" + W + r"mKeystoneInterval\s*=\s*([^;]+);", alt, "alt mKeystoneInterval"), "alt ki")
    a_fd = number(once(r"\buint32_t" + W + r"mFinalityDelay\s*=\s*([^;]+);", alt, "alt mFinalityDelay"), "alt fd")
    a_tb = table(once(r"std::vector<uint32_t>" + W + r"mForkResolutionLookUpTable\s*\{([^}]*)\}\s*;", alt,
                      "alt mForkResolutionLookUpTable"), "alt table")
    once(r"uint32_t" + W + r"getKeystoneInterval\(\)\s*const\s*noexcept\s*\{\s*return" + W + r"mKeystoneInterval\s*;\s*\}",
         alt, "alt getKeystoneInterval getter")
    once(r"uint32_t" + W + r"getFinalityDelay\(\)\s*const\s*noexcept\s*\{\s*return" + W + r"mFinalityDelay\s*;\s*\}",
         alt, "alt getFinalityDelay getter")
    once(r"const" + W + r"std::vector<uint32_t>&" + W + r"getForkResolutionLookUpTable\(\)\s*const\s*noexcept\s*\{\s*"
         r"return" + W + r"mForkResolutionLookUpTable\s*;\s*\}", alt, "alt getForkResolutionLookUpTable getter")
    # ---- VBK: virtual getters returning literals, protected table member ----
    v_ki = number(once(r"virtual" + W + r"uint32_t" + W + r"getKeystoneInterval\(\)\s*const\s*noexcept\s*\{\s*return" + W +
                       r"([^;]+);\s*\}", vbk, "vbk getKeystoneInterval"), "vbk ki")
    v_fd = number(once(r"virtual" + W + r"uint32_t" + W + r"getFinalityDelay\(\)\s*const\s*noexcept\s*\{\s*return" + W +
                       r"([^;]+);\s*\}", vbk, "vbk getFinalityDelay"), "vbk fd")
    v_tb = table(once(r"std::vector<uint32_t>" + W + r"forkResolutionLookUpTable_\s*\{([^}]*)\}\s*;", vbk,
                      "vbk forkResolutionLookUpTable_"), "vbk table")
    once(r"virtual" + W + r"const" + W + r"std::vector<uint32_t>&" + W + r"getForkResolutionLookUpTable\(\)\s*const\s*noexcept\s*"
         r"\{\s*return" + W + r"forkResolutionLookUpTable_\s*;\s*\}", vbk, "vbk getForkResolutionLookUpTable getter")
    # no second definition/override of the getters in these headers
    for name, txt, what in (("getKeystoneInterval", vbk, "vbk"), ("getFinalityDelay", vbk, "vbk"),
                            ("getForkResolutionLookUpTable", vbk, "vbk"),
                            ("getKeystoneInterval\\(\\)\\s*const", alt, "alt"), ("getFinalityDelay\\(\\)\\s*const", alt, "alt"),
                            ("getForkResolutionLookUpTable\\(\\)\\s*const", alt, "alt")):
        n = len(re.findall(name, txt))
        if n != 1:
            die("%s: %s occurs %d times (an override or overload this script does not understand)" % (what, name, n))

    def lst(l):
        return "[" + "; ".join(str(x) for x in l) + "]"
    out = ("(** GENERATED by tools/gen_scoreparams.py from %s and %s - do not edit. *)\n"
           "From Coq Require Import ZArith List.\nImport ListNotations.\nLocal Open Scope Z_scope.\n\n"
           "Definition alt_keystone_interval : Z := %d.\nDefinition alt_finality_delay : Z := %d.\n"
           "Definition alt_fr_table : list Z := %s.\n\n"
           "Definition vbk_keystone_interval : Z := %d.\nDefinition vbk_finality_delay : Z := %d.\n"
           "Definition vbk_fr_table : list Z := %s.\n" % (ALT, VBK, a_ki, a_fd, lst(a_tb), v_ki, v_fd, lst(v_tb)))
    vlib.write_if_changed(os.path.join(outdir, "ScoreParams.v"), out)


if __name__ == "__main__":
    main()
