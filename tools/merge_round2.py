#!/usr/bin/env python3
"""tools/merge_round2.py — (re)generate DESIGN.md section 12 from tools/round2/HEAD.md + tools/round2/C??.md (between markers)"""
import glob, os
V = os.path.dirname(os.path.dirname(os.path.abspath(__file__)))
p = os.path.join(V, "DESIGN.md")
s = open(p).read()
b, e = "<!-- ROUND2-BEGIN -->", "<!-- ROUND2-END -->"
body = open(os.path.join(V, "tools", "round2", "HEAD.md")).read().rstrip("\n") + "\n\n"
for f in sorted(glob.glob(os.path.join(V, "tools", "round2", "C??.md"))):
    body += open(f).read().rstrip("\n") + "\n\n"
if b in s:
    i, j = s.index(b) + len(b), s.index(e)
    s = s[:i] + "\n" + body + s[j:]
else:
    s = s.rstrip("\n") + "\n\n" + b + "\n" + body + e + "\n"
open(p, "w").write(s)
