#!/usr/bin/env python3
"""gen_rewardparams.py <repo> <coq/Gen dir>  ->  coq/Gen/RewardParams.v

Regenerates, from the repo's CURRENT sources, the default PopPayoutsParams /
AltChainParams values the C14 (POP payout) proofs depend on.

How `double` parameters become fixed point (mirrored here, checked to still be
what the code does): include/veriblock/pop/rewards/poprewards_bigdecimal.hpp

    static const uint32_t decimals = 100000000;
    PopRewardsBigDecimal(double b) : value((uint64_t)(b * decimals)) {}

i.e. the decimal literal is rounded to the nearest IEEE-754 binary64, multiplied
by 1e8 in binary64 (round to nearest even; 1e8 is exact), and TRUNCATED toward
zero to uint64_t.  Python floats are binary64 with the same rounding, so
`int(float(lit) * 100000000.0)` is the same value (x86-64/SSE2, no x87 excess
precision).  Because of the truncation the fixed-point value can be one unit
(1e-8) below the decimal literal (0.06766428 -> 6766427): both are emitted,
`*_conv` = what the library computes with, `*_lit` = literal * 1e8 exactly
(as numerator/denominator when that is not an integer).
The correspondence harness re-checks every conversion against the C++.

Fails closed (exit 1) when the source no longer has the understood shape.
"""
import os
import re
import sys
from fractions import Fraction

sys.path.insert(0, os.path.dirname(os.path.dirname(os.path.abspath(__file__))))
import vlib  # noqa: E402


def die(msg):
    sys.stderr.write("gen_rewardparams: source shape not understood: %s\n" % msg)
    sys.exit(1)


def strip_comments(s):
    s = re.sub(r"/\*.*?\*/", " ", s, flags=re.S)
    return re.sub(r"//[^\n]*", " ", s)


def struct_body(src, name):
    m = re.search(r"\bstruct\s+%s\b[^;{]*\{" % re.escape(name), src)
    if not m:
        die("struct %s not found" % name)
    i = m.end()
    depth = 1
    while i < len(src) and depth:
        if src[i] == "{":
            depth += 1
        elif src[i] == "}":
            depth -= 1
        i += 1
    if depth:
        die("unbalanced braces in struct %s" % name)
    return src[m.end():i - 1]


DBL = r"[0-9]+\.[0-9]+"


def conv(lit):
    f = float(lit)
    p = f * 100000000.0
    if not (0.0 <= p < 18446744073709551616.0):
        die("double literal %s out of uint64 range after scaling (conversion would be undefined)" % lit)
    return int(p)


def main():
    repo, out = sys.argv[1], sys.argv[2]
    p_params = os.path.join(repo, "include/veriblock/pop/blockchain/alt_chain_params.hpp")
    p_bd = os.path.join(repo, "include/veriblock/pop/rewards/poprewards_bigdecimal.hpp")
    for p in (p_params, p_bd):
        if not os.path.exists(p):
            die("missing " + p)
    bd = strip_comments(open(p_bd).read())
    m = re.search(r"static\s+const\s+uint32_t\s+decimals\s*=\s*([0-9]+)\s*;", bd)
    if not m:
        die("PopRewardsBigDecimal::decimals")
    decimals = int(m.group(1))
    if decimals != 100000000:
        die("decimals = %d (the model is written for 10^8)" % decimals)
    nb = re.sub(r"\s+", "", bd)
    shapes = {
        "ctor(double)": "PopRewardsBigDecimal(doubleb):value((uint64_t)(b*decimals)){}",
        "ctor(uint64_t)": "PopRewardsBigDecimal(uint64_tb):value(ArithUint256(b)*decimals){}",
        "operator*=": "operator*=(constPopRewardsBigDecimal&b){value*=b.value;value/=decimals;return*this;}",
        "operator/=": "operator/=(constPopRewardsBigDecimal&b){value*=decimals;value/=b.value;return*this;}",
        "operator+=": "operator+=(constPopRewardsBigDecimal&b){value+=b.value;return*this;}",
        "operator-=": "operator-=(constPopRewardsBigDecimal&b){value-=b.value;return*this;}",
    }
    for k, s in shapes.items():
        if s not in nb:
            die("PopRewardsBigDecimal %s changed" % k)

    src = strip_comments(open(p_params).read())
    body = struct_body(src, "PopPayoutsParams")
    # every data member with a default initialiser
    scal = dict()
    for m in re.finditer(r"\b(double|uint32_t|int32_t|bool)\s+(m[A-Z]\w*)\s*=\s*([^;]+);", body):
        scal[m.group(2)] = (m.group(1), m.group(3).strip())
    vecs = dict()
    for m in re.finditer(r"std::vector<\s*double\s*>\s+(m[A-Z]\w*)\s*\{([^}]*)\}\s*;", body):
        vecs[m.group(1)] = [x.strip() for x in m.group(2).split(",") if x.strip()]
    want_scal = {"mStartOfSlope": "double", "mSlopeNormal": "double", "mSlopeKeystone": "double",
                 "mKeystoneRound": "uint32_t", "mPayoutRounds": "uint32_t", "mFlatScoreRound": "uint32_t",
                 "mUseFlatScoreRound": "bool", "mMaxScoreThresholdNormal": "double",
                 "mMaxScoreThresholdKeystone": "double", "mDifficultyAveragingInterval": "uint32_t",
                 "mPopPayoutDelay": "int32_t"}
    want_vecs = ["mRoundRatios", "mLookupTable"]
    members = set(re.findall(r"\b(m[A-Z]\w*)\s*(?:=|\{)", body))
    extra = members - set(want_scal) - set(want_vecs)
    if extra:
        die("unknown PopPayoutsParams members %s" % sorted(extra))
    for k, t in want_scal.items():
        if k not in scal or scal[k][0] != t:
            die("member %s %s" % (t, k))
        v = scal[k][1]
        if t == "double" and not re.fullmatch(DBL, v):
            die("%s initialiser %r" % (k, v))
        if t in ("uint32_t", "int32_t") and not re.fullmatch(r"[0-9]+", v):
            die("%s initialiser %r" % (k, v))
        if t == "bool" and v not in ("true", "false"):
            die("%s initialiser %r" % (k, v))
    for k in want_vecs:
        if k not in vecs or not vecs[k]:
            die("vector member " + k)
        for x in vecs[k]:
            if not re.fullmatch(DBL, x):
                die("%s element %r" % (k, x))
    # getters must return the members (the calculator reads the getters)
    getters = {"startOfSlope": "mStartOfSlope", "slopeNormal": "mSlopeNormal", "slopeKeystone": "mSlopeKeystone",
               "keystoneRound": "mKeystoneRound", "payoutRounds": "mPayoutRounds", "flatScoreRound": "mFlatScoreRound",
               "useFlatScoreRound": "mUseFlatScoreRound", "roundRatios": "mRoundRatios",
               "maxScoreThresholdNormal": "mMaxScoreThresholdNormal",
               "maxScoreThresholdKeystone": "mMaxScoreThresholdKeystone",
               "difficultyAveragingInterval": "mDifficultyAveragingInterval",
               "relativeScoreLookupTable": "mLookupTable", "getPopPayoutDelay": "mPopPayoutDelay"}
    for g, mem in getters.items():
        if not re.search(r"\b%s\s*\(\s*\)\s*const\s+noexcept\s*\{\s*return\s+%s\s*;\s*\}" % (g, mem), body):
            die("getter %s() does not return %s" % (g, mem))

    abody = struct_body(src, "AltChainParams")
    alt = {}
    for k in ("mKeystoneInterval", "mEndorsementSettlementInterval"):
        m = re.search(r"\buint32_t\s+%s\s*=\s*([0-9]+)\s*;" % k, abody)
        if not m:
            die("AltChainParams::" + k)
        alt[k] = int(m.group(1))

    def zlist(xs):
        return "[" + "; ".join(str(x) for x in xs) + "]"

    def lit_e8(lit):
        f = Fraction(lit) * 10 ** 8
        return f

    L = []
    L.append("(** GENERATED by tools/gen_rewardparams.py from include/veriblock/pop/blockchain/alt_chain_params.hpp and")
    L.append("    include/veriblock/pop/rewards/poprewards_bigdecimal.hpp -- do not edit.")
    L.append("    [*_conv] = (uint64_t)(double(literal) * 1e8) as PopRewardsBigDecimal(double) computes it;")
    L.append("    [*_lit_num / *_lit_den] = literal * 1e8 as an exact rational. *)")
    L.append("From Coq Require Import ZArith List.")
    L.append("Import ListNotations.")
    L.append("Local Open Scope Z_scope.")
    L.append("")
    L.append("Definition gen_decimals : Z := %d." % decimals)
    for k, t in want_scal.items():
        name = k[1].lower() + k[2:]
        v = scal[k][1]
        if t == "double":
            f = lit_e8(v)
            L.append("Definition gen_%s_conv : Z := %d." % (name, conv(v)))
            L.append("Definition gen_%s_lit_num : Z := %d." % (name, f.numerator))
            L.append("Definition gen_%s_lit_den : Z := %d." % (name, f.denominator))
        elif t == "bool":
            L.append("Definition gen_%s : bool := %s." % (name, v))
        else:
            L.append("Definition gen_%s : Z := %s." % (name, v))
    for k in want_vecs:
        name = k[1].lower() + k[2:]
        fs = [lit_e8(x) for x in vecs[k]]
        L.append("Definition gen_%s_conv : list Z :=\n  %s." % (name, zlist(conv(x) for x in vecs[k])))
        L.append("Definition gen_%s_lit_num : list Z :=\n  %s." % (name, zlist(f.numerator for f in fs)))
        L.append("Definition gen_%s_lit_den : list Z :=\n  %s." % (name, zlist(f.denominator for f in fs)))
    L.append("Definition gen_keystoneInterval : Z := %d." % alt["mKeystoneInterval"])
    L.append("Definition gen_endorsementSettlementInterval : Z := %d." % alt["mEndorsementSettlementInterval"])
    L.append("")
    vlib.write_if_changed(os.path.join(out, "RewardParams.v"), "\n".join(L) + "\n")


if __name__ == "__main__":
    main()
