#!/usr/bin/env python3
"""tools/design_tables.py — regenerate the two generated tables of DESIGN.md (between the HTML comment markers)"""
import os, re, subprocess, sys
V = os.path.dirname(os.path.dirname(os.path.abspath(__file__)))
p = os.path.join(V, "DESIGN.md")
s = open(p).read()
for tag, tool in (("SEEDED-TABLE", "seeded_table.py"), ("THEOREM-TABLE", "theorem_table.py")):
    out = subprocess.run([sys.executable, os.path.join(V, "tools", tool)], stdout=subprocess.PIPE, check=True).stdout.decode()
    b, e = "<!-- %s-BEGIN -->" % tag, "<!-- %s-END -->" % tag
    i, j = s.index(b) + len(b), s.index(e)
    s = s[:i] + "\n" + out.rstrip("\n") + "\n" + s[j:]
open(p, "w").write(s)
