#!/bin/bash
# Build everything the checks need, offline, from files on disk only:
#   library variants (from /repo's working tree, hook guard on), generated Coq
#   files, the whole Coq development (full .vo), extracted OCaml model drivers
#   and the C++ harnesses.
set -u
cd "$(dirname "$0")"
python3 - <<'PY'
import sys, os, glob
sys.path.insert(0, os.getcwd())
import vlib
ok = True
for v in ("rel", "asan", "tsan", "ndebug"):
    o, t = vlib.build_lib(v)
    print("lib", v, "ok" if o else "FAILED")
    if not o:
        print(t[-3000:]); ok = False
for name, o, t in vlib.regenerate():
    print("gen", name, "ok" if o else "FAILED " + t[-500:])
    ok = ok and o
vlib.coq_project()
rc, out, err = vlib.sh(["make", "-k", "-j%d" % vlib.NCPU], cwd=vlib.COQ, timeout=7200)
print("coq make rc", rc)
if rc != 0:
    # a proof file that does not compile is reported by the check of the property it belongs to
    # (broken obligation); it must not keep the other checks from running
    print("WARNING: some Coq files failed to build:\n" + (out + err)[-3000:])
for d in sorted(glob.glob(os.path.join(vlib.VERIF, "ocaml", "*_driver.ml"))):
    n = os.path.basename(d)[:-len("_driver.ml")]
    o, p, t = vlib.build_model(n)
    print("model", n, "ok" if o else "WARNING: FAILED " + t[-800:])
import importlib
for v in ("rel", "asan", "tsan", "ndebug"):
    names = []
    for f in sorted(glob.glob(os.path.join(vlib.VERIF, "props", "C*.py"))):
        m = importlib.import_module("props." + os.path.basename(f)[:-3])
        names += [h for (h, hv) in getattr(m, "HARNESSES", []) if hv == v]
    if names:
        o, p, t = vlib.build_harness(sorted(set(names)), v)
        print("harness", v, names, "ok" if o else "WARNING: FAILED " + t[-2000:])
sys.exit(0 if ok else 1)
PY
