// Shared helpers of the /verif C++ harnesses: line protocol
//   input : "<id> <op> <args...>" per line on stdin
//   output: "<id> <canonical result>" per line; "!<id> <text>" = the direct
//           property oracle failed on the implementation for this case
#pragma once
#include <cstdint>
#include <cstdio>
#include <functional>
#include <iostream>
#include <sstream>
#include <string>
#include <vector>

namespace vh {

inline std::vector<std::string> split(const std::string& s) {
  std::vector<std::string> r;
  std::istringstream is(s);
  std::string t;
  while (is >> t) r.push_back(t);
  return r;
}

inline int hexval(char c) {
  if (c >= '0' && c <= '9') return c - '0';
  if (c >= 'a' && c <= 'f') return c - 'a' + 10;
  if (c >= 'A' && c <= 'F') return c - 'A' + 10;
  return -1;
}

// "-" denotes the empty byte string
inline std::vector<uint8_t> unhex(const std::string& s) {
  std::vector<uint8_t> r;
  if (s == "-") return r;
  for (size_t i = 0; i + 1 < s.size(); i += 2) r.push_back((uint8_t)(hexval(s[i]) * 16 + hexval(s[i + 1])));
  return r;
}

inline std::string hex(const uint8_t* p, size_t n) {
  static const char* d = "0123456789abcdef";
  std::string r;
  for (size_t i = 0; i < n; i++) {
    r.push_back(d[p[i] >> 4]);
    r.push_back(d[p[i] & 15]);
  }
  return r;
}
inline std::string hex(const std::vector<uint8_t>& v) { return v.empty() ? std::string("-") : hex(v.data(), v.size()); }

// canonical number text: lowercase hex without leading zeros ("0" for zero)
inline std::string hexnum_le(const uint8_t* p, size_t n) {  // little-endian bytes
  std::string r;
  bool lead = true;
  static const char* d = "0123456789abcdef";
  for (size_t i = n; i-- > 0;) {
    int hi = p[i] >> 4, lo = p[i] & 15;
    if (!(lead && hi == 0)) { r.push_back(d[hi]); lead = false; }
    if (!(lead && lo == 0)) { r.push_back(d[lo]); lead = false; }
  }
  return r.empty() ? "0" : r;
}
inline std::string hexnum(uint64_t v) {
  char b[32];
  snprintf(b, sizeof b, "%llx", (unsigned long long)v);
  return b;
}
inline std::string hexnum_s(int64_t v) {
  if (v < 0) return "-" + hexnum((uint64_t)(-(v + 1)) + 1);
  return hexnum((uint64_t)v);
}
inline uint64_t parse_hex64(const std::string& s) { return std::stoull(s, nullptr, 16); }
inline int64_t parse_hex64s(const std::string& s) {
  if (!s.empty() && s[0] == '-') return -(int64_t)std::stoull(s.substr(1), nullptr, 16);
  return (int64_t)std::stoull(s, nullptr, 16);
}

using handler_t = std::function<std::string(const std::string& id, const std::string& op,
                                            const std::vector<std::string>& args)>;

// a handler may call vh::oracle_fail(id, text) any number of times
inline void oracle_fail(const std::string& id, const std::string& text) {
  std::cout << "!" << id << " " << text << "\n";
}

inline int main_loop(const handler_t& h) {
  std::ios::sync_with_stdio(false);
  std::string line;
  while (std::getline(std::cin, line)) {
    auto t = split(line);
    if (t.size() < 2) continue;
    std::vector<std::string> args(t.begin() + 2, t.end());
    std::string r;
    try {
      r = h(t[0], t[1], args);
    } catch (const std::exception& e) {
      r = std::string("THROW ") + typeid(e).name();
    } catch (...) {
      r = "THROW unknown";
    }
    std::cout << t[0] << " " << r << "\n";
  }
  std::cout.flush();
  return 0;
}

}  // namespace vh
