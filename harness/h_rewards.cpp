// C14 harness: drives the real DefaultPopRewardsCalculator.
//   par  ...            set the current parameter set (doubles given as C hex floats + expected fixed point)
//   conv <hexfloat>     PopRewardsBigDecimal(double).value
//   br/mr/mult/round    pure helper methods on the current parameter set
//   scen <script>       build a fresh BTC/VBK/ALT fixture (MockMiner, regtest params) and run the script;
//                       prints the abstract view of the resulting ALT tree
//   pay/payat/payin/score/diff   queries on the current scenario
// An op name ending in '!' is executed in a forked child (the call may std::terminate / SIGFPE).
#include <fcntl.h>
#include <sys/wait.h>
#include <unistd.h>

#include <algorithm>
#include <csignal>
#include <cstdlib>
#include <map>
#include <memory>
#include <set>
#include <veriblock/pop/alt-util.hpp>
#include <veriblock/pop/blockchain/alt_block_tree.hpp>
#include <veriblock/pop/blockchain/btc_chain_params.hpp>
#include <veriblock/pop/blockchain/vbk_chain_params.hpp>
#include <veriblock/pop/mock_miner.hpp>
#include <veriblock/pop/rewards/default_poprewards_calculator.hpp>
#include <veriblock/pop/storage/adaptors/block_provider_impl.hpp>
#include <veriblock/pop/storage/adaptors/inmem_storage_impl.hpp>
#include <veriblock/pop/storage/adaptors/payloads_provider_impl.hpp>
#include <veriblock/pop/time.hpp>

#include "common.hpp"
using namespace altintegration;

// ---------------------------------------------------------------- numbers
static ArithUint256 u256_of_hex(const std::string& s) {
  std::string p = std::string(64 - std::min<size_t>(64, s.size()), '0') + s;
  auto be = vh::unhex(p);
  std::vector<uint8_t> le(be.rbegin(), be.rend());
  return ArithUint256(le);
}
static std::string num(const ArithUint256& a) { return vh::hexnum_le(a.data(), a.size()); }
static PopRewardsBigDecimal bd_of_hex(const std::string& s) {
  PopRewardsBigDecimal r;
  r.value = u256_of_hex(s);
  return r;
}
static std::vector<std::string> splitc(const std::string& s, char c) {
  std::vector<std::string> r;
  std::string cur;
  for (char ch : s) {
    if (ch == c) { r.push_back(cur); cur.clear(); } else cur.push_back(ch);
  }
  r.push_back(cur);
  return r;
}

// ---------------------------------------------------------------- calculator with protected parts exposed
struct Calc : public DefaultPopRewardsCalculator {
  using DefaultPopRewardsCalculator::DefaultPopRewardsCalculator;
  using DefaultPopRewardsCalculator::calculateDifficulty;
  using DefaultPopRewardsCalculator::calculatePayoutsInner;
  using DefaultPopRewardsCalculator::getScoreMultiplierFromRelativeBlock;
};

// ---------------------------------------------------------------- current parameter set
struct ParSet {
  uint32_t ki = 5, settle = 50;
  int32_t delay = 50;
  PopPayoutsParams pp;
};
static ParSet g_par;
static void apply(AltChainParamsRegTest& a) {
  a.mKeystoneInterval = g_par.ki;
  a.mEndorsementSettlementInterval = g_par.settle;
  *a.mPopPayoutsParams = g_par.pp;
  a.mPopPayoutsParams->mPopPayoutDelay = g_par.delay;
}

// "hexfloat/expectedfixedpoint" -> double; appends the library's own conversion to `out`
static double dbl(const std::string& tok, std::string& out) {
  auto parts = splitc(tok, '/');
  double d = strtod(parts[0].c_str(), nullptr);
  out += " " + num(PopRewardsBigDecimal(d).value);
  return d;
}

// ---------------------------------------------------------------- fixtures
struct PureFix {
  AltChainParamsRegTest altparam{};
  VbkChainParamsRegTest vbkparam{};
  BtcChainParamsRegTest btcparam{};
  adaptors::InmemStorageImpl storage{};
  adaptors::PayloadsStorageImpl payloadsProvider{storage};
  adaptors::BlockReaderImpl blockProvider{storage, altparam};
  AltBlockTree alttree{altparam, vbkparam, btcparam, payloadsProvider, blockProvider};
  Calc calc{alttree};
};

struct TreeFix {
  AltChainParamsRegTest altparam{};
  VbkChainParamsRegTest vbkparam{};
  BtcChainParamsRegTest btcparam{};
  adaptors::InmemStorageImpl storage{};
  adaptors::PayloadsStorageImpl payloadsProvider{storage};
  adaptors::BlockReaderImpl blockProvider{storage, altparam};
  MockMiner popminer{altparam, vbkparam, btcparam};
  AltBlockTree alttree{altparam, vbkparam, btcparam, payloadsProvider, blockProvider};
  Calc calc{alttree};
  ValidationState state;

  std::vector<AltBlock> chain;                 // active ALT chain, index = height
  const BlockIndex<VbkBlock>* mtip = nullptr;  // VBK mining tip in popminer
  std::vector<VbkTx> txpool;
  std::vector<uint32_t> txpool_pid;
  std::vector<ATV> pendingAtvs;
  std::map<std::vector<uint8_t>, uint32_t> pidOfAtv;  // ATV id -> payout id
  uint64_t counter = 0;

  TreeFix() {
    apply(altparam);
    auto BTCgenesis = GetRegTestBtcBlock();
    auto VBKgenesis = GetRegTestVbkBlock();
    auto time = std::max({altparam.getBootstrapBlock().getTimestamp(), BTCgenesis.getTimestamp(),
                          VBKgenesis.getTimestamp()});
    setMockTime(time + 1);
    alttree.btc().bootstrapWithGenesis(BTCgenesis);
    alttree.vbk().bootstrapWithGenesis(VBKgenesis);
    alttree.bootstrap();
    chain = {altparam.getBootstrapBlock()};
    mtip = popminer.vbk().getBestChain().tip();
  }

  static std::vector<uint8_t> pidBytes(uint32_t pid) {
    return {(uint8_t)(pid >> 24), (uint8_t)(pid >> 16), (uint8_t)(pid >> 8), (uint8_t)pid};
  }
  std::vector<uint8_t> freshHash() {
    std::vector<uint8_t> h(32, 0);
    uint64_t c = ++counter;
    h[0] = 0xA7;
    for (int i = 0; i < 8; i++) h[31 - i] = (uint8_t)(c >> (8 * i));
    return h;
  }

  void connectUntil(const AltBlock::hash_t& hash) {
    auto* index = alttree.getBlockIndex(hash);
    std::vector<BlockIndex<AltBlock>*> v;
    while (index != nullptr && !index->isValidUpTo(BLOCK_CONNECTED)) {
      v.push_back(index);
      index = index->pprev;
    }
    std::reverse(v.begin(), v.end());
    for (auto* i : v) {
      i->setFlag(BLOCK_HAS_PAYLOADS);
      if (!i->raiseValidity(BLOCK_CONNECTED)) throw std::runtime_error("raiseValidity");
    }
  }

  // VBK blocks of the mining chain that the ALT tree's VBK tree does not know yet, oldest first
  std::vector<VbkBlock> unknownContext() {
    std::vector<VbkBlock> ctx;
    for (auto* w = mtip; w != nullptr && alttree.vbk().getBlockIndex(w->getHash()) == nullptr; w = w->pprev) {
      ctx.push_back(w->getHeader());
    }
    std::reverse(ctx.begin(), ctx.end());
    return ctx;
  }

  void mineAlt(size_t n) {
    for (size_t i = 0; i < n; i++) {
      AltBlock b;
      b.hash = freshHash();
      b.height = chain.back().height + 1;
      b.previousBlock = chain.back().getHash();
      b.timestamp = chain.back().timestamp + 1;
      if (!alttree.acceptBlockHeader(b, state)) throw std::runtime_error("acceptBlockHeader " + state.toString());
      PopData pd;
      pd.atvs = pendingAtvs;
      pd.context = unknownContext();
      pendingAtvs.clear();
      auto* index = alttree.getBlockIndex(b.getHash());
      if (index->pprev != nullptr) connectUntil(index->pprev->getHash());
      alttree.acceptBlock(*index, pd, state);
      if (!state.IsValid()) throw std::runtime_error("acceptBlock " + state.toString());
      connectUntil(b.getHash());
      if (!alttree.setState(b.getHash(), state)) throw std::runtime_error("setState " + state.toString());
      chain.push_back(b);
    }
  }

  void endorse(uint32_t height, uint32_t pid) {
    const AltBlock& endorsed = chain.at(height);
    PublicationData pub;
    pub.payoutInfo = pidBytes(pid);
    pub.identifier = altparam.getIdentifier();
    pub.header = endorsed.toRaw();
    uint256 stateRoot(freshHash());
    const auto* prev = alttree.getBlockIndex(endorsed.previousBlock);
    auto c = AuthenticatedContextInfoContainer::createFromPrevious(stateRoot, prev, altparam);
    pub.contextInfo = SerializeToVbkEncoding(c);
    txpool.push_back(popminer.createVbkTxEndorsingAltBlock(pub));
    txpool_pid.push_back(pid);
  }

  void mineVbk(size_t n) {
    std::vector<VbkTx> txs = txpool;
    std::vector<uint32_t> pids = txpool_pid;
    txpool.clear();
    txpool_pid.clear();
    auto* first = popminer.mineVbkBlocks(1, *mtip, txs);
    if (first == nullptr) throw std::runtime_error("mineVbkBlocks");
    for (size_t i = 0; i < txs.size(); i++) {
      ATV atv = popminer.createATV(first->getHeader(), txs[i]);
      pidOfAtv[atv.getId().asVector()] = pids[i];
      pendingAtvs.push_back(atv);
    }
    mtip = first;
    if (n > 1) mtip = popminer.mineVbkBlocks(n - 1, *first);
  }

  void forkVbk(size_t back, size_t n) {
    for (size_t i = 0; i < back && mtip->pprev != nullptr; i++) mtip = mtip->pprev;
    mineVbk(n);
  }

  void reorgAlt(size_t k) {
    if (k >= chain.size()) k = chain.size() - 1;
    chain.resize(chain.size() - k);
    if (!alttree.setState(chain.back().getHash(), state)) throw std::runtime_error("setState(reorg) " + state.toString());
    // ATVs that were never included stay pending; dropped ones are not re-sent
  }

  void run(const std::vector<std::string>& script) {
    for (const auto& t : script) {
      char c = t[0];
      auto a = splitc(t.substr(1), '.');
      if (c == 'a') mineAlt(std::stoul(a[0]));
      else if (c == 'e') endorse((uint32_t)std::stoul(a[0]), (uint32_t)std::stoul(a[1]));
      else if (c == 'v') mineVbk(std::stoul(a[0]));
      else if (c == 'f') forkVbk(std::stoul(a[0]), std::stoul(a[1]));
      else if (c == 'r') reorgAlt(std::stoul(a[0]));
      else throw std::runtime_error("bad script token " + t);
    }
  }

  // abstract view: T<tip height> then, root to tip, B<height>:<pid>.<bop>,... with bop = hex VBK height or x
  struct EView { uint32_t pid; bool on; int h; };
  std::vector<EView> viewOf(const BlockIndex<AltBlock>& index) {
    std::vector<EView> r;
    for (const auto* e : index.getEndorsedBy()) {
      EView v{};
      auto it = pidOfAtv.find(e->getId().asVector());
      if (it == pidOfAtv.end()) throw std::runtime_error("unknown endorsement");
      v.pid = it->second;
      auto* b = alttree.vbk().getBlockIndex(e->blockOfProof);
      v.on = b != nullptr && alttree.vbk().getBestChain()[b->getHeight()] == b;
      v.h = v.on ? b->getHeight() : -1;
      r.push_back(v);
    }
    std::sort(r.begin(), r.end(), [](const EView& x, const EView& y) {
      return std::make_tuple(x.pid, !x.on, x.h) < std::make_tuple(y.pid, !y.on, y.h);
    });
    return r;
  }
  std::string view() {
    auto& best = alttree.getBestChain();
    std::string out = "T" + vh::hexnum((uint64_t)best.tip()->getHeight());
    for (auto* i = best.first(); i != nullptr; i = best.next(i)) {
      auto ev = viewOf(*i);
      if (ev.empty()) continue;
      out += " B" + vh::hexnum((uint64_t)i->getHeight()) + ":";
      bool firstE = true;
      for (auto& e : ev) {
        if (!firstE) out += ",";
        firstE = false;
        out += vh::hexnum(e.pid) + "." + (e.on ? vh::hexnum((uint64_t)e.h) : std::string("x"));
      }
    }
    return out;
  }
  const BlockIndex<AltBlock>* at(uint32_t h) {
    auto* i = alttree.getBestChain()[(int)h];
    if (i == nullptr) throw std::runtime_error("no block at height");
    return i;
  }
};

static std::unique_ptr<PureFix> g_pure;
static std::unique_ptr<TreeFix> g_tree;
static PureFix& pure() {
  if (!g_pure) g_pure.reset(new PureFix());
  apply(g_pure->altparam);
  return *g_pure;
}
static TreeFix& tree() {
  if (!g_tree) throw std::runtime_error("no scenario");
  apply(g_tree->altparam);
  return *g_tree;
}

static std::string payoutsText(const PopPayouts& p) {
  std::string out = "ok";
  for (const auto& kv : p.payouts) {  // std::map order = lexicographic = numeric for 4-byte big-endian ids
    uint32_t pid = 0;
    for (auto b : kv.first) pid = (pid << 8) | b;
    out += " " + vh::hexnum(pid) + "=" + vh::hexnum(kv.second);
  }
  return out;
}

// direct oracle on the implementation for a payout of block `index`
static void payoutOracle(const std::string& id, TreeFix& t, const BlockIndex<AltBlock>& index, const PopPayouts& p,
                         bool fullCalc) {
  auto ev = t.viewOf(index);
  std::set<uint32_t> onPids;
  for (auto& e : ev)
    if (e.on) onPids.insert(e.pid);
  if (onPids.empty() && !p.payouts.empty()) vh::oracle_fail(id, "payout without an endorsement on the best VBK chain");
  for (const auto& kv : p.payouts) {
    uint32_t pid = 0;
    for (auto b : kv.first) pid = (pid << 8) | b;
    if (!onPids.count(pid)) vh::oracle_fail(id, "payee " + vh::hexnum(pid) + " has no endorsement on the best VBK chain");
  }
  if (p.payouts.size() != onPids.size()) vh::oracle_fail(id, "number of payees differs from number of endorsing payout infos");
  if (fullCalc && !onPids.empty()) {
    auto score = t.calc.scoreFromEndorsements(index);
    auto diff = t.calc.calculateDifficulty(index);
    auto br = t.calc.calculateBlockReward((uint32_t)index.getHeight(), score, diff);
    ArithUint256 sum = 0;
    for (const auto& kv : p.payouts) sum += ArithUint256(kv.second);
    if (sum > br.value) vh::oracle_fail(id, "total paid " + num(sum) + " exceeds block reward " + num(br.value));
  }
}

static std::string doOp(const std::string& id, const std::string& op, const std::vector<std::string>& a) {
  // window ops: the same calls of the real calculator on the FULL tree; the model driver answers them
  // from the truncated chain only (coq/Rewards/WindowDefs.v), so agreement = the code looks no deeper
  if (op == "diffw") return doOp(id, "diff", a);
  if (op == "payatw") return doOp(id, "payat", a);
  if (op == "payw") return doOp(id, "pay", a);
  if (op == "par") {
    // ki settle delay kround rounds flatround useflat interval start slopeN slopeK thrN thrK R:<..,..> T:<..,..>
    std::string out = "ok";
    ParSet p;
    p.ki = (uint32_t)vh::parse_hex64(a[0]);
    p.settle = (uint32_t)vh::parse_hex64(a[1]);
    p.delay = (int32_t)vh::parse_hex64s(a[2]);
    p.pp.mKeystoneRound = (uint32_t)vh::parse_hex64(a[3]);
    p.pp.mPayoutRounds = (uint32_t)vh::parse_hex64(a[4]);
    p.pp.mFlatScoreRound = (uint32_t)vh::parse_hex64(a[5]);
    p.pp.mUseFlatScoreRound = a[6] == "1";
    p.pp.mDifficultyAveragingInterval = (uint32_t)vh::parse_hex64(a[7]);
    p.pp.mStartOfSlope = dbl(a[8], out);
    p.pp.mSlopeNormal = dbl(a[9], out);
    p.pp.mSlopeKeystone = dbl(a[10], out);
    p.pp.mMaxScoreThresholdNormal = dbl(a[11], out);
    p.pp.mMaxScoreThresholdKeystone = dbl(a[12], out);
    p.pp.mRoundRatios.clear();
    p.pp.mLookupTable.clear();
    out += " R";
    if (a[13].size() > 2)
      for (auto& t : splitc(a[13].substr(2), ',')) p.pp.mRoundRatios.push_back(dbl(t, out));
    out += " T";
    if (a[14].size() > 2)
      for (auto& t : splitc(a[14].substr(2), ',')) p.pp.mLookupTable.push_back(dbl(t, out));
    g_par = p;
    return out;
  }
  if (op == "pardefault") {
    // the library's own defaults (AltChainParamsRegTest + PopPayoutsParams{}), printed in the `par` result format
    AltChainParamsRegTest d;
    ParSet p;
    p.ki = d.getKeystoneInterval();
    p.settle = d.getEndorsementSettlementInterval();
    p.pp = d.getPayoutParams();
    p.delay = p.pp.getPopPayoutDelay();
    g_par = p;
    std::string out = "ok " + vh::hexnum(p.ki) + " " + vh::hexnum(p.settle) + " " + vh::hexnum_s(p.delay) + " " +
                      vh::hexnum(p.pp.keystoneRound()) + " " + vh::hexnum(p.pp.payoutRounds()) + " " +
                      vh::hexnum(p.pp.flatScoreRound()) + " " + (p.pp.useFlatScoreRound() ? "1" : "0") + " " +
                      vh::hexnum(p.pp.difficultyAveragingInterval());
    for (double d2 : {p.pp.startOfSlope(), p.pp.slopeNormal(), p.pp.slopeKeystone(), p.pp.maxScoreThresholdNormal(),
                      p.pp.maxScoreThresholdKeystone()})
      out += " " + num(PopRewardsBigDecimal(d2).value);
    out += " R";
    for (double d2 : p.pp.roundRatios()) out += " " + num(PopRewardsBigDecimal(d2).value);
    out += " T";
    for (double d2 : p.pp.relativeScoreLookupTable()) out += " " + num(PopRewardsBigDecimal(d2).value);
    return out;
  }
  if (op == "conv") return num(PopRewardsBigDecimal(strtod(a[0].c_str(), nullptr)).value);
  if (op == "br") {
    auto r = pure().calc.calculateBlockReward((uint32_t)vh::parse_hex64(a[0]), bd_of_hex(a[1]), bd_of_hex(a[2]));
    return "ok " + num(r.value);
  }
  if (op == "mr") {
    auto r = pure().calc.calculateMinerReward((uint32_t)vh::parse_hex64(a[0]), bd_of_hex(a[1]), bd_of_hex(a[2]));
    return "ok " + num(r.value);
  }
  if (op == "mult") {
    auto r = pure().calc.getScoreMultiplierFromRelativeBlock((int)vh::parse_hex64s(a[0]));
    return "ok " + num(r.value);
  }
  if (op == "round") return "ok " + vh::hexnum(pure().calc.getRoundForBlockNumber((uint32_t)vh::parse_hex64(a[0])));
  if (op == "bdops") {
    // the fixed-point operators themselves: a b -> a+b a-b a*b a/b(or throw) cmp
    auto x = bd_of_hex(a[0]), y = bd_of_hex(a[1]);
    std::string out = "ok " + num((x + y).value) + " " + num((x - y).value) + " " + num((x * y).value) + " ";
    try {
      out += num((x / y).value);
    } catch (const std::exception&) {
      out += "throw";
    }
    out += std::string(" ") + (x < y ? "lt" : (x > y ? "gt" : "eq")) + ((x == y) ? "1" : "0") + ((x <= y) ? "1" : "0") +
           ((x >= y) ? "1" : "0");
    out += " " + vh::hexnum(x.getIntegerFraction()) + " " + vh::hexnum(x.getDecimalFraction());
    out += " " + num(PopRewardsBigDecimal(x.value.getLow64()).value);
    return out;
  }
  if (op == "scen") {
    g_tree.reset();
    g_tree.reset(new TreeFix());
    g_tree->run(a);
    return "ok " + g_tree->view();
  }
  if (op == "pay") {
    auto& t = tree();
    PopPayouts p;
    ValidationState st;
    auto* tip = t.alttree.getBestChain().tip();
    if (!t.calc.getPopPayout(tip->getHash(), p, st)) return "invalid";
    auto* endorsed = tip->getAncestorBlocksBehind(t.altparam.getPayoutParams().getPopPayoutDelay() - 1);
    if (endorsed == nullptr) {
      if (!p.payouts.empty()) vh::oracle_fail(id, "payout although there are not enough blocks");
    } else {
      payoutOracle(id, t, *endorsed, p, true);
    }
    return payoutsText(p);
  }
  if (op == "payat") {
    auto& t = tree();
    PopPayouts p;
    ValidationState st;
    auto* i = t.at((uint32_t)vh::parse_hex64(a[0]));
    if (!t.calc.calculatePayouts(*i, p, st)) return "invalid";
    payoutOracle(id, t, *i, p, true);
    return payoutsText(p);
  }
  if (op == "payin") {
    auto& t = tree();
    PopPayouts p;
    ValidationState st;
    auto* i = t.at((uint32_t)vh::parse_hex64(a[0]));
    if (!t.calc.calculatePayoutsInner(*i, bd_of_hex(a[1]), bd_of_hex(a[2]), p, st)) return "invalid";
    payoutOracle(id, t, *i, p, false);
    return payoutsText(p);
  }
  if (op == "score") {
    auto& t = tree();
    return "ok " + num(t.calc.scoreFromEndorsements(*t.at((uint32_t)vh::parse_hex64(a[0]))).value);
  }
  if (op == "diff") {
    auto& t = tree();
    return "ok " + num(t.calc.calculateDifficulty(*t.at((uint32_t)vh::parse_hex64(a[0]))).value);
  }
  return "UNKNOWN-OP";
}

static std::string guarded(const std::string& id, const std::string& op, const std::vector<std::string>& a) {
  try {
    return doOp(id, op, a);
  } catch (const std::runtime_error& e) {
    // uint_error derives from std::runtime_error; harness errors are prefixed
    std::string w = e.what();
    if (w == "Division by zero") return "throw";
    return "HARNESS-ERROR " + w;
  } catch (const std::out_of_range&) {
    return "throw";
  } catch (const std::exception& e) {
    return std::string("HARNESS-ERROR ") + e.what();
  }
}

int main() {
  return vh::main_loop([](const std::string& id, const std::string& opx, const std::vector<std::string>& a) -> std::string {
    if (!opx.empty() && opx.back() == '!') {
      std::string op = opx.substr(0, opx.size() - 1);
      std::cout.flush();
      int fd[2];
      if (pipe(fd) != 0) return "HARNESS-ERROR pipe";
      pid_t pid = fork();
      if (pid == 0) {
        close(fd[0]);
        int devnull = open("/dev/null", 1);
        if (devnull >= 0) dup2(devnull, 2);
        std::string r = guarded(id, op, a);
        std::cout.flush();  // oracle lines of the child
        ssize_t k = write(fd[1], r.data(), r.size());
        (void)k;
        _exit(0);
      }
      close(fd[1]);
      std::string r;
      char buf[4096];
      ssize_t n;
      while ((n = read(fd[0], buf, sizeof buf)) > 0) r.append(buf, (size_t)n);
      close(fd[0]);
      int status = 0;
      waitpid(pid, &status, 0);
      if (WIFSIGNALED(status)) {
        int s = WTERMSIG(status);
        if (s == SIGABRT) return "abort";
        if (s == SIGFPE) return "fpe";
        return "signal " + std::to_string(s);
      }
      return r;
    }
    return guarded(id, opx, a);
  });
}
