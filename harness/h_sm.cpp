// POP state machine harness (C01 / C02 / C20): the shared World session plus
//   * `on X sm`      canonical dump comparable with the Coq model (Pop/SmDefs.v)
//   * the C02 direct oracle, evaluated around EVERY `on X set|cmp a` call
//     (full-state snapshot before/after through public getters)
//   * the C20 bookkeeping: every block that ever reported
//     isValid(BLOCK_CAN_BE_APPLIED) or won a setState/compare is remembered per
//     instance; `on X react` tries to re-activate each of them
//   * `on X valid`   blocks currently reporting the fully-valid level
//   * `on X xvtb w e vparent bparent lastKnownBtc`  like the registry op `vtb`, but the containing VBK
//     block is assembled by hand, so the MockMiner does not apply the VTB to its own tree first: the VTB
//     passes every stateless check but may be contextually invalid (expired endorsement, endorsed block on
//     another fork, BTC block of proof connecting to a BTC block that is referenced only by LATER VBK blocks)
// Oracle failures are printed as "!<id> <text>".
#include <cstring>
#include <algorithm>
#include <map>
#include <memory>
#include <set>
#include <sstream>
#include <string>
#include <vector>
#include <unordered_map>
#include <unordered_set>
#include <functional>
#include <future>
#include <mutex>
#include <thread>
#include <iostream>
// the MockMiner is test equipment: its private block miner / merkle-tree store are needed to build a VBK
// block carrying a pop tx WITHOUT the miner's own stateful validation
#define private public
#include <veriblock/pop/mock_miner.hpp>
#undef private
#include "world.hpp"
#if defined(VERIBLOCK_ALT_INTEGRATION_CPP_VERIF) && defined(__has_include)
#if __has_include(<veriblock/pop/verif_hooks.hpp>)
#include <veriblock/pop/verif_hooks.hpp>
#define SM_HAVE_TRACE 1
#endif
#endif

using namespace altintegration;

namespace {

int numOf(const std::string& id) { return std::atoi(id.c_str() + 1); }
bool idLess(const std::string& a, const std::string& b) {
  if (a[0] != b[0]) return a[0] < b[0];
  return numOf(a) < numOf(b);
}

struct Snap {
  std::map<std::string, std::pair<uint32_t, std::string>> alt;  // id -> (status, rest of the line)
  std::map<std::string, std::pair<uint32_t, std::string>> sp;   // "VBK v3" / "BTC b2" -> (status, rest of the line)
  std::set<std::string> tips;
  std::vector<std::string> other;  // every other line of the full observation
};

const uint32_t LEVEL_MASK = BLOCK_VALID_MASK;

Snap snapshot(const vw::Registry& reg, const AltBlockTree& tree) {
  Snap s;
  std::istringstream is(vw::observe(reg, tree, vw::FULL));
  std::string line;
  while (std::getline(is, line)) {
    auto t = vh::split(line);
    if (t.size() >= 2 && t[0] == "ALT" && t[1] == "tips") {
      for (size_t i = 2; i < t.size(); i++) s.tips.insert(t[i]);
      continue;
    }
    if (t.size() >= 2 && t[0] == "ALT" && t[1].size() >= 2 && t[1][0] == 'a' && isdigit((unsigned char)t[1][1])) {
      uint32_t st = 0;
      std::string rest;
      for (size_t i = 2; i < t.size(); i++) {
        if (t[i].rfind("st=", 0) == 0) st = (uint32_t)std::stoul(t[i].substr(3));
        else rest += " " + t[i];
      }
      s.alt[t[1]] = {st, rest};
      continue;
    }
    if (t.size() >= 3 && (t[0] == "VBK" || t[0] == "BTC") && t[1].size() >= 2 && (t[1][0] == 'v' || t[1][0] == 'b') &&
        isdigit((unsigned char)t[1][1]) && t[1] != "best") {
      uint32_t st = 0;
      bool has = false;
      std::string rest;
      for (size_t i = 2; i < t.size(); i++) {
        if (t[i].rfind("st=", 0) == 0) { st = (uint32_t)std::stoul(t[i].substr(3)); has = true; }
        else rest += " " + t[i];
      }
      if (has) { s.sp[t[0] + " " + t[1]] = {st, rest}; continue; }
    }
    s.other.push_back(line);
  }
  std::sort(s.other.begin(), s.other.end());
  return s;
}


// DESIGN section 7, C02: after a failed setState / non-negative compare every observable is unchanged except
//   - BLOCK_FAILED_POP on the first failing block X of the target branch,
//   - BLOCK_FAILED_CHILD on every descendant of X (side forks included),
//   - raised validity levels on blocks of the target branch: to MAYBE or full below X (all of the branch when
//     nothing failed), to MAYBE only on X and the branch blocks above it (a comparison applies the whole
//     branch next to the active chain first),
//   - the tip-candidate set that follows: descendants-or-self of X leave it, parent(X) may enter it.
std::vector<std::string> checkUnchanged(const vw::Registry& reg, const Snap& b, const Snap& a, const std::string& target) {
  std::vector<std::string> bad;
  if (b.other != a.other) {
    std::string d;
    for (auto& l : b.other) if (!std::binary_search(a.other.begin(), a.other.end(), l)) { d += " -[" + l + "]"; if (d.size() > 600) break; }
    for (auto& l : a.other) if (!std::binary_search(b.other.begin(), b.other.end(), l)) { d += " +[" + l + "]"; if (d.size() > 1200) break; }
    if (!d.empty()) bad.push_back("views differ:" + d);
  }
  // SP blocks: identical, except for the cached validity LEVEL of a VBK/BTC block (failure flags, ACTIVE flag and
  // every other field are compared exactly): an SP fork that was activated while the target branch was applied
  // keeps its "can be applied" level, and an SP block of the active ALT chain whose last reference went away while
  // the ALT chain was rolled back is re-created at the "connected" level. Seen only with competing SP forks.
  if (b.sp.size() != a.sp.size()) bad.push_back("SP block set changed");
  for (auto& kv : b.sp) {
    auto ia = a.sp.find(kv.first);
    if (ia == a.sp.end()) { bad.push_back("SP block " + kv.first + " disappeared"); continue; }
    if (ia->second.second != kv.second.second) bad.push_back("SP block " + kv.first + " changed:" + kv.second.second + " ->" + ia->second.second);
    uint32_t sb = kv.second.first, sa = ia->second.first;
    if (sb == sa) continue;
    bool levelOnly = ((sb & ~LEVEL_MASK) == (sa & ~LEVEL_MASK)) && (sa & LEVEL_MASK) != 0 && (sb & LEVEL_MASK) != 0;
    if (!levelOnly) bad.push_back("status of SP block " + kv.first + " " + std::to_string(sb) + " -> " + std::to_string(sa));
  }
  std::vector<std::string> path = reg.alt.count(target) ? reg.ancestry(target) : std::vector<std::string>{};
  std::string X;
  for (auto& id : path) {
    auto ib = b.alt.find(id), ia = a.alt.find(id);
    if (ib == b.alt.end() || ia == a.alt.end()) continue;
    if ((ia->second.first & BLOCK_FAILED_POP) && !(ib->second.first & BLOCK_FAILED_POP)) { X = id; break; }
  }
  std::set<std::string> onPath(path.begin(), path.end());
  auto isDescOfX = [&](const std::string& id) {
    if (X.empty() || id == X) return false;
    auto anc = reg.ancestry(id);
    return std::find(anc.begin(), anc.end(), X) != anc.end();
  };
  if (b.alt.size() != a.alt.size()) bad.push_back("ALT block set changed");
  for (auto& kv : b.alt) {
    auto ia = a.alt.find(kv.first);
    if (ia == a.alt.end()) { bad.push_back("ALT block " + kv.first + " disappeared"); continue; }
    if (ia->second.second != kv.second.second) bad.push_back("ALT block " + kv.first + " changed:" + kv.second.second + " ->" + ia->second.second);
    uint32_t sb = kv.second.first, sa = ia->second.first;
    if (sb == sa) continue;
    bool ok = false;
    uint32_t lb = sb & LEVEL_MASK, la = sa & LEVEL_MASK;
    uint32_t fb = sb & ~LEVEL_MASK, fa = sa & ~LEVEL_MASK;
    // blocks of the target branch may have their level raised: to MAYBE or full below X, to MAYBE only from X upwards
    // (a comparison applies the whole branch next to the active chain before X fails on its own ancestry)
    bool lvlSame = la == lb;
    bool lvlMaybe = la > lb && la == BLOCK_CAN_BE_APPLIED_MAYBE_WITH_OTHER_CHAIN;
    bool lvlFull = la > lb && la == BLOCK_CAN_BE_APPLIED;
    bool path = onPath.count(kv.first) > 0;
    if (kv.first == X) ok = (fa == (fb | BLOCK_FAILED_POP)) && (lvlSame || lvlMaybe);
    else if (isDescOfX(kv.first)) ok = (fa == (fb | BLOCK_FAILED_CHILD)) && (lvlSame || (path && lvlMaybe));
    else if (path) ok = (fa == fb) && (lvlMaybe || lvlFull);
    if (!ok) bad.push_back("status of " + kv.first + " " + std::to_string(sb) + " -> " + std::to_string(sa) + " (target " + target + ", first failing " + (X.empty() ? "-" : X) + ")");
  }
  // tips
  std::string parentX = X.empty() ? "" : reg.alt.at(X).parent;
  for (auto& t : b.tips)
    if (!a.tips.count(t) && !(t == X || isDescOfX(t))) bad.push_back("tip " + t + " lost");
  for (auto& t : a.tips)
    if (!b.tips.count(t) && t != parentX) bad.push_back("tip " + t + " appeared");
  for (auto& t : a.tips)
    if (t == X || isDescOfX(t)) bad.push_back("invalid block " + t + " is a tip");
  return bad;
}

std::vector<std::string> checkSwitched(vw::Instance& I, const std::string& target) {
  std::vector<std::string> bad;
  auto& tree = I.tree;
  auto* i = I.idx(target);
  if (i == nullptr) { bad.push_back("target unknown"); return bad; }
  if (tree.getBestChain().tip() != i) bad.push_back("tip is " + I.tip() + " not " + target);
  if (!i->isValid(BLOCK_CAN_BE_APPLIED)) bad.push_back("new tip not fully valid, status " + std::to_string(i->getStatus()));
  size_t n = 0;
  for (auto* w : tree.getBestChain()) {
    if (w == nullptr) continue;
    n++;
    if (!w->hasFlags(BLOCK_ACTIVE)) bad.push_back("block of the active chain not applied: " + I.reg.nameOf(w->getHash()));
    if (!w->isValid(BLOCK_CAN_BE_APPLIED)) bad.push_back("block of the active chain not fully valid: " + I.reg.nameOf(w->getHash()));
  }
  size_t act = 0;
  for (auto* w : tree.getBlocks()) if (w->hasFlags(BLOCK_ACTIVE)) act++;
  if (act != n) bad.push_back("applied blocks " + std::to_string(act) + " != chain length " + std::to_string(n));
  if (tree.appliedBlockCount != n) bad.push_back("appliedBlockCount " + std::to_string(tree.appliedBlockCount) + " != " + std::to_string(n));
  return bad;
}

std::string flagsOf(const BlockIndex<AltBlock>& i) {
  std::string f;
  if (i.hasFlags(BLOCK_FAILED_BLOCK)) f += "b";
  if (i.hasFlags(BLOCK_FAILED_POP)) f += "p";
  if (i.hasFlags(BLOCK_FAILED_CHILD)) f += "c";
  return f.empty() ? "-" : f;
}

// C20, trace part (guarded hook in PopStateMachine::applyBlock/unapplyBlock): per instance the ALT blocks in the
// order they were applied; checks the documented discipline (vbk_block_tree.hpp "validation hole"):
//   * a block is applied on top of an applied parent and is not applied twice,
//   * a block is unapplied only when none of its children is applied (tip first),
//   * a block is unapplied only if every block applied after it (and still applied) was fully valid when applied,
//   * a block reaches BLOCK_CAN_BE_APPLIED for the first time only in an event where exactly root..parent is applied.
struct Trace {
  std::vector<std::pair<std::string, bool>> stack;  // (id, fully valid when applied)
  std::set<std::string> everFull;
  std::vector<std::string> bad;
  size_t events = 0;
  Trace() { stack.push_back({"a0", true}); everFull.insert("a0"); }
  bool applied(const std::string& id) const {
    for (auto& e : stack) if (e.first == id) return true;
    return false;
  }
  void onApply(const vw::Registry& reg, const std::string& id, uint32_t status) {
    events++;
    auto it = reg.alt.find(id);
    if (it == reg.alt.end()) { bad.push_back("apply of an unknown block " + id); return; }
    const std::string& par = it->second.parent;
    if (applied(id)) bad.push_back("block " + id + " applied twice");
    if (!applied(par)) bad.push_back("block " + id + " applied on top of the unapplied block " + par);
    bool full = (status & BLOCK_VALID_MASK) == BLOCK_CAN_BE_APPLIED;
    if (full && !everFull.count(id)) {
      auto anc = reg.ancestry(par);
      bool single = anc.size() == stack.size();
      for (auto& a : anc) if (!applied(a)) single = false;
      if (!single) bad.push_back("block " + id + " reported fully valid while applied next to another chain (" +
                                 std::to_string(stack.size()) + " blocks applied, parent chain has " + std::to_string(anc.size()) + ")");
      everFull.insert(id);
    }
    stack.push_back({id, full});
  }
  void onUnapply(const vw::Registry& reg, const std::string& id) {
    events++;
    size_t pos = stack.size();
    for (size_t i = 0; i < stack.size(); i++) if (stack[i].first == id) pos = i;
    if (pos == stack.size()) { bad.push_back("unapply of the unapplied block " + id); return; }
    for (auto& e : stack) {
      auto it = reg.alt.find(e.first);
      if (it != reg.alt.end() && it->second.parent == id) bad.push_back("block " + id + " unapplied before its applied child " + e.first);
    }
    for (size_t i = pos + 1; i < stack.size(); i++)
      if (!stack[i].second) bad.push_back("block " + id + " unapplied while the not yet validated block " + stack[i].first + " applied after it is still applied");
    stack.erase(stack.begin() + pos);
  }
};

struct SmSession : public vw::Session {
  std::map<std::string, std::set<std::string>> ever;  // instance name -> ids that ever reported full validity
  std::map<std::string, Trace> traces;                // instance name -> event trace state
  std::string curInst;

  std::string nameOfInst(vw::Instance& I) {
    for (auto& kv : inst) if (kv.second.get() == &I) return kv.first;
    return "?";
  }

  void track(const std::string& X) {
    auto it = inst.find(X);
    if (it == inst.end()) return;
    auto& I = *it->second;
    auto& e = ever[X];
    for (auto* w : I.tree.getBlocks())
      if (w->isValid(BLOCK_CAN_BE_APPLIED)) e.insert(reg->nameOf(w->getHash()));
    for (auto i = e.begin(); i != e.end();) {
      auto* w = I.idx(*i);
      if (w == nullptr || w->isDeleted() || (!w->isRoot() && !w->hasFlags(BLOCK_HAS_PAYLOADS))) i = e.erase(i);
      else ++i;
    }
    // a removed / emptied block starts over
    auto& ef = traces[X].everFull;
    for (auto i = ef.begin(); i != ef.end();) {
      auto* w = I.idx(*i);
      if (w == nullptr || w->isDeleted() || (!w->isRoot() && !w->hasFlags(BLOCK_HAS_PAYLOADS))) i = ef.erase(i);
      else ++i;
    }
  }

  std::string smDump(vw::Instance& I) {
    auto& tree = I.tree;
    std::string r = "tip=" + I.tip() + " n=" + std::to_string(tree.appliedBlockCount) + " |";
    std::vector<std::pair<std::string, std::string>> v;
    std::vector<std::string> ends;
    for (auto* w : tree.getBlocks()) {
      if (w->isDeleted() || !w->isConnected()) continue;
      auto id = reg->nameOf(w->getHash());
      v.push_back({id, id + ":" + std::to_string(w->getValidityLevel()) + ":" + flagsOf(*w) + ":" + (w->hasFlags(BLOCK_ACTIVE) ? "1" : "0")});
      for (auto& kv : w->getContainingEndorsements()) ends.push_back(vw::endId(*reg, *kv.second));
    }
    std::sort(v.begin(), v.end(), [](const std::pair<std::string, std::string>& a, const std::pair<std::string, std::string>& b) { return idLess(a.first, b.first); });
    for (auto& x : v) r += " " + x.second;
    r += " |";
    v.clear();
    for (auto* w : tree.vbk().getBlocks()) {
      auto id = reg->nameOf(w->getHash());
      v.push_back({id, id + "=" + std::to_string(w->refCount())});
      for (auto& kv : w->getContainingEndorsements()) ends.push_back(vw::endId(*reg, *kv.second));
    }
    std::sort(v.begin(), v.end(), [](const std::pair<std::string, std::string>& a, const std::pair<std::string, std::string>& b) { return idLess(a.first, b.first); });
    for (auto& x : v) r += " " + x.second;
    r += " |";
    v.clear();
    for (auto* w : tree.btc().getBlocks()) {
      auto id = reg->nameOf(w->getHash());
      v.push_back({id, id + "=" + std::to_string(w->getRefs().size())});
    }
    std::sort(v.begin(), v.end(), [](const std::pair<std::string, std::string>& a, const std::pair<std::string, std::string>& b) { return idLess(a.first, b.first); });
    for (auto& x : v) r += " " + x.second;
    r += " |";
    std::sort(ends.begin(), ends.end());
    for (auto& x : ends) r += " " + x;
    return r;
  }

  // failures of the last react, for the "!" line
  std::string reactFail;

  std::string xvtb(const std::vector<std::string>& t) {
    if (t.size() < 6) return "SKIP args";
    auto& R = *reg;
    if (!R.vbk.count(t[2]) || !R.vbk.count(t[3]) || !R.btc.count(t[4]) || !R.btc.count(t[5]) || R.vtb.count(t[1])) return "SKIP";
    const auto& eb = R.vbk.at(t[2]);
    auto btctx = R.miner.createBtcTxEndorsingVbkBlock(eb);
    R.tick();
    auto* bb = R.miner.mineBtcBlocks(1, *R.bidx(t[4]), {btctx});
    if (bb == nullptr) return "SKIP miner-rejected";
    auto ptx = R.miner.createVbkPopTxEndorsingVbkBlock(bb->getHeader(), btctx, eb, R.btc.at(t[5]).getHash());
    std::vector<VbkPopTx> txs{ptx};
    VbkMerkleTree merkleTree({}, hashAll(txs));
    const auto& merkleRoot = merkleTree.getMerkleRoot().template trim<VBK_MERKLE_ROOT_HASH_SIZE>();
    VbkBlock block = R.miner.vbk_miner_.createNextBlock(*R.vidx(t[3]), merkleRoot);
    ValidationState st;
    if (!R.miner.vbk_tree_.acceptBlockHeader(block, st)) return "SKIP header " + st.GetPath();
    auto* bi = R.miner.vbk_tree_.getBlockIndex(block.getHash());
    bi->addRef(0);
    R.miner.vbk_merkle_trees_.insert({block.getHash(), merkleTree});
    auto v = R.miner.createVTB(block, ptx);
    R.vtb[t[1]] = v;
    auto wid = v.getId();
    R.names["id:" + vh::hex(wid.data(), wid.size())] = t[1];
    R.sweep();
    return R.regVbk(block) + " " + R.regBtc(bb->getHeader());
  }

  // mvtb <vparent> <w> <endorsed> <bparent|prev> <last|prev> [<w> <endorsed> <bparent|prev> <last|prev>]...
  // several honest VTBs contained in ONE VBK block (one pop tx each, in the given order). `prev` = the block of proof
  // of the previous VTB of the list, `#j` = block of proof of the j-th (0-based) VTB of the list. -> "<vbk id> <btc id>..."
  std::string mvtb(const std::vector<std::string>& t) {
    if (t.size() < 6 || (t.size() - 2) % 4 != 0) return "SKIP args";
    auto& R = *reg;
    if (!R.vbk.count(t[1])) return "SKIP";
    std::vector<VbkPopTx> txs;
    std::vector<const BlockIndex<BtcBlock>*> bops;
    for (size_t i = 2; i + 3 < t.size(); i += 4) {
      if (R.vtb.count(t[i]) || !R.vbk.count(t[i + 1])) return "SKIP";
      const BlockIndex<BtcBlock>* bp = nullptr;
      auto nth = [&](const std::string& w) -> const BlockIndex<BtcBlock>* {   // "#j": block of proof of the j-th VTB of this op
        size_t j = (size_t)std::atoi(w.c_str() + 1);
        return j < bops.size() ? bops[j] : nullptr;
      };
      if (t[i + 2][0] == '#') { bp = nth(t[i + 2]); if (!bp) return "SKIP"; }
      else if (t[i + 2] == "prev") { if (bops.empty()) return "SKIP"; bp = bops.back(); }
      else { if (!R.btc.count(t[i + 2])) return "SKIP"; bp = R.bidx(t[i + 2]); }
      BtcBlock::hash_t last;
      if (t[i + 3][0] == '#') { auto* x = nth(t[i + 3]); if (!x) return "SKIP"; last = x->getHash(); }
      else if (t[i + 3] == "prev") { if (bops.empty()) return "SKIP"; last = bops.back()->getHash(); }
      else { if (!R.btc.count(t[i + 3])) return "SKIP"; last = R.btc.at(t[i + 3]).getHash(); }
      const auto& eb = R.vbk.at(t[i + 1]);
      auto btctx = R.miner.createBtcTxEndorsingVbkBlock(eb);
      R.tick();
      auto* bb = R.miner.mineBtcBlocks(1, *bp, {btctx});
      if (bb == nullptr) return "SKIP miner-rejected";
      txs.push_back(R.miner.createVbkPopTxEndorsingVbkBlock(bb->getHeader(), btctx, eb, last));
      bops.push_back(bb);
    }
    R.tick();
    auto* vb = R.miner.mineVbkBlocks(1, *R.vidx(t[1]), txs);
    if (vb == nullptr) { R.sweep(); return "SKIP miner-rejected"; }
    size_t k = 0;
    for (size_t i = 2; i + 3 < t.size(); i += 4, k++) {
      auto v = R.miner.createVTB(vb->getHeader(), txs[k]);
      R.vtb[t[i]] = v;
      auto wid = v.getId();
      R.names["id:" + vh::hex(wid.data(), wid.size())] = t[i];
    }
    std::string r = R.regVbk(vb->getHeader());
    for (auto* b : bops) r += " " + R.regBtc(b->getHeader());
    R.sweep();
    return r;
  }

  // ordered VTB ids of every VBK block that holds any (the order the VBK state machine re-executes them in)
  std::string vtbOrder(vw::Instance& I) {
    std::vector<std::pair<std::string, std::string>> rows;
    for (auto* i : I.tree.vbk().getBlocks()) {
      auto& ids = i->template getPayloadIds<VTB>();
      if (ids.empty()) continue;
      std::string s;
      for (auto& id : ids) {
        auto it = reg->names.find("id:" + vh::hex(id.data(), id.size()));
        s += (it == reg->names.end() ? "?" : it->second) + ",";
      }
      rows.push_back({reg->nameOf(i->getHash()), s});
    }
    std::sort(rows.begin(), rows.end(), [](const std::pair<std::string, std::string>& a, const std::pair<std::string, std::string>& b) { return idLess(a.first, b.first); });
    std::string r;
    for (auto& x : rows) r += x.first + "=[" + x.second + "] ";
    return r.empty() ? "-" : r;
  }

  std::string extra(vw::Instance& I, const std::vector<std::string>& t) override {
    if (t[0] == "sm") return smDump(I);
    if (t[0] == "xvtb") return xvtb(t);
    if (t[0] == "mvtb") return mvtb(t);
    if (t[0] == "vtborder") return vtbOrder(I);
    if (t[0] == "valid") {
      std::vector<std::string> v;
      for (auto* w : I.tree.getBlocks())
        if (w->isValid(BLOCK_CAN_BE_APPLIED)) v.push_back(reg->nameOf(w->getHash()));
      std::sort(v.begin(), v.end(), idLess);
      std::string r = "valid";
      for (auto& x : v) r += " " + x;
      return r;
    }
    if (t[0] == "payouttip") return I.payout(I.tip());
    if (t[0] == "flags" && t.size() > 1) {
      auto* w = I.idx(t[1]);
      if (w == nullptr) return "unknown";
      return std::to_string(w->getValidityLevel()) + ":" + flagsOf(*w) + ":" + (w->hasFlags(BLOCK_ACTIVE) ? "1" : "0");
    }
    if (t[0] == "react") {
      // C20: every block that ever reported full validity (and is neither invalidated by the altchain nor
      // removed) must be activatable again; afterwards switch back
      auto X = nameOfInst(I);
      track(X);  // blocks at the fully-valid level right now belong to the sweep too (a sweep may be the first op after begin)
      std::vector<std::string> ids(ever[X].begin(), ever[X].end());
      std::sort(ids.begin(), ids.end(), idLess);
      std::string orig = I.tip();
      int tried = 0;
      reactFail.clear();
      for (auto& id : ids) {
        auto* w = I.idx(id);
        if (w == nullptr || w->isDeleted()) continue;
        bool inv = false;
        for (auto* u = w; u != nullptr; u = u->pprev)
          if (u->hasFlags(BLOCK_FAILED_BLOCK)) inv = true;
        if (inv) continue;
        auto r = I.setState(id);
        if (r.rfind("SKIP", 0) == 0) continue;
        tried++;
        if (r != "true") reactFail += " " + id + "(" + r + ")";
      }
      auto r = I.setState(orig);
      if (r != "true" && r.rfind("SKIP", 0) != 0) reactFail += " back:" + orig + "(" + r + ")";
      return "react n=" + std::to_string(tried) + (reactFail.empty() ? "" : " FAIL" + reactFail);
    }
    return "";
  }
};

}  // namespace

int main() {
  SetLogger<Logger>(LogLevel::off);
  setMockTime(1700000000);
  SmSession s;
#ifdef SM_HAVE_TRACE
  verif::popTraceHook() = [&s](bool apply, const std::string& tree, const std::vector<uint8_t>& hash, int32_t, uint32_t status) {
    if (tree != "ALT" || !s.reg || s.curInst.empty()) return;
    auto& tr = s.traces[s.curInst];
    auto bid = s.reg->nameOf(hash);
    if (apply) tr.onApply(*s.reg, bid, status);
    else tr.onUnapply(*s.reg, bid);
  };
#endif
  return vh::main_loop([&](const std::string& id, const std::string& op, const std::vector<std::string>& a) {
    std::vector<std::string> t{op};
    t.insert(t.end(), a.begin(), a.end());
    if (op == "begin") { s.ever.clear(); s.traces.clear(); }
    s.curInst = (op == "on" || op == "show") && t.size() >= 2 ? t[1] : (op == "twin" && t.size() >= 3 ? t[2] : (op == "begin" ? "A" : ""));
    if (op == "twin" && t.size() >= 3) s.traces.erase(t[2]);
    if (op == "inst" && t.size() >= 2) s.traces.erase(t[1]);
    bool guarded = op == "on" && t.size() >= 4 && (t[2] == "set" || t[2] == "cmp") && s.reg && s.inst.count(t[1]);
    Snap before;
    std::string tipBefore;
    if (guarded) {
      before = snapshot(*s.reg, s.inst[t[1]]->tree);
      tipBefore = s.inst[t[1]]->tip();
    }
    std::string r = s.exec(t);
    if (guarded && r.rfind("SKIP", 0) != 0) {
      auto& I = *s.inst[t[1]];
      std::vector<std::string> bad;
      bool switched = (t[2] == "set" && r == "true") || (t[2] == "cmp" && r == "-1");
      if (switched) {
        bad = checkSwitched(I, t[3]);
        s.ever[t[1]].insert(t[3]);
      } else {
        bad = checkUnchanged(*s.reg, before, snapshot(*s.reg, I.tree), t[3]);
        if (I.tip() != tipBefore) bad.push_back("tip changed " + tipBefore + " -> " + I.tip());
        auto sw = checkSwitched(I, tipBefore);
        bad.insert(bad.end(), sw.begin(), sw.end());
      }
      for (auto& b : bad) vh::oracle_fail(id, "C02 " + t[2] + " " + t[3] + " -> " + r + ": " + b);
    }
    if (!s.curInst.empty()) {
      auto& tr = s.traces[s.curInst];
      for (size_t k = 0; k < tr.bad.size() && k < 3; k++) vh::oracle_fail(id, "C20 trace: " + tr.bad[k]);
      tr.bad.clear();
    }
    if (op == "on" && t.size() >= 3 && t[2] == "trace") {
      auto& tr = s.traces[t[1]];
      std::string r2 = "events=" + std::to_string(tr.events) + " applied=";
      for (auto& e : tr.stack) r2 += e.first + (e.second ? "" : "?") + ",";
      return r2;
    }
    if (s.reg && (op == "on" || op == "twin" || op == "show") && t.size() >= 2) {
      s.track(op == "twin" ? t[2] : t[1]);
      if (op == "on" && t.size() >= 3 && t[2] == "react" && !s.reactFail.empty())
        vh::oracle_fail(id, "C20 a block that reported full validity cannot be re-activated:" + s.reactFail);
    }
    return r;
  });
}
