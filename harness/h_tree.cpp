// C07 / C08 harness.
//   * every World script line (world.hpp) is executed and, after every step, the
//     invariant checker (invariants.hpp) runs on every live instance       -> "!id text" on a violation
//   * "T <op> ..."  ALT tree with EMPTY PopData on instance A of the current session,
//     compared step by step with the Coq model (coq/Tree/TreeDefs.v, kind ALT)
//        T hdr <n> <p> | T body <n> | T set <n> | T inv <n> <b|p> | T reval <n> <b|p> | T rm <n> | T rmpl <n>
//   * "P <op> ..."  standalone BlockTree<BtcBlock> fed with mined headers (model kind POW)
//        P begin | P hdr <n> <p> | P inv <n> <b|p> | P reval <n> <b|p> | P rm <n>
//     answer: "<result> ; <id>:<status>:<height> ... ; tips <sorted ids> ; tip <id> ; applied <n> ; ord <tips_ iteration order>"
//   * the direct C08 oracle (independent of the model) is evaluated around every inv / reval.
#include "world.hpp"
#include "invariants.hpp"

#include <veriblock/pop/blockchain/blocktree.hpp>
#include <veriblock/pop/blockchain/btc_blockchain_util.hpp>
#include <veriblock/pop/blockchain/miner.hpp>

using namespace altintegration;

namespace {

// ------------------------------------------------------------------ inside the library's notification points
// "The best chain never contains an invalid block at any moment in between": handlers on onBlockValidityChanged and
// onBeforeOverrideTip of every tree under test walk getBestChain() (const getters only, nothing is mutated) and record
// a failed / removed block found on it; the records are reported after the operation returned.
static std::vector<std::string>& watchLog() { static std::vector<std::string> v; return v; }

template <typename Tree>
static void watchChain(const Tree* t, const std::string& label, const char* where) {
  for (auto* x : t->getBestChain()) {
    if (x == nullptr) continue;
    const char* what = x->hasFlags(BLOCK_FAILED_MASK) ? "failed" : (x->isDeleted() ? "removed" : nullptr);
    if (what == nullptr) continue;
    auto h = x->getHash();
    std::string m = label + " best chain contains a " + what + " block (height " + std::to_string(x->getHeight()) + " " +
                    vh::hex(h.data(), std::min<size_t>(h.size(), 6)) + ") inside " + where;
    auto& log = watchLog();
    if (log.size() < 8 && std::find(log.begin(), log.end(), m) == log.end()) log.push_back(m);
    return;
  }
}

template <typename Tree>
static void hookTree(Tree& t, const std::string& label) {
  using index_t = typename Tree::index_t;
  const Tree* ct = &t;
  t.onBlockValidityChanged.connect([ct, label](const index_t&) { watchChain(ct, label, "onBlockValidityChanged"); });
  t.onBeforeOverrideTip.connect([ct, label](const index_t&) { watchChain(ct, label, "onBeforeOverrideTip"); });
}

static void flushWatch(const std::string& cid) {
  for (auto& m : watchLog()) vh::oracle_fail(cid, "C08 " + m);
  watchLog().clear();
}

// ------------------------------------------------------------------ generic view of a tree (public getters only)
template <typename Tree>
struct View {
  using index_t = typename Tree::index_t;
  const Tree& t;
  std::function<std::string(const index_t&)> nameOf;  // numeric id as text

  struct Snap {
    std::map<std::string, uint32_t> st;   // all blocks incl. deleted
    std::set<std::string> tips;
    std::string tip;
  };
  Snap snap() const {
    Snap s;
    for (auto* i : t.getAllBlocks()) s.st[nameOf(*i)] = i->getStatus();
    for (auto* i : t.getTips()) s.tips.insert(nameOf(*i));
    s.tip = nameOf(*t.getBestChain().tip());
    return s;
  }
  std::string dump() const {
    std::vector<std::pair<long, std::string>> v;
    for (auto* i : t.getAllBlocks()) {
      auto n = nameOf(*i);
      v.emplace_back(std::stol(n), n + ":" + std::to_string(i->getStatus()) + ":" + std::to_string(i->getHeight()));
    }
    std::sort(v.begin(), v.end());
    std::string r;
    for (auto& p : v) r += " " + p.second;
    std::vector<long> tp;
    std::string ord;
    for (auto* i : t.getTips()) { tp.push_back(std::stol(nameOf(*i))); ord += " " + nameOf(*i); }
    std::sort(tp.begin(), tp.end());
    r += " ; tips";
    for (auto x : tp) r += " " + std::to_string(x);
    r += " ; tip " + nameOf(*t.getBestChain().tip());
    r += " ; applied " + std::to_string(t.appliedBlockCount);
    r += " ; ord" + ord;
    return r;
  }
};

// ------------------------------------------------------------------ direct C08 oracle
// evaluated on the implementation alone: snapshot before / after invalidateSubtree, and restoration once every
// invalidation issued since the base snapshot has been revalidated again.
template <typename Tree>
struct C08Oracle {
  using index_t = typename Tree::index_t;
  using Snap = typename View<Tree>::Snap;
  bool haveBase = false;
  bool baseStale = false;
  Snap base;
  std::set<std::pair<std::string, int>> outstanding;
  static constexpr uint32_t IGNORE = BLOCK_ACTIVE;   // the best chain is moved off the subtree and not moved back

  void reset() { haveBase = false; outstanding.clear(); }

  static bool inSubtree(const index_t& x, const index_t& b) { return x.getAncestor(b.getHeight()) == &b; }

  // call around tree.invalidateSubtree(b, reason)
  template <typename F>
  std::vector<std::string> invalidate(View<Tree>& v, index_t& b, BlockValidityStatus reason, F&& doit) {
    std::vector<std::string> bad;
    auto before = v.snap();
    bool carried = b.hasFlags(reason);
    if (!haveBase) {
      base = before; haveBase = true; outstanding.clear();
      // a removed subtree keeps FAILED_CHILD below a block whose only failure (FAILED_POP) is dropped by the removal:
      // such a stale flag is cleaned by the next revalidation passing over it, so "inv + reval restores every flag" is
      // only claimed for base states without stale FAILED_CHILD
      baseStale = false;
      for (auto* x : v.t.getAllBlocks())
        if (x->pprev != nullptr && x->hasFlags(BLOCK_FAILED_CHILD) && !x->pprev->isFailed()) baseStale = true;
    }
    doit();
    auto after = v.snap();
    auto bn = v.nameOf(b);
    if (!carried) outstanding.insert({bn, (int)reason});
    std::string pn = v.nameOf(*b.pprev);
    for (auto* x : v.t.getAllBlocks()) {
      auto n = v.nameOf(*x);
      if (inSubtree(*x, b)) {
        if (!x->isFailed()) bad.push_back("inv: block " + n + " of the subtree is not failed");
        if (x->canBeATip()) bad.push_back("inv: block " + n + " of the subtree can still be a tip");
        if (after.tips.count(n)) bad.push_back("inv: block " + n + " of the subtree is still a tip");
        if (x != &b && !x->hasFlags(BLOCK_FAILED_CHILD)) bad.push_back("inv: descendant " + n + " lacks FAILED_CHILD");
        if (x == &b && !x->hasFlags(reason)) bad.push_back("inv: block " + n + " lacks the reason flag");
        if ((after.st[n] & ~(uint32_t)(BLOCK_FAILED_MASK | BLOCK_ACTIVE)) !=
            (before.st[n] & ~(uint32_t)(BLOCK_FAILED_MASK | BLOCK_ACTIVE)))
          bad.push_back("inv: non-failure bits of " + n + " changed");
        if ((before.st[n] & BLOCK_FAILED_MASK & ~after.st[n]) != 0) bad.push_back("inv: a failure flag of " + n + " was lost");
      } else {
        if (after.st[n] != before.st[n])
          bad.push_back("inv: block " + n + " outside the subtree changed " + std::to_string(before.st[n]) + "->" +
                        std::to_string(after.st[n]));
        if (n != pn && after.tips.count(n) != before.tips.count(n)) bad.push_back("inv: tip membership of outside block " + n + " changed");
      }
    }
    for (auto* x : v.t.getBestChain()) {
      if (x == nullptr) continue;
      if (inSubtree(*x, b)) bad.push_back("inv: best chain still runs through the subtree at " + v.nameOf(*x));
      if (x->isFailed()) bad.push_back("inv: best chain contains failed block " + v.nameOf(*x));
    }
    return bad;
  }

  template <typename F>
  std::vector<std::string> revalidate(View<Tree>& v, index_t& b, BlockValidityStatus reason, F&& doit) {
    std::vector<std::string> bad;
    auto before = v.snap();
    bool carried = b.hasFlags(reason);
    doit();
    auto after = v.snap();
    auto bn = v.nameOf(b);
    // exactness: nothing outside the subtree changes, only failure flags inside, the reason flag is gone
    if (b.hasFlags(reason)) bad.push_back("reval: reason flag still set on " + bn);
    for (auto* x : v.t.getAllBlocks()) {
      auto n = v.nameOf(*x);
      if (inSubtree(*x, b)) {
        if ((after.st[n] & ~(uint32_t)BLOCK_FAILED_MASK) != (before.st[n] & ~(uint32_t)BLOCK_FAILED_MASK))
          bad.push_back("reval: non-failure bits of " + n + " changed");
        if ((after.st[n] & BLOCK_FAILED_MASK & ~before.st[n]) != 0) bad.push_back("reval: block " + n + " gained a failure flag");
        if (x != &b && ((after.st[n] ^ before.st[n]) & (BLOCK_FAILED_BLOCK | BLOCK_FAILED_POP)))
          bad.push_back("reval: own failure flag of descendant " + n + " changed");
        // descendants invalid for another reason stay invalid; FAILED_CHILD iff the parent is failed
        if (x->pprev != nullptr && x != &b && x->pprev->isFailed() && !x->hasFlags(BLOCK_FAILED_CHILD))
          bad.push_back("reval: " + n + " lost FAILED_CHILD below a failed parent");
      } else if (after.st[n] != before.st[n]) {
        bad.push_back("reval: block " + n + " outside the subtree changed");
      }
    }
    for (auto* x : v.t.getBestChain())
      if (x != nullptr && x->isFailed()) bad.push_back("reval: best chain contains failed block " + v.nameOf(*x));
    if (!haveBase) return bad;
    if (!carried) return bad;   // early exit: nothing happened
    auto key = std::make_pair(bn, (int)reason);
    if (!outstanding.count(key)) { reset(); return bad; }   // removes a flag the base state carried
    outstanding.erase(key);
    if (outstanding.empty() && baseStale) haveBase = false;
    else if (outstanding.empty()) {
      // every invalidation since the base has been undone: validity of every block and the tip set are back
      for (auto& kv : base.st) {
        auto it = after.st.find(kv.first);
        if (it == after.st.end() || (it->second & ~IGNORE) != (kv.second & ~IGNORE))
          bad.push_back("inv+reval: status of " + kv.first + " not restored: " + std::to_string(kv.second) + " -> " +
                        (it == after.st.end() ? std::string("gone") : std::to_string(it->second)));
      }
      if (after.tips != base.tips) {
        std::string a, c;
        for (auto& x : base.tips) a += " " + x;
        for (auto& x : after.tips) c += " " + x;
        bad.push_back("inv+reval: tip set not restored:" + a + " ->" + c);
      }
      haveBase = false;
    }
    return bad;
  }
};

// VERIF_NOGUARD=1 switches the parent-level guard of hdr off (used to demonstrate the assert it protects from)
static bool noguard() { static bool v = getenv("VERIF_NOGUARD") != nullptr; return v; }
static BlockValidityStatus parseReason(const std::string& s) { return s == "p" ? BLOCK_FAILED_POP : BLOCK_FAILED_BLOCK; }

// ------------------------------------------------------------------ standalone PoW tree
struct Pow {
  using tree_t = BlockTree<BtcBlock, BtcChainParams>;
  using index_t = tree_t::index_t;
  BtcChainParamsRegTest params{};
  AltChainParamsRegTest altp{};
  adaptors::InmemStorageImpl storage{};
  adaptors::BlockReaderImpl reader{storage, altp};
  tree_t ref{params, reader};    // never invalidated: supplies the parent index for mining
  tree_t tree{params, reader};   // the tree under test
  Miner<BtcBlock, BtcChainParams> miner{params};
  std::map<std::string, BtcBlock> blocks;
  std::map<std::string, std::string> names;  // hex hash -> id
  C08Oracle<tree_t> oracle;

  Pow() {
    auto g = GetRegTestBtcBlock();
    ref.bootstrapWithGenesis(g);
    tree.bootstrapWithGenesis(g);
    blocks["0"] = g;
    names[g.getHash().toHex()] = "0";
    hookTree(tree, "POW");
  }
  View<tree_t> view() {
    return View<tree_t>{tree, [this](const index_t& i) {
                          auto it = names.find(i.getHash().toHex());
                          return it == names.end() ? std::string("999999") : it->second;
                        }};
  }
  index_t* idx(const std::string& n) {
    auto it = blocks.find(n);
    return it == blocks.end() ? nullptr : tree.getBlockIndex(it->second.getHash());
  }
  std::string exec(const std::string& cid, const std::vector<std::string>& a) {
    const std::string& op = a[0];
    auto v = view();
    std::string res = "SKIP";
    if (op == "hdr") {
      if (!blocks.count(a[1])) {
        if (!blocks.count(a[2])) return "fail-prev ;" + v.dump();   // a header whose parent was never seen
        auto* pi = ref.getBlockIndex(blocks[a[2]].getHash());
        auto b = miner.createNextBlock(*pi);
        ValidationState st;
        if (!ref.acceptBlockHeader(b, st)) return "SKIP ref-reject " + st.toString();
        blocks[a[1]] = b;
        names[b.getHash().toHex()] = a[1];
      }
      oracle.reset();
      auto* prev = tree.getBlockIndex(blocks[a[1]].getPreviousBlock());
      auto* cur = tree.findBlockIndex(blocks[a[1]].getHash());
      bool curPop = cur != nullptr && cur->hasFlags(BLOCK_FAILED_POP);
      bool curLow = cur == nullptr || !cur->isValidUpTo(BLOCK_CONNECTED);
      if (a[1] == "0") res = "SKIP root";
      // raiseValidity asserts the parent's level: a parent restored while carrying FAILED_POP stays at VALID_UNKNOWN
      else if (!noguard() && prev != nullptr && !prev->isValidUpTo(BLOCK_CONNECTED) && curLow && !curPop) res = "SKIP parent-level";
      else {
        ValidationState st;
        bool ok = tree.acceptBlockHeader(blocks[a[1]], st);
        auto p = st.GetPath();
        res = ok ? "ok" : (p.find("bad-prev") != std::string::npos ? "fail-prev"
                           : p.find("bad-chain") != std::string::npos ? "fail-chain" : "fail " + p);
      }
    } else if (op == "inv" || op == "reval" || op == "rm") {
      auto* i = idx(a[1]);
      if (i == nullptr || i->isRoot()) res = "SKIP";
      else if (op == "inv") {
        auto r = parseReason(a[2]);
        if (i->isValidUpTo(BLOCK_CAN_BE_APPLIED) && r == BLOCK_FAILED_POP && !i->hasFlags(r)) res = "SKIP pop-on-applied";
        else {
          for (auto& m : oracle.invalidate(v, *i, r, [&] { tree.invalidateSubtree(*i, r); })) vh::oracle_fail(cid, "C08 " + m);
          res = "ok";
        }
      } else if (op == "reval") {
        auto r = parseReason(a[2]);
        for (auto& m : oracle.revalidate(v, *i, r, [&] { tree.revalidateSubtree(*i, r); })) vh::oracle_fail(cid, "C08 " + m);
        res = "ok";
      } else {
        oracle.reset();
        tree.removeSubtree(*i);
        res = "ok";
      }
    } else {
      return "UNKNOWN-OP";
    }
    for (auto* x : tree.getBestChain())
      if (x != nullptr && x->isFailed()) vh::oracle_fail(cid, "C08 best chain contains failed block " + v.nameOf(*x));
    for (auto& m : vw::check_pow_invariants(tree, "POW")) vh::oracle_fail(cid, "C07 " + m);
    if (res.rfind("SKIP", 0) == 0) res = "SKIP";
    return res + " ;" + v.dump();
  }
};

// ------------------------------------------------------------------ ALT tree with empty payloads on instance A
struct AltT {
  vw::Session& s;
  C08Oracle<AltBlockTree> oracle;
  explicit AltT(vw::Session& ss) : s(ss) {}

  static std::string num(const std::string& id) { return id.size() > 1 && id[0] == 'a' ? id.substr(1) : std::string("999999"); }

  std::string exec(const std::string& cid, const std::vector<std::string>& a) {
    if (!s.reg) return "NO-SESSION";
    auto& I = *s.inst.at("A");
    auto& reg = *s.reg;
    auto& tree = I.tree;
    View<AltBlockTree> v{tree, [&reg](const BlockIndex<AltBlock>& i) { return num(reg.nameOf(i.getHash())); }};
    const std::string& op = a[0];
    std::string id = "a" + a[1];
    std::string res;
    if (op == "hdr") {
      oracle.reset();
      std::string par = "a" + a[2];
      if (!reg.alt.count(id)) {
        if (!reg.alt.count(par)) return "fail-prev ;" + v.dump();   // a header whose parent was never seen
        if (!reg.newAlt(id, par)) return "SKIP registry";
        reg.setPd(id, {}, {}, {});
      }
      // raiseValidity(BLOCK_VALID_TREE) asserts the level of the parent: a parent restored while carrying
      // FAILED_POP stays at BLOCK_VALID_UNKNOWN
      auto* p = I.idx(reg.alt.at(id).parent);
      auto* cur = tree.findBlockIndex(reg.alt.at(id).block.getHash());
      bool curPop = cur != nullptr && cur->hasFlags(BLOCK_FAILED_POP);
      if (!noguard() && I.idx(id) == nullptr && p != nullptr && !p->isValidUpTo(BLOCK_VALID_TREE) && !curPop) res = "SKIP parent-level";
      else {
        res = I.hdr(id);
        if (res.find("bad-prev") != std::string::npos) res = "fail-prev";
        else if (res.find("bad-chain") != std::string::npos) res = "fail-chain";
      }
    } else if (op == "body") {
      oracle.reset();
      auto* i = I.idx(id);
      bool abort = false;
      if (i != nullptr && !i->isRoot() && !i->hasFlags(BLOCK_HAS_PAYLOADS) && i->isValidUpTo(BLOCK_VALID_TREE) &&
          i->pprev->isConnected()) {
        // connectBlock asserts that raiseValidity(BLOCK_CONNECTED) succeeds: no block that gets connected by
        // this call may carry FAILED_POP (the library sets that flag only on connected blocks)
        std::vector<BlockIndex<AltBlock>*> st{i};
        while (!st.empty()) {
          auto* x = st.back();
          st.pop_back();
          if (x->hasFlags(BLOCK_FAILED_POP)) abort = true;
          for (auto* c : x->pnext)
            if (c->hasFlags(BLOCK_HAS_PAYLOADS)) st.push_back(c);
        }
      }
      if (abort) res = "SKIP failed-pop-unconnected";
      else {
        res = I.body(id);
        if (res.rfind("connected", 0) == 0) res = "connected";
        else if (res.rfind("stored", 0) == 0) res = "stored";
      }
    } else if (op == "set") {
      oracle.reset();
      res = I.setState(id);
      if (res.rfind("false", 0) == 0) res = "false";
    } else if (op == "inv" || op == "reval") {
      auto r = parseReason(a[2]);
      auto* i = I.idx(id);
      if (i == nullptr || i->isRoot()) res = "SKIP";
      else if (op == "inv") {
        if (i->isValidUpTo(BLOCK_CAN_BE_APPLIED) && r == BLOCK_FAILED_POP && !i->hasFlags(r)) res = "SKIP pop-on-applied";
        else {
          for (auto& m : oracle.invalidate(v, *i, r, [&] { tree.invalidateSubtree(*i, r); })) vh::oracle_fail(cid, "C08 " + m);
          res = "ok";
        }
      } else {
        for (auto& m : oracle.revalidate(v, *i, r, [&] { tree.revalidateSubtree(*i, r); })) vh::oracle_fail(cid, "C08 " + m);
        res = "ok";
      }
    } else if (op == "rm") {
      oracle.reset();
      res = I.removeSubtree(id);
    } else if (op == "rmpl") {
      oracle.reset();
      res = I.removePayloads(id);
    } else {
      return "UNKNOWN-OP";
    }
    for (auto* x : tree.getBestChain())
      if (x != nullptr && x->isFailed()) vh::oracle_fail(cid, "C08 best chain contains failed block " + v.nameOf(*x));
    for (auto& m : vw::check_invariants(reg, tree)) vh::oracle_fail(cid, "C07 " + m);
    if (res.rfind("SKIP", 0) == 0) res = "SKIP";
    return res + " ;" + v.dump();
  }
};

// ------------------------------------------------------------------ mempool activity on an instance (C07 histories)
//   on <X> sub <t|w|v id>     MemPool::submit by registry id  -> valid | stateful:<path> | stateless:<path>
//   on <X> gen                MemPool::generatePopData()      -> number of payloads offered
//   on <X> rmall <a>          MemPool::removeAll(PopData of ALT block a)
//   on <X> cleanup            MemPool::cleanUp()
struct TSession : public vw::Session {
  template <typename T>
  static std::string doSubmit(vw::Instance& I, const T& pl) {
    ValidationState st;
    auto r = I.mempool->submit<T>(pl, false, st);
    if (r.isValid()) return "valid";
    if (r.isFailedStateful()) return "stateful:" + st.GetPath();
    return "stateless:" + st.GetPath();
  }
  std::string extra(vw::Instance& I, const std::vector<std::string>& t) override {
    const std::string& c = t[0];
    if (c == "sub" && t.size() > 1) {
      const std::string& id = t[1];
      if (id[0] == 't') {
        auto it = reg->atv.find(id);
        return it == reg->atv.end() ? "SKIP" : doSubmit<ATV>(I, it->second);
      }
      if (id[0] == 'w') {
        auto it = reg->vtb.find(id);
        return it == reg->vtb.end() ? "SKIP" : doSubmit<VTB>(I, it->second);
      }
      auto it = reg->vbk.find(id);
      return it == reg->vbk.end() ? "SKIP" : doSubmit<VbkBlock>(I, it->second);
    }
    if (c == "gen") {
      // documented precondition: the best chain is applied and its tip connected (always true for an instance)
      PopData P = I.mempool->generatePopData();
      return "ok " + std::to_string(P.context.size()) + "/" + std::to_string(P.vtbs.size()) + "/" + std::to_string(P.atvs.size());
    }
    if (c == "rmall" && t.size() > 1) {
      auto it = reg->alt.find(t[1]);
      if (it == reg->alt.end() || !it->second.hasPd) return "SKIP";
      I.mempool->removeAll(it->second.pd);
      return "ok";
    }
    if (c == "cleanup") { I.mempool->cleanUp(); return "ok"; }
    return "";
  }
};

}  // namespace

int main() {
  SetLogger<Logger>(LogLevel::off);
  setMockTime(1700000000);
  TSession s;
  std::unique_ptr<AltT> alt(new AltT(s));
  std::unique_ptr<Pow> pow;
  std::set<vw::Instance*> hooked;
  auto hookAll = [&]() {
    // forget instances that do not exist any more (their address may be reused later)
    std::set<vw::Instance*> live;
    for (auto& kv : s.inst) live.insert(kv.second.get());
    for (auto it = hooked.begin(); it != hooked.end();) it = live.count(*it) ? std::next(it) : hooked.erase(it);
    for (auto& kv : s.inst) {
      if (hooked.count(kv.second.get())) continue;
      hooked.insert(kv.second.get());
      hookTree(kv.second->tree, "ALT[" + kv.first + "]");
      hookTree(kv.second->tree.vbk(), "VBK[" + kv.first + "]");
      hookTree(kv.second->tree.btc(), "BTC[" + kv.first + "]");
    }
  };
  return vh::main_loop([&](const std::string& id, const std::string& op, const std::vector<std::string>& a) -> std::string {
    std::string r;
    if (op == "T") {
      r = alt->exec(id, a);
    } else if (op == "P") {
      if (!a.empty() && a[0] == "begin") { pow.reset(new Pow()); watchLog().clear(); return "ok ;" + pow->view().dump(); }
      if (!pow) return "NO-SESSION";
      r = pow->exec(id, a);
    } else {
      std::vector<std::string> t{op};
      t.insert(t.end(), a.begin(), a.end());
      if (op == "begin") { alt.reset(new AltT(s)); hooked.clear(); }
      r = s.exec(t);
      hookAll();   // instances created by this line are watched from the next line on
      // C07: the invariant checker after EVERY step of every history, on every instance
      if (s.reg && (op == "on" || op == "begin" || op == "twin" || op == "show" || op == "inst"))
        for (auto& kv : s.inst)
          for (auto& m : vw::check_invariants(*s.reg, kv.second->tree)) vh::oracle_fail(id, "C07 [" + kv.first + "] " + m);
    }
    flushWatch(id);
    return r;
  });
}
