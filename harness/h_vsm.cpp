// C13: the real ValueSortedMap on op sequences with many keys-equal-by-comparator, compared with the extracted model.
//   <id> vsm <div> <op>...   op = i<k>:<v> | e<k> | c     comparator: (a / div) < (b / div)
// Two instantiations are driven with the same ops: <int, std::shared_ptr<int>> (values are identities, as the
// mempool uses it) and <std::string, int> (as the repo's own test does); both must print the same result.
// Direct oracle: multiset(sorted view) == multiset(map values), sorted by the comparator, sizes equal.
#include <veriblock/pop/value_sorted_map.hpp>

#include <algorithm>
#include <map>
#include <memory>

#include "common.hpp"
using namespace altintegration;

template <typename M, typename Deref>
static std::string show(const std::string& id, const M& m, int div, Deref deref, const char* which) {
  std::vector<int> set, vals;
  std::vector<std::pair<int, int>> mp;
  for (auto& v : m.getSortedValues()) set.push_back(deref(v));
  return "";
}

static std::string handle(const std::string& id, const std::string& op, const std::vector<std::string>& a) {
  if (op != "vsm" && op != "vsm0") return "UNKNOWN-OP";
  int div = std::stoi(a[0]);
  using P = std::shared_ptr<int>;
  ValueSortedMap<int, P> m1([div](const P& x, const P& y) { return *x / div < *y / div; });
  ValueSortedMap<std::string, int> m2([div](const int& x, const int& y) { return x / div < y / div; });
  std::map<int, P> ident;  // one identity per value
  auto idOf = [&](int v) {
    auto it = ident.find(v);
    if (it == ident.end()) it = ident.emplace(v, std::make_shared<int>(v)).first;
    return it->second;
  };
  for (size_t i = 1; i < a.size(); i++) {
    const std::string& o = a[i];
    if (o == "c") { m1.clear(); m2.clear(); continue; }
    if (o[0] == 'e') { int k = std::stoi(o.substr(1)); m1.erase(k); m2.erase(std::to_string(k)); continue; }
    auto p = o.find(':');
    int k = std::stoi(o.substr(1, p - 1)), v = std::stoi(o.substr(p + 1));
    m1.insert(k, idOf(v));
    m2.insert(std::to_string(k), v);
  }
  auto render = [&](const std::vector<int>& set, std::vector<std::pair<int, int>> mp, const char* which) {
    std::sort(mp.begin(), mp.end());
    std::vector<int> a1 = set, b1;
    for (auto& kv : mp) b1.push_back(kv.second);
    std::sort(a1.begin(), a1.end());
    std::sort(b1.begin(), b1.end());
    if (a1 != b1) vh::oracle_fail(id, std::string(which) + ": sorted view and map hold different values");
    for (size_t i = 1; i < set.size(); i++)
      if (set[i] / div < set[i - 1] / div) vh::oracle_fail(id, std::string(which) + ": sorted view is not sorted");
    std::string s = "set=";
    for (size_t i = 0; i < set.size(); i++) s += (i ? "," : "") + std::to_string(set[i]);
    s += " map=";
    for (size_t i = 0; i < mp.size(); i++) s += (i ? "," : "") + std::to_string(mp[i].first) + ":" + std::to_string(mp[i].second);
    return s;
  };
  std::vector<int> s1, s2;
  std::vector<std::pair<int, int>> p1, p2;
  for (auto& v : m1.getSortedValues()) s1.push_back(*v);
  for (auto& kv : m1) p1.emplace_back(kv.first, *kv.second);
  for (auto& v : m2.getSortedValues()) s2.push_back(v);
  for (auto& kv : m2) p2.emplace_back(std::stoi(kv.first), kv.second);
  if (m1.size() != p1.size() || m1.getSortedValues().size() != p1.size()) vh::oracle_fail(id, "sizes differ");
  auto r1 = render(s1, p1, "shared_ptr instance");
  auto r2 = render(s2, p2, "string/int instance");
  if (r1 != r2) vh::oracle_fail(id, "the two instantiations disagree: " + r2);
  return r1;
}

int main() { return vh::main_loop(handle); }
