// C17 harness.
// (a) the real cache templates driven by operation sequences (values checked against f, policy trace printed
//     for comparison with the model):
//   <id> lfru <size:1|2|3|6> <tw:5|600> <ops..>     ops: g<key>@<now> | c
//        -> "<id> <n ops> <values>"   and   "<id>.p <h|m<slot> ...>"
//   <id> lru <maxsize> <elast> <ops..>              ops: i<key> | t<key> | c
//        -> "<id> <hit values>"       and   "<id>.p <h|m ...> / <keys front..back>"
//   <id> lrumt <threads> <seed> <n>                 concurrent insert/tryGet on lru11::Cache<.., std::mutex>
// (b) the real progPowHash (rel variant; 3 s per epoch):
//   <id> pow <threads> <ethsize:1|2|other=6> <hdrsize> <seed> <ops..>
//        ops: h<e>.<k> hash header k of epoch e | C clearHeaderCache | E clearEthashCache |
//             P<e>.<k> insertHeaderCacheEntry(header, true hash) | F<e>.<k> VbkBlock getHash/setters/flip test
//        every result is compared with progPowHash(header, light) computed without any cache.
//   <id> blk <seed> <ops..>                         one reused VbkBlock object: get/set/deserialise-into/assign/precalc
//   <id> serial <seed> <iterations>                  does the ethash mutex serialise getOrDefault? (instrumented EthashCacheI)
//   <id> powhit <threads> <seed> <n>                header-cache hit path only (no vProgPoW evaluation; TSan)
// `!<id> ...` = a value differs from the pure function (direct oracle).
#include <algorithm>
#include <array>
#include <atomic>
#include <chrono>
#include <condition_variable>
#include <functional>
#include <map>
#include <memory>
#include <mutex>
#include <thread>
#include <veriblock/pop/time.hpp>
#define private public
#include <veriblock/pop/cache/small_lfru_cache.hpp>
#undef private
#include <veriblock/pop/crypto/progpow.hpp>
#include <veriblock/pop/crypto/progpow/cache.hpp>
#include <veriblock/pop/crypto/progpow/ethash.hpp>
#include <veriblock/pop/entities/vbkblock.hpp>
#include <veriblock/pop/hashutil.hpp>
#include <veriblock/pop/third_party/lru_cache.hpp>

#include "common.hpp"
using namespace altintegration;

static uint64_t mix64(uint64_t z) {
  z += 0x9E3779B97F4A7C15ULL;
  z = (z ^ (z >> 30)) * 0xBF58476D1CE4E5B9ULL;
  z = (z ^ (z >> 27)) * 0x94D049BB133111EBULL;
  return z ^ (z >> 31);
}
static uint64_t fval(uint64_t k) { return (k * 2654435761ULL + 12345) & 0xffffffffULL; }

template <size_t Size, size_t TW>
static std::string run_lfru(const std::string& id, const std::vector<std::string>& ops) {
  cache::SmallLFRUCache<uint64_t, uint64_t, Size, TW> c;
  std::string vals, pol;
  for (auto& o : ops) {
    if (o == "c") {
      c.clear();
      pol += " c";
      continue;
    }
    auto at = o.find('@');
    uint64_t key = std::stoull(o.substr(1, at - 1));
    setMockTime((uint32_t)std::stoul(o.substr(at + 1)));
    int calls = 0;
    auto v = c.getOrDefault(key, [&] { calls++; return std::make_shared<uint64_t>(fval(key)); });
    if (!v || *v != fval(key)) vh::oracle_fail(id, "lfru returned " + (v ? std::to_string(*v) : "null") + " for key " + std::to_string(key));
    vals += " " + (v ? std::to_string(*v) : std::string("null"));
    if (calls == 0) pol += " h";
    else {
      size_t slot = 999;
      for (size_t i = 0; i < c.size_; i++) if (c.container_[i].key == key) { slot = i; break; }
      pol += " m" + std::to_string(slot);
    }
    if (c.size_ > Size) vh::oracle_fail(id, "lfru holds more than Size entries");
    for (size_t i = 0; i < c.size_; i++) for (size_t j = i + 1; j < c.size_; j++)
      if (c.container_[i].key == c.container_[j].key) vh::oracle_fail(id, "lfru duplicate key");
  }
  std::cout << id << ".p" << pol << "\n";
  return std::to_string(ops.size()) + vals;
}

static std::string run_lru(const std::string& id, size_t maxsize, size_t elast, const std::vector<std::string>& ops) {
  lru11::Cache<uint64_t, uint64_t, std::mutex> c(maxsize, elast);
  std::string vals, pol;
  for (auto& o : ops) {
    if (o == "c") { c.clear(); pol += " c"; continue; }
    uint64_t key = std::stoull(o.substr(1));
    if (o[0] == 'i') { c.insert(key, fval(key)); pol += " i"; }
    else {
      uint64_t v = 0;
      if (c.tryGet(key, v)) {
        if (v != fval(key)) vh::oracle_fail(id, "lru returned " + std::to_string(v) + " for key " + std::to_string(key));
        vals += " " + std::to_string(v);
        pol += " h";
      } else pol += " m";
    }
    if (maxsize != 0 && c.size() > maxsize + elast) vh::oracle_fail(id, "lru exceeds maxSize+elasticity");
  }
  pol += " /";
  auto walk = [&pol](const lru11::KeyValuePair<uint64_t, uint64_t>& kv) { pol += " " + std::to_string(kv.key); };
  c.cwalk(walk);
  std::cout << id << ".p" << pol << "\n";
  return std::to_string(ops.size()) + vals;
}

static std::string run_lrumt(const std::string& id, int threads, uint64_t seed, int n) {
  lru11::Cache<uint64_t, uint64_t, std::mutex> c(8, 2);
  std::atomic<int> bad{0};
  std::vector<std::thread> ts;
  for (int t = 0; t < threads; t++) ts.emplace_back([&, t] {
    for (int i = 0; i < n; i++) {
      uint64_t r = mix64(seed + t * 1000003ULL + i);
      uint64_t key = r % 24;
      if ((r >> 20) % 3 == 0) c.insert(key, fval(key));
      else if ((r >> 20) % 97 == 1) c.clear();
      else { uint64_t v; if (c.tryGet(key, v) && v != fval(key)) bad++; }
    }
  });
  for (auto& t : ts) t.join();
  if (bad) vh::oracle_fail(id, "concurrent lru returned a value outside the graph of f");
  return "ok";
}

// ---- (b) progpow ----
static std::vector<uint8_t> header_of(uint32_t e, uint32_t k, uint64_t seed) {
  VbkBlock b;
  b.setHeight((int32_t)(e * VBK_ETHASH_EPOCH_LENGTH + 17 + k));
  b.setVersion(2);
  uint8_t buf[16];
  uint64_t r = mix64(seed ^ mix64(e * 1000 + k));
  for (int i = 0; i < 16; i++) buf[i] = (uint8_t)(mix64(r + i) & 0xff);
  b.setPreviousBlock(uint96(Slice<const uint8_t>(buf, 12)));
  b.setPreviousKeystone(VbkBlock::keystone_t(Slice<const uint8_t>(buf, 9)));
  b.setSecondPreviousKeystone(VbkBlock::keystone_t(Slice<const uint8_t>(buf + 4, 9)));
  b.setMerkleRoot(uint128(Slice<const uint8_t>(buf, 16)));
  b.setTimestamp(1600000000u + k);
  b.setDifficulty(0x0101ffff);
  b.setNonce(r & 0xffffffffffULL);
  return b.toRaw();
}

static std::mutex g_lightmu;
static std::map<uint64_t, std::shared_ptr<progpow::ethash_cache>> g_light;
// the pure function, evaluated without the epoch cache and without the header cache
static uint192 cold(const std::vector<uint8_t>& hdr) {
  int64_t height = ((int64_t)hdr[0] << 24) | (hdr[1] << 16) | (hdr[2] << 8) | hdr[3];
  uint64_t epoch = progpow::ethashGetEpoch(height);
  std::shared_ptr<progpow::ethash_cache> l;
  {
    std::lock_guard<std::mutex> g(g_lightmu);
    auto it = g_light.find(epoch);
    if (it == g_light.end()) it = g_light.emplace(epoch, progpow::ethash_make_cache(height)).first;
    l = it->second;
  }
  return progPowHash(hdr, l.get());
}

template <size_t N>
struct TinyEthash : public EthashCacheI {
  std::shared_ptr<CacheEntry> getOrDefault(uint64_t epoch, std::function<std::shared_ptr<CacheEntry>()> factory) override {
    return c.getOrDefault(epoch, factory);
  }
  void clear() override { c.clear(); }
  cache::SmallLFRUCache<uint64_t, CacheEntry, N> c{};
};
struct TinyHeader : public ProgpowHeaderCacheI {
  TinyHeader(size_t m, size_t e) : c(m, e) {}
  void insert(const uint256& key, uint192 value) override { c.insert(key, value); }
  bool tryGet(const uint256& key, uint192& value) override { return c.tryGet(key, value); }
  void clear() override { c.clear(); }
  lru11::Cache<uint256, uint192, std::mutex> c;
};

static std::atomic<int> g_bad{0};
static void expect_eq(const std::string& id, const uint192& got, const uint192& want, const std::string& what) {
  if (!(got == want)) {
    g_bad++;
    static std::mutex m;
    std::lock_guard<std::mutex> g(m);
    vh::oracle_fail(id, what + " got=" + got.toHex() + " want=" + want.toHex());
  }
}

static VbkBlock block_of(const std::vector<uint8_t>& raw) {
  VbkBlock b;
  ReadStream rs(raw);
  ValidationState st;
  DeserializeFromRaw(rs, b, st);
  return b;
}

static void flip_test(const std::string& id, const std::vector<uint8_t>& raw) {
  VbkBlock b = block_of(raw);
  uint192 h0 = b.getHash();
  expect_eq(id, h0, cold(raw), "getHash of fresh block");
  expect_eq(id, b.getHash(), h0, "second getHash (memo)");
  for (int field = 0; field < 9; field++) {
    VbkBlock c = b;  // copies the memo too
    switch (field) {
      case 0: c.setHeight(c.getHeight() ^ 1); break;
      case 1: c.setVersion((int16_t)(c.getVersion() ^ 1)); break;
      case 2: { auto x = c.getPreviousBlock().asVector(); x[0] ^= 1; c.setPreviousBlock(uint96(x)); break; }
      case 3: { auto x = c.getPreviousKeystone().asVector(); x[1] ^= 2; c.setPreviousKeystone(VbkBlock::keystone_t(x)); break; }
      case 4: { auto x = c.getSecondPreviousKeystone().asVector(); x[2] ^= 4; c.setSecondPreviousKeystone(VbkBlock::keystone_t(x)); break; }
      case 5: { auto x = c.getMerkleRoot().asVector(); x[3] ^= 8; c.setMerkleRoot(uint128(x)); break; }
      case 6: c.setTimestamp(c.getTimestamp() ^ 16); break;
      case 7: c.setDifficulty(c.getDifficulty() ^ 32); break;
      case 8: c.setNonce(c.getNonce() ^ 64); break;
    }
    auto raw2 = c.toRaw();
    uint192 want = cold(raw2);
    uint192 got = c.getHash();
    expect_eq(id, got, want, "getHash after setter #" + std::to_string(field));
    if (got == h0) { g_bad++; vh::oracle_fail(id, "hash unchanged after flipping field #" + std::to_string(field)); }
    // the free function on the modified header, through the caches
    expect_eq(id, progPowHash(raw2), want, "progPowHash of header with flipped field #" + std::to_string(field));
    // precomputed-hash path: deserialisation with the (true) hash supplied
    VbkBlock d;
    ReadStream rs(raw2);
    ValidationState st;
    DeserializeFromRaw(rs, d, st, want);
    expect_eq(id, d.getHash(), want, "getHash of block deserialised with precalculated hash");
    d.setNonce(d.getNonce() ^ 1);
    expect_eq(id, d.getHash(), cold(d.toRaw()), "getHash after setter on a block with precalculated hash");
  }
}

// one VbkBlock OBJECT reused through a sequence of operations; after every step getHash/getId/getShortHash must be
// the cache-free hash of the bytes the object now holds.
//   g getHash | s<field 0..8> setter | p setPrecalculatedHash(true hash)
//   d<e>.<k> DeserializeFromRaw into the object | D<e>.<k> same with the precalculated (true) hash
//   v<e>.<k> / V<e>.<k> DeserializeFromVbkEncoding without / with precalculated hash
//   a<e>.<k> copy-assign from a fresh block | A<e>.<k> copy-assign from a block that memoised its hash
//   m<e>.<k> move-assign from a block that memoised its hash
static std::string run_blk(const std::string& id, uint64_t seed, const std::vector<std::string>& ops) {
  setEthashCache(std::unique_ptr<EthashCacheI>(new TinyEthash<6>()));
  setProgpowHeaderCache(std::unique_ptr<ProgpowHeaderCacheI>(new TinyHeader(8, 1)));
  g_bad = 0;
  VbkBlock b = block_of(header_of(0, 1, seed));
  int step = 0;
  for (auto& o : ops) {
    step++;
    std::vector<uint8_t> hdr;
    if (o.size() > 1 && o.find('.') != std::string::npos) {
      auto dot = o.find('.');
      hdr = header_of((uint32_t)std::stoul(o.substr(1, dot - 1)), (uint32_t)std::stoul(o.substr(dot + 1)), seed);
    }
    ValidationState st;
    switch (o[0]) {
      case 'g': break;
      case 's': {
        int field = o[1] - '0';
        switch (field) {
          case 0: b.setHeight(b.getHeight() ^ 1); break;
          case 1: b.setVersion((int16_t)(b.getVersion() ^ 1)); break;
          case 2: { auto x = b.getPreviousBlock().asVector(); x[0] ^= 1; b.setPreviousBlock(uint96(x)); break; }
          case 3: { auto x = b.getPreviousKeystone().asVector(); x[1] ^= 2; b.setPreviousKeystone(VbkBlock::keystone_t(x)); break; }
          case 4: { auto x = b.getSecondPreviousKeystone().asVector(); x[2] ^= 4; b.setSecondPreviousKeystone(VbkBlock::keystone_t(x)); break; }
          case 5: { auto x = b.getMerkleRoot().asVector(); x[3] ^= 8; b.setMerkleRoot(uint128(x)); break; }
          case 6: b.setTimestamp(b.getTimestamp() ^ 16); break;
          case 7: b.setDifficulty(b.getDifficulty() ^ 32); break;
          default: b.setNonce(b.getNonce() ^ 64); break;
        }
        break;
      }
      case 'p': setPrecalculatedHash(b, cold(b.toRaw())); break;
      case 'd': { ReadStream rs(hdr); DeserializeFromRaw(rs, b, st); break; }
      case 'D': { ReadStream rs(hdr); DeserializeFromRaw(rs, b, st, cold(hdr)); break; }
      case 'v': case 'V': {
        WriteStream w;
        block_of(hdr).toVbkEncoding(w);
        ReadStream rs(w.data());
        if (o[0] == 'v') DeserializeFromVbkEncoding(rs, b, st);
        else DeserializeFromVbkEncoding(rs, b, st, cold(hdr));
        break;
      }
      case 'a': { VbkBlock src = block_of(hdr); b = src; break; }
      case 'A': { VbkBlock src = block_of(hdr); src.getHash(); b = src; break; }
      case 'm': { VbkBlock src = block_of(hdr); src.getHash(); b = std::move(src); break; }
      default: return "UNKNOWN-BLK-OP";
    }
    auto raw = b.toRaw();
    if (!hdr.empty() && raw != hdr) { g_bad++; vh::oracle_fail(id, "step " + std::to_string(step) + " " + o + ": object does not hold the deserialised/assigned header"); }
    uint192 want = cold(raw);
    std::string at = "step " + std::to_string(step) + " (" + o + ")";
    expect_eq(id, b.getHash(), want, "getHash at " + at);
    if (!(b.getShortHash() == want.trimLE<VbkBlock::short_hash_t::size()>())) { g_bad++; vh::oracle_fail(id, "getShortHash/getId at " + at); }
    // a second object holding identical bytes must report the identical hash
    expect_eq(id, block_of(raw).getHash(), b.getHash(), "fresh object with identical bytes at " + at);
  }
  return g_bad ? "bad" : "ok " + std::to_string(ops.size());
}

static std::string run_pow(const std::string& id, int threads, int ethsize, size_t hdrsize, uint64_t seed,
                           const std::vector<std::string>& ops) {
  if (ethsize == 1) setEthashCache(std::unique_ptr<EthashCacheI>(new TinyEthash<1>()));
  else if (ethsize == 2) setEthashCache(std::unique_ptr<EthashCacheI>(new TinyEthash<2>()));
  else setEthashCache(std::unique_ptr<EthashCacheI>(new TinyEthash<6>()));
  setProgpowHeaderCache(std::unique_ptr<ProgpowHeaderCacheI>(new TinyHeader(hdrsize, hdrsize ? 1 : 0)));
  g_bad = 0;
  auto one = [&](const std::string& o) {
    if (o == "C") { progpow::clearHeaderCache(); return; }
    if (o == "E") { progpow::clearEthashCache(); return; }
    auto dot = o.find('.');
    uint32_t e = (uint32_t)std::stoul(o.substr(1, dot - 1)), k = (uint32_t)std::stoul(o.substr(dot + 1));
    auto hdr = header_of(e, k, seed);
    if (o[0] == 'h') expect_eq(id, progPowHash(hdr), cold(hdr), "progPowHash " + o);
    else if (o[0] == 'P') progpow::insertHeaderCacheEntry(hdr, cold(hdr));
    else if (o[0] == 'F') flip_test(id, hdr);
  };
  if (threads <= 1) {
    for (auto& o : ops) one(o);
  } else {
    // the cold references first (so that the threads contend on the caches, not on the reference builder)
    for (auto& o : ops) if (o.size() > 1) { auto dot = o.find('.'); cold(header_of((uint32_t)std::stoul(o.substr(1, dot - 1)), (uint32_t)std::stoul(o.substr(dot + 1)), seed)); }
    std::vector<std::thread> ts;
    for (int t = 0; t < threads; t++) ts.emplace_back([&, t] {
      for (size_t i = t; i < ops.size(); i += threads) one(ops[i]);
      // and every thread re-requests everything in a rotated order
      for (size_t i = 0; i < ops.size(); i++) { auto& o = ops[(i + t * 7) % ops.size()]; if (o[0] == 'h') one(o); }
    });
    for (auto& t : ts) t.join();
  }
  return g_bad ? "bad" : "ok " + std::to_string(ops.size());
}

// ---- serialisation of getOrDefault by the ethash mutex ----
// An instrumented EthashCacheI (a real SmallLFRUCache behind an entry counter) is installed. Thread A requests a
// header of an uncached epoch; INSIDE the factory it releases thread B and waits a bounded time; B requests a header
// of another uncached epoch. With the mutex held around getOrDefault B blocks until A has left and max_inside == 1;
// if B gets in while A is inside, max_inside == 2: the mutex does not serialise getOrDefault. A slow machine can only
// hide the overlap, never fake it. The epoch entries are small synthetic light caches (the kernel and DAG code are
// the real ones), so the scenario is cheap under TSan; results are compared with progPowHash(header, light).
namespace altintegration { namespace progpow { std::vector<uint32_t> createDagCache(ethash_cache* light); } }

struct Latch {
  std::mutex m; std::condition_variable cv; bool set = false;
  void signal() { { std::lock_guard<std::mutex> g(m); set = true; } cv.notify_all(); }
  bool wait_ms(int ms) { std::unique_lock<std::mutex> g(m); return cv.wait_for(g, std::chrono::milliseconds(ms), [this] { return set; }); }
};

static std::shared_ptr<progpow::ethash_cache> fake_light(uint64_t epoch) {
  static std::mutex mu;
  static std::map<uint64_t, std::shared_ptr<progpow::ethash_cache>> all;
  std::lock_guard<std::mutex> g(mu);
  auto it = all.find(epoch);
  if (it != all.end()) return it->second;
  const size_t bytes = 64 * 1024;
  uint64_t* mem = (uint64_t*)malloc(bytes);
  for (size_t i = 0; i < bytes / 8; i++) mem[i] = mix64(epoch * 1000003ULL + i);
  std::shared_ptr<progpow::ethash_cache> l(new progpow::ethash_cache{mem, bytes, epoch},
                                           [](progpow::ethash_cache* c) { free(c->cache); delete c; });
  all[epoch] = l;
  return l;
}

struct SerialProbe : public EthashCacheI {
  cache::SmallLFRUCache<uint64_t, CacheEntry, 2> c{};
  std::atomic<int> inside{0}, max_inside{0}, calls{0};
  Latch a_inside, b_entered;
  std::shared_ptr<CacheEntry> getOrDefault(uint64_t epoch, std::function<std::shared_ptr<CacheEntry>()>) override {
    int n = ++inside;
    int m = max_inside.load();
    while (n > m && !max_inside.compare_exchange_weak(m, n)) {}
    if (n >= 2) b_entered.signal();
    bool first = (calls++ == 0);
    auto r = c.getOrDefault(epoch, [&]() {
      if (first) {
        a_inside.signal();
        b_entered.wait_ms(300);   // bounded: with correct locking nobody can enter, the wait simply expires
      }
      auto e = std::make_shared<CacheEntry>();
      e->light = fake_light(epoch);
      e->dag = progpow::createDagCache(e->light.get());
      return e;
    });
    --inside;
    return r;
  }
  void clear() override { c.clear(); }
};

static std::string run_serial(const std::string& id, uint64_t seed, int iterations) {
  g_bad = 0;
  for (int it = 0; it < iterations; it++) {
    auto* probe = new SerialProbe();
    setEthashCache(std::unique_ptr<EthashCacheI>(probe));
    setProgpowHeaderCache(std::unique_ptr<ProgpowHeaderCacheI>(new TinyHeader(8, 1)));
    auto ha = header_of(2 * it, 1, seed), hb = header_of(2 * it + 1, 2, seed);
    uint192 ra, rb;
    std::thread ta([&] { ra = progPowHash(ha); });
    std::thread tb([&] {
      probe->a_inside.wait_ms(20000);
      rb = progPowHash(hb);
    });
    ta.join();
    tb.join();
    auto ref = [](const std::vector<uint8_t>& h) {
      int64_t height = ((int64_t)h[0] << 24) | (h[1] << 16) | (h[2] << 8) | h[3];
      return progPowHash(h, fake_light(progpow::ethashGetEpoch(height)).get());
    };
    expect_eq(id, ra, ref(ha), "thread A result");
    expect_eq(id, rb, ref(hb), "thread B result");
    expect_eq(id, progPowHash(hb), ref(hb), "re-request of B's header");
    auto hc = header_of(2 * it + 1, 3, seed);
    expect_eq(id, progPowHash(hc), ref(hc), "another header of B's epoch");
    if (probe->max_inside.load() > 1) {
      g_bad++;
      vh::oracle_fail(id, "epoch cache entered concurrently (max_inside=" + std::to_string(probe->max_inside.load()) +
                              "): the mutex does not serialise getOrDefault");
    }
    // leave no pointer to the probe behind
    setEthashCache(std::unique_ptr<EthashCacheI>(new TinyEthash<6>()));
  }
  return g_bad ? "bad" : "ok";
}

static std::string run_powhit(const std::string& id, int threads, uint64_t seed, int n) {
  setProgpowHeaderCache(std::unique_ptr<ProgpowHeaderCacheI>(new TinyHeader(100000, 1000)));
  const int K = 64;
  std::vector<std::vector<uint8_t>> hdrs;
  std::vector<uint192> vals;
  for (int k = 0; k < K + threads * n; k++) {
    hdrs.push_back(header_of(k % 5, k, seed));
    uint8_t h[24];
    for (int i = 0; i < 24; i++) h[i] = (uint8_t)(mix64(seed + k * 131 + i) & 0xff);
    vals.push_back(uint192(Slice<const uint8_t>(h, 24)));
  }
  for (int k = 0; k < K; k++) progpow::insertHeaderCacheEntry(hdrs[k], vals[k]);
  g_bad = 0;
  std::vector<std::thread> ts;
  for (int t = 0; t < threads; t++) ts.emplace_back([&, t] {
    for (int i = 0; i < n; i++) {
      uint64_t r = mix64(seed ^ (t * 7919ULL + i));
      int own = K + t * n + i;  // a header only this thread knows
      progpow::insertHeaderCacheEntry(hdrs[own], vals[own]);
      int k = (int)(r % K);
      expect_eq(id, progPowHash(hdrs[k]), vals[k], "header-cache hit");
      expect_eq(id, progPowHash(hdrs[own]), vals[own], "header-cache hit (own entry)");
      VbkBlock b = block_of(hdrs[k]);
      expect_eq(id, b.getHash(), vals[k], "VbkBlock::getHash through the header cache");
    }
  });
  for (auto& t : ts) t.join();
  progpow::clearHeaderCache();
  return g_bad ? "bad" : "ok";
}

// ---- (c) round 2: the hashed byte string and lru11 as a lossy map ----
//   <id> hdr <height> <version> <prev:12B hex> <ks1:9B> <ks2:9B> <merkle:16B> <ts> <diff> <nonce>   (hex, '-' = negative)
//        -> "<id> <toRaw hex> <epoch the real progPowHashImpl asked the epoch cache for>"
//        oracles: header-cache key == sha256twice(toRaw); DeserializeFromRaw(toRaw) == block iff nonce < 2^40;
//   <id> lrum <maxsize> <elast> <ops..>   ops: i<key>.<value> | t<key> | c   (ARBITRARY values, keys re-bound)
//        -> "<id> <per op: i | c | m | v<value>> / <size>"
struct EpochSeen { uint64_t epoch; };
struct EpochProbe : public EthashCacheI {
  // records the epoch and leaves progPowHashImpl by an exception: the kernel itself asserts on epochs beyond
  // VBK_MAX_CALCULATED_EPOCHS_SIZE, and arbitrary heights are wanted here
  std::shared_ptr<CacheEntry> getOrDefault(uint64_t epoch, std::function<std::shared_ptr<CacheEntry>()>) override {
    throw EpochSeen{epoch};
  }
  void clear() override {}
};
struct KeyProbe : public ProgpowHeaderCacheI {
  std::vector<uint256>* keys;
  explicit KeyProbe(std::vector<uint256>* k) : keys(k) {}
  void insert(const uint256& key, uint192) override { keys->push_back(key); }
  bool tryGet(const uint256& key, uint192&) override { keys->push_back(key); return false; }
  void clear() override {}
};

static std::string run_hdr(const std::string& id, const std::vector<std::string>& a) {
  VbkBlock b;
  b.setHeight((int32_t)vh::parse_hex64s(a[0]));
  b.setVersion((int16_t)vh::parse_hex64s(a[1]));
  b.setPreviousBlock(uint96(vh::unhex(a[2])));
  b.setPreviousKeystone(VbkBlock::keystone_t(vh::unhex(a[3])));
  b.setSecondPreviousKeystone(VbkBlock::keystone_t(vh::unhex(a[4])));
  b.setMerkleRoot(uint128(vh::unhex(a[5])));
  b.setTimestamp((uint32_t)vh::parse_hex64(a[6]));
  b.setDifficulty((int32_t)vh::parse_hex64s(a[7]));
  uint64_t nonce = vh::parse_hex64(a[8]);
  b.setNonce(nonce);
  std::vector<uint8_t> raw = b.toRaw();
  std::vector<uint256> keys;
  setEthashCache(std::unique_ptr<EthashCacheI>(new EpochProbe()));
  setProgpowHeaderCache(std::unique_ptr<ProgpowHeaderCacheI>(new KeyProbe(&keys)));
  std::string epoch = "none";
  try { b.getHash(); } catch (const EpochSeen& e) { epoch = vh::hexnum(e.epoch); }
  uint256 k = sha256twice(raw);
  if (keys.size() != 1 || !(keys[0] == k))
    vh::oracle_fail(id, "header-cache key is not sha256twice(toRaw()) (" + std::to_string(keys.size()) + " cache calls)");
  VbkBlock back = block_of(raw);
  bool same = (back == b);
  if (same != (nonce < (1ULL << 40)))
    vh::oracle_fail(id, std::string("DeserializeFromRaw(toRaw(b)) ") + (same ? "==" : "!=") + " b with nonce " + vh::hexnum(nonce));
  setEthashCache(std::unique_ptr<EthashCacheI>(new TinyEthash<6>()));
  setProgpowHeaderCache(std::unique_ptr<ProgpowHeaderCacheI>(new TinyHeader(8, 1)));
  return vh::hex(raw) + " " + epoch;
}

static std::string run_lrum(const std::string&, size_t maxsize, size_t elast, const std::vector<std::string>& ops) {
  lru11::Cache<uint64_t, uint64_t, std::mutex> c(maxsize, elast);
  std::string out;
  for (auto& o : ops) {
    if (o == "c") { c.clear(); out += " c"; continue; }
    if (o[0] == 'i') {
      auto dot = o.find('.');
      c.insert(std::stoull(o.substr(1, dot - 1)), std::stoull(o.substr(dot + 1)));
      out += " i";
    } else {
      uint64_t v = 0;
      if (c.tryGet(std::stoull(o.substr(1)), v)) out += " v" + std::to_string(v);
      else out += " m";
    }
  }
  return out.substr(out.empty() ? 0 : 1) + " / " + std::to_string(c.size());
}

int main() {
  return vh::main_loop([](const std::string& id, const std::string& op, const std::vector<std::string>& a) -> std::string {
    std::cout.flush();
    if (op == "lfru") {
      size_t size = std::stoul(a[0]), tw = std::stoul(a[1]);
      std::vector<std::string> ops(a.begin() + 2, a.end());
#define CASE(S, T) if (size == S && tw == T) return run_lfru<S, T>(id, ops);
      CASE(1, 5) CASE(2, 5) CASE(3, 5) CASE(6, 5) CASE(1, 600) CASE(2, 600) CASE(3, 600) CASE(6, 600)
#undef CASE
      return "UNSUPPORTED-SIZE";
    }
    if (op == "lru") return run_lru(id, std::stoul(a[0]), std::stoul(a[1]), std::vector<std::string>(a.begin() + 2, a.end()));
    if (op == "lrumt") return run_lrumt(id, std::stoi(a[0]), std::stoull(a[1]), std::stoi(a[2]));
    if (op == "pow") return run_pow(id, std::stoi(a[0]), std::stoi(a[1]), std::stoul(a[2]), std::stoull(a[3]),
                                    std::vector<std::string>(a.begin() + 4, a.end()));
    if (op == "blk") return run_blk(id, std::stoull(a[0]), std::vector<std::string>(a.begin() + 1, a.end()));
    if (op == "serial") return run_serial(id, std::stoull(a[0]), std::stoi(a[1]));
    if (op == "powhit") return run_powhit(id, std::stoi(a[0]), std::stoull(a[1]), std::stoi(a[2]));
    if (op == "hdr") return run_hdr(id, a);
    if (op == "lrum") return run_lrum(id, std::stoul(a[0]), std::stoul(a[1]), std::vector<std::string>(a.begin() + 2, a.end()));
    return "UNKNOWN-OP";
  });
}
