// C03 harness: internal::comparePopScoreImpl instantiated on synthetic publication
// views (same interface as ReducedPublicationView, built on the library's
// keystone_util functions), the keystone_util functions themselves, and the
// default fork-resolution parameters of the linked library.
#include <fcntl.h>
#include <sys/wait.h>
#include <unistd.h>

#include <veriblock/pop/blockchain/alt_chain_params.hpp>
#include <veriblock/pop/blockchain/pop/fork_resolution.hpp>
#include <veriblock/pop/blockchain/vbk_chain_params.hpp>
#include <veriblock/pop/keystone_util.hpp>

#include "common.hpp"
using namespace altintegration;

struct Cfg {
  uint32_t fd = 0;
  std::vector<uint32_t> table;
  uint32_t ki = 1;
  uint32_t getFinalityDelay() const noexcept { return fd; }
  const std::vector<uint32_t>& getForkResolutionLookUpTable() const noexcept { return table; }
  uint32_t getKeystoneInterval() const noexcept { return ki; }
};

// what ReducedPublicationView offers to comparePopScoreImpl, over a list of slots
struct View {
  const Cfg& config;
  const int keystoneInterval;
  const int firstKeystoneHeight;
  const int lastKeystoneHeight;
  std::vector<std::pair<bool, int>> slots;  // (getKeystone != nullptr, firstBlockPublicationHeight)
  internal::KeystoneContext currentKeystoneContext{0, 0};

  View(const Cfg& c, int first, std::vector<std::pair<bool, int>> s)
      : config(c),
        keystoneInterval((int)c.getKeystoneInterval()),
        firstKeystoneHeight(first),
        lastKeystoneHeight(first + ((int)s.size() - 1) * (int)c.getKeystoneInterval()),
        slots(std::move(s)) {}

  const Cfg& getConfig() const { return config; }
  size_t size() const {
    return blockHeightToKeystoneNumber(lastKeystone(), keystoneInterval) -
           blockHeightToKeystoneNumber(firstKeystone(), keystoneInterval) + 1;
  }
  bool empty() const { return size() == 0; }
  int firstKeystone() const { return firstKeystoneHeight; }
  int lastKeystone() const { return lastKeystoneHeight; }
  int nextKeystoneAfter(int keystoneHeight) const {
    VBK_ASSERT(isKeystone(keystoneHeight, keystoneInterval));
    return keystoneHeight + keystoneInterval;
  }
  const internal::KeystoneContext* getKeystone(int blockHeight) {
    VBK_ASSERT(isKeystone(blockHeight, keystoneInterval));
    if (blockHeight < firstKeystone() || blockHeight > lastKeystone()) return nullptr;
    const auto& s = slots[(blockHeight - firstKeystoneHeight) / keystoneInterval];
    if (!s.first) return nullptr;
    currentKeystoneContext = internal::KeystoneContext{blockHeight, s.second};
    return &currentKeystoneContext;
  }
};

static std::vector<uint32_t> csv_u32(const std::string& s) {
  std::vector<uint32_t> r;
  if (s == "-") return r;
  std::stringstream ss(s);
  std::string t;
  while (std::getline(ss, t, ',')) r.push_back((uint32_t)vh::parse_hex64(t));
  return r;
}
static std::vector<std::pair<bool, int>> csv_slots(const std::string& s) {
  std::vector<std::pair<bool, int>> r;
  if (s == "-") return r;
  std::stringstream ss(s);
  std::string t;
  while (std::getline(ss, t, ',')) {
    if (t == "n") r.emplace_back(false, 0);
    else r.emplace_back(true, (int)vh::parse_hex64s(t));
  }
  return r;
}

static int run_cmp(const Cfg& c, int first, const std::vector<std::pair<bool, int>>& a,
                   const std::vector<std::pair<bool, int>>& b) {
  View A(c, first, a), B(c, first, b);
  return internal::comparePopScoreImpl(A, B);
}
static int sgn(int v) { return (v > 0) - (v < 0); }

// direct oracle on the implementation: antisymmetry under role swap, 0 without keystones
static int cmp_with_oracle(const std::string& id, const Cfg& c, int first, const std::vector<std::pair<bool, int>>& a,
                           const std::vector<std::pair<bool, int>>& b, const std::string& what) {
  int r = run_cmp(c, first, a, b);
  int r2 = run_cmp(c, first, b, a);
  if ((int64_t)r2 != -(int64_t)r)
    vh::oracle_fail(id, "antisymmetry: cmp(A,B)=" + std::to_string(r) + " cmp(B,A)=" + std::to_string(r2) + " " + what);
  if (a.empty() && b.empty() && r != 0) vh::oracle_fail(id, "no keystone on either chain but verdict " + std::to_string(r));
  return r;
}

// run f in a child process when it may hit VBK_ASSERT (std::terminate): "abort" if the child died on SIGABRT
template <typename F>
static std::string guarded(bool risky, F f) {
  if (!risky) return "ok:" + f();
  int fds[2];
  if (pipe(fds) != 0) return "pipe-failed";
  fflush(stdout);
  std::cout.flush();
  pid_t p = fork();
  if (p == 0) {
    close(fds[0]);
    int dn = open("/dev/null", 1);
    if (dn >= 0) dup2(dn, 2);
    std::string r = f();
    ssize_t w = write(fds[1], r.data(), r.size());
    (void)w;
    _exit(0);
  }
  close(fds[1]);
  std::string out;
  char buf[64];
  ssize_t n;
  while ((n = read(fds[0], buf, sizeof buf)) > 0) out.append(buf, (size_t)n);
  close(fds[0]);
  int st = 0;
  waitpid(p, &st, 0);
  if (WIFSIGNALED(st)) return WTERMSIG(st) == SIGABRT ? "abort" : "signal" + std::to_string(WTERMSIG(st));
  return "ok:" + out;
}

static std::vector<std::vector<std::pair<bool, int>>> profiles(int maxk, const std::vector<uint32_t>& hs, bool holes) {
  // same order as the model driver: by length, then lexicographic, "none" first
  std::vector<std::pair<bool, int>> vals;
  vals.emplace_back(!holes, internal::NO_ENDORSEMENT);  // none: nullptr (holes) or NO_ENDORSEMENT context (real)
  for (auto h : hs) vals.emplace_back(true, (int)h);
  std::vector<std::vector<std::pair<bool, int>>> out;
  for (int k = 0; k <= maxk; k++) {
    std::vector<size_t> idx(k, 0);
    while (true) {
      std::vector<std::pair<bool, int>> p;
      for (int i = 0; i < k; i++) p.push_back(vals[idx[i]]);
      out.push_back(p);
      int i = k - 1;
      while (i >= 0 && ++idx[i] == vals.size()) { idx[i] = 0; i--; }
      if (i < 0) break;
    }
  }
  return out;
}

int main() {
  return vh::main_loop([](const std::string& id, const std::string& op, const std::vector<std::string>& a) -> std::string {
    if (op == "cmp") {
      Cfg c;
      c.fd = (uint32_t)vh::parse_hex64(a[0]);
      c.table = csv_u32(a[1]);
      c.ki = (uint32_t)vh::parse_hex64(a[2]);
      int first = (int)vh::parse_hex64(a[3]);
      auto A = csv_slots(a[4]), B = csv_slots(a[5]);
      return "ok:" + vh::hexnum_s(cmp_with_oracle(id, c, first, A, B, ""));
    }
    if (op == "sweep") {
      Cfg c;
      bool holes = a[0] == "pub";
      c.fd = (uint32_t)vh::parse_hex64(a[1]);
      c.table = csv_u32(a[2]);
      c.ki = (uint32_t)vh::parse_hex64(a[3]);
      int maxk = std::stoi(a[4]);
      auto ps = profiles(maxk, csv_u32(a[5]), holes);
      size_t lo = std::stoul(a[6]), hi = std::min(ps.size(), (size_t)std::stoul(a[7]));
      uint64_t h = 0, cnt = 0;
      for (size_t i = lo; i < hi; i++)
        for (size_t j = 0; j < ps.size(); j++) {
          cnt++;
          int r = cmp_with_oracle(id, c, (int)c.ki, ps[i], ps[j], "at profile pair " + std::to_string(i) + "," + std::to_string(j));
          h = ((h * 1000003ULL) ^ (uint64_t)(uint32_t)r) & 0x3fffffffffffffffULL;
        }
      return vh::hexnum(h) + " " + std::to_string(cnt);
    }
    if (op == "k2") {
      int32_t h = (int32_t)vh::parse_hex64s(a[0]);
      uint32_t ki = (uint32_t)vh::parse_hex64(a[1]);
      bool risky = h < 0;
      std::string r;
      r += guarded(risky, [&] { return vh::hexnum_s(highestKeystoneAtOrBefore(h, ki)); }) + " ";
      r += guarded(false, [&] { return vh::hexnum_s(blockHeightToKeystoneNumber(h, ki)); }) + " ";
      r += guarded(risky, [&] { return std::string(isKeystone(h, ki) ? "1" : "0"); }) + " ";
      r += guarded(risky, [&] { return vh::hexnum_s(firstKeystoneAfter(h, ki)); }) + " ";
      r += guarded(true, [&] { return vh::hexnum_s(highestBlockWhichConnectsKeystoneToPrevious(h, ki)); });
      return r;
    }
    if (op == "k3") {
      int32_t x = (int32_t)vh::parse_hex64s(a[0]), y = (int32_t)vh::parse_hex64s(a[1]);
      uint32_t ki = (uint32_t)vh::parse_hex64(a[2]);
      std::string r;
      r += guarded(x < 0 || y < 0, [&] { return std::string(isCrossedKeystoneBoundary(x, y, ki) ? "1" : "0"); }) + " ";
      r += guarded(false, [&] { return std::string(areOnSameKeystoneInterval(x, y, ki) ? "1" : "0"); });
      return r;
    }
    if (op == "gpk") {
      int32_t h = (int32_t)vh::parse_hex64s(a[0]);
      uint32_t ki = (uint32_t)vh::parse_hex64(a[1]), n = (uint32_t)vh::parse_hex64(a[2]);
      return guarded(h < 2, [&] { return vh::hexnum_s(getPreviousKeystoneHeight(h, ki, n)); });
    }
    if (op == "params") {
      AltChainParamsRegTest alt;
      VbkChainParamsRegTest vbk;
      auto l = [](const std::vector<uint32_t>& t) {
        std::string s;
        for (size_t i = 0; i < t.size(); i++) s += (i ? "," : "") + vh::hexnum(t[i]);
        return s;
      };
      return "alt " + vh::hexnum(alt.getKeystoneInterval()) + " " + vh::hexnum(alt.getFinalityDelay()) + " " +
             l(alt.getForkResolutionLookUpTable()) + " vbk " + vh::hexnum(vbk.getKeystoneInterval()) + " " +
             vh::hexnum(vbk.getFinalityDelay()) + " " + l(vbk.getForkResolutionLookUpTable());
    }
    return "UNKNOWN-OP";
  });
}
