// C03 end-to-end harness: the shared World session (harness/world.hpp) plus
//   duel <X> <Y> <tipA> <tipB>   instance X has tipA active, instance Y has tipB active:
//                                prints "<X.cmp(tipB)> <Y.cmp(tipA)>" and evaluates the direct
//                                oracle on the implementation: the two verdicts have opposite signs
//                                (0 <-> 0), and 0 is returned when neither branch crosses a keystone
//                                boundary above their fork point
// Every line "<id> <op...>"; oracle failures are printed as "!<id> <text>".
//   begin ... ta=1               the VBK (security providing) parameters of this session report
//                                EnableTimeAdjustment() == true (regtest returns false, so the time-adjustment
//                                branch of internal::getKeystoneContext is otherwise never executed)
//   altts <a> <parent> <ts>      like `alt`, with an explicit ALT block timestamp (hex)
//   vts <v> / ats <a>            timestamp of a VBK / ALT block of the registry (hex)
//
// world.hpp (shared, not edited) derives its VBK parameters from VbkChainParamsRegTest. To switch time
// adjustment on without touching it, every library header it includes is included first (include guards make
// them no-ops later) and the name VbkChainParamsRegTest is redirected, for world.hpp only, to a subclass of the
// real regtest parameters whose EnableTimeAdjustment() reads a flag.
#include <veriblock/pop/alt-util.hpp>
#include <veriblock/pop/blockchain/alt_block_tree.hpp>
#include <veriblock/pop/blockchain/alt_chain_params.hpp>
#include <veriblock/pop/blockchain/btc_chain_params.hpp>
#include <veriblock/pop/blockchain/vbk_chain_params.hpp>
#include <veriblock/pop/bootstraps.hpp>
#include <veriblock/pop/keystone_util.hpp>
#include <veriblock/pop/logger.hpp>
#include <veriblock/pop/mempool.hpp>
#include <veriblock/pop/mock_miner.hpp>
#include <veriblock/pop/rewards/default_poprewards_calculator.hpp>
#include <veriblock/pop/storage/adaptors/block_provider_impl.hpp>
#include <veriblock/pop/storage/adaptors/inmem_storage_impl.hpp>
#include <veriblock/pop/storage/adaptors/payloads_provider_impl.hpp>
#include <veriblock/pop/storage/util.hpp>
#include <veriblock/pop/time.hpp>

namespace altintegration {
struct VbkRegTestTimeAdjustable : public VbkChainParamsRegTest {
  static bool& flag() {
    static bool f = false;
    return f;
  }
  bool EnableTimeAdjustment() const noexcept override { return flag(); }
};
}  // namespace altintegration

#define VbkChainParamsRegTest VbkRegTestTimeAdjustable
#include "world.hpp"
#undef VbkChainParamsRegTest

using namespace altintegration;

int main() {
  SetLogger<Logger>(LogLevel::off);
  setMockTime(1700000000);
  vw::Session s;
  return vh::main_loop([&](const std::string& id, const std::string& op, const std::vector<std::string>& a) {
    if (op == "begin") {
      bool ta = false;
      for (auto& x : a) if (x == "ta=1") ta = true;
      VbkRegTestTimeAdjustable::flag() = ta;
    }
    if (op == "altts") {
      if (!s.reg || a.size() != 3) return std::string("SKIP");
      auto& R = *s.reg;
      if (R.alt.count(a[0]) || !R.alt.count(a[1])) return std::string("SKIP");
      vw::AltInfo n;
      const auto& pb = R.alt[a[1]].block;
      n.block.hash = vw::Registry::altHash(std::stoi(a[0].substr(1)));
      n.block.height = pb.height + 1;
      n.block.previousBlock = pb.getHash();
      n.block.timestamp = (uint32_t)vh::parse_hex64(a[2]);
      n.parent = a[1];
      ValidationState st;
      if (!R.ref.acceptBlockHeader(n.block, st)) return "SKIP " + st.GetPath();
      R.alt[a[0]] = n;
      R.name(n.block.getHash(), a[0]);
      return std::string("ok");
    }
    if (op == "vts") {
      if (!s.reg || a.size() != 1 || !s.reg->vbk.count(a[0])) return std::string("SKIP");
      return vh::hexnum(s.reg->vbk.at(a[0]).getTimestamp());
    }
    if (op == "ats") {
      if (!s.reg || a.size() != 1 || !s.reg->alt.count(a[0])) return std::string("SKIP");
      return vh::hexnum(s.reg->alt.at(a[0]).block.timestamp);
    }
    if (op == "duel") {
      if (!s.reg || a.size() != 4) return std::string("SKIP");
      auto ix = s.inst.find(a[0]), iy = s.inst.find(a[1]);
      if (ix == s.inst.end() || iy == s.inst.end()) return std::string("SKIP noinst");
      vw::Instance& X = *ix->second;
      vw::Instance& Y = *iy->second;
      if (X.tip() != a[2] || Y.tip() != a[3]) return "SKIP tips " + X.tip() + " " + Y.tip();
      // facts for the "no keystone boundary" oracle, from the registry only
      auto pa = s.reg->ancestry(a[2]), pb = s.reg->ancestry(a[3]);
      size_t f = 0;
      while (f + 1 < pa.size() && f + 1 < pb.size() && pa[f + 1] == pb[f + 1]) f++;
      int forkH = s.reg->alt.at(pa[f]).block.height;
      int hA = s.reg->alt.at(a[2]).block.height, hB = s.reg->alt.at(a[3]).block.height;
      uint32_t ki = s.params->alt.getKeystoneInterval();
      bool crossed = isCrossedKeystoneBoundary(forkH, hA, ki) || isCrossedKeystoneBoundary(forkH, hB, ki);
      bool proper = pa[f] != a[2] && pa[f] != a[3];   // both tips strictly above the fork point
      std::string rx = X.compare(a[3]);
      std::string ry = Y.compare(a[2]);
      if (rx.rfind("SKIP", 0) == 0 || ry.rfind("SKIP", 0) == 0) return rx + " " + ry;
      int vx = std::stoi(rx), vy = std::stoi(ry);
      if (vx != -vy)
        vh::oracle_fail(id, "role swap: cmp(A active, B candidate)=" + rx + " but cmp(B active, A candidate)=" + ry);
      if (proper && !crossed && (vx != 0 || vy != 0))
        vh::oracle_fail(id, "neither branch crosses a keystone boundary but the verdicts are " + rx + " " + ry);
      return rx + " " + ry;
    }
    std::vector<std::string> t{op};
    t.insert(t.end(), a.begin(), a.end());
    return s.exec(t);
  });
}
