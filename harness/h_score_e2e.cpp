// C03 end-to-end harness: the shared World session (harness/world.hpp) plus
//   duel <X> <Y> <tipA> <tipB>   instance X has tipA active, instance Y has tipB active:
//                                prints "<X.cmp(tipB)> <Y.cmp(tipA)>" and evaluates the direct
//                                oracle on the implementation: the two verdicts have opposite signs
//                                (0 <-> 0), and 0 is returned when neither branch crosses a keystone
//                                boundary above their fork point
// Every line "<id> <op...>"; oracle failures are printed as "!<id> <text>".
#include <veriblock/pop/keystone_util.hpp>

#include "world.hpp"

using namespace altintegration;

int main() {
  SetLogger<Logger>(LogLevel::off);
  setMockTime(1700000000);
  vw::Session s;
  return vh::main_loop([&](const std::string& id, const std::string& op, const std::vector<std::string>& a) {
    if (op == "duel") {
      if (!s.reg || a.size() != 4) return std::string("SKIP");
      auto ix = s.inst.find(a[0]), iy = s.inst.find(a[1]);
      if (ix == s.inst.end() || iy == s.inst.end()) return std::string("SKIP noinst");
      vw::Instance& X = *ix->second;
      vw::Instance& Y = *iy->second;
      if (X.tip() != a[2] || Y.tip() != a[3]) return "SKIP tips " + X.tip() + " " + Y.tip();
      // facts for the "no keystone boundary" oracle, from the registry only
      auto pa = s.reg->ancestry(a[2]), pb = s.reg->ancestry(a[3]);
      size_t f = 0;
      while (f + 1 < pa.size() && f + 1 < pb.size() && pa[f + 1] == pb[f + 1]) f++;
      int forkH = s.reg->alt.at(pa[f]).block.height;
      int hA = s.reg->alt.at(a[2]).block.height, hB = s.reg->alt.at(a[3]).block.height;
      uint32_t ki = s.params->alt.getKeystoneInterval();
      bool crossed = isCrossedKeystoneBoundary(forkH, hA, ki) || isCrossedKeystoneBoundary(forkH, hB, ki);
      bool proper = pa[f] != a[2] && pa[f] != a[3];   // both tips strictly above the fork point
      std::string rx = X.compare(a[3]);
      std::string ry = Y.compare(a[2]);
      if (rx.rfind("SKIP", 0) == 0 || ry.rfind("SKIP", 0) == 0) return rx + " " + ry;
      int vx = std::stoi(rx), vy = std::stoi(ry);
      if (vx != -vy)
        vh::oracle_fail(id, "role swap: cmp(A active, B candidate)=" + rx + " but cmp(B active, A candidate)=" + ry);
      if (proper && !crossed && (vx != 0 || vy != 0))
        vh::oracle_fail(id, "neither branch crosses a keystone boundary but the verdicts are " + rx + " " + ry);
      return rx + " " + ry;
    }
    std::vector<std::string> t{op};
    t.insert(t.end(), a.begin(), a.end());
    return s.exec(t);
  });
}
