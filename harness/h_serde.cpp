// Serde harness (properties C11 and C06).
//   dec <T> <hex>   -> "V <value> <remaining>" | "INVALID"; when it decodes, the implementation's own round-trip
//                      oracle runs: re-encode, estimateSize()==size, decode again, equal value, equal encoding,
//                      equal hash/id where cheap  ("!id text" on failure)
//   enc <T> <value> -> "<hex> <estimateSize>"  (+ oracle: decodes back to the same value, size exact)
//   chk <T> <hex>   -> "V" | "INVALID" (decode verdict); for atv/vtb/popdata/vbkblock/btcblock the stateless checks
//                      run on whatever decoded — only "no crash / no throw" is observed
//   witness_atv / witness_vtb -> hex of an ATV/VTB whose tx public key is {1,2,3} with the matching derived address
//   consts          -> "NAME=value ..." as compiled from the headers
// One line is flushed per case, so the last id printed identifies a crashing input.
#include <csignal>
#include <unistd.h>
#include <veriblock/pop/blockchain/alt_chain_params.hpp>
#include <veriblock/pop/blockchain/btc_chain_params.hpp>
#include <veriblock/pop/blockchain/vbk_chain_params.hpp>
#include <veriblock/pop/base58.hpp>
#include <veriblock/pop/base59.hpp>
#include <veriblock/pop/consts.hpp>
#include <veriblock/pop/ct_params.hpp>
#include <veriblock/pop/entities/address.hpp>
#include <veriblock/pop/entities/altblock.hpp>
#include <veriblock/pop/entities/atv.hpp>
#include <veriblock/pop/entities/btcblock.hpp>
#include <veriblock/pop/entities/btctx.hpp>
#include <veriblock/pop/entities/coin.hpp>
#include <veriblock/pop/entities/context_info_container.hpp>
#include <veriblock/pop/entities/merkle_path.hpp>
#include <veriblock/pop/entities/output.hpp>
#include <veriblock/pop/entities/popdata.hpp>
#include <veriblock/pop/entities/publication_data.hpp>
#include <veriblock/pop/entities/vbk_merkle_path.hpp>
#include <veriblock/pop/entities/vbkblock.hpp>
#include <veriblock/pop/entities/vbkpoptx.hpp>
#include <veriblock/pop/entities/vbktx.hpp>
#include <veriblock/pop/entities/vtb.hpp>
#include <veriblock/pop/pop_stateless_validator.hpp>
#include <veriblock/pop/entities/endorsements.hpp>
#include <veriblock/pop/storage/stored_block_index.hpp>
#include <veriblock/pop/storage/stored_alt_block_addon.hpp>
#include <veriblock/pop/storage/stored_btc_block_addon.hpp>
#include <veriblock/pop/storage/stored_vbk_block_addon.hpp>
#include <veriblock/pop/blockchain/pop/counting_context.hpp>
#include <veriblock/pop/serde.hpp>
#include <veriblock/pop/stateless_validation.hpp>

#include <cstdlib>
#include <memory>

#include "common.hpp"
using namespace altintegration;

// ---------------------------------------------------------------- value trees
struct Tree {
  char kind = 'A';  // A atom, L list, R record
  std::string atom;
  std::vector<Tree> kids;
};
static Tree atom(const std::string& s) {
  Tree t;
  t.atom = s;
  return t;
}
static Tree rec(std::vector<Tree> k) {
  Tree t;
  t.kind = 'R';
  t.kids = std::move(k);
  return t;
}
static Tree lst(std::vector<Tree> k) {
  Tree t;
  t.kind = 'L';
  t.kids = std::move(k);
  return t;
}
static std::string show(const Tree& t) {
  if (t.kind == 'A') return t.atom;
  std::string r(1, t.kind == 'L' ? '[' : '{');
  for (size_t i = 0; i < t.kids.size(); i++) {
    if (i) r.push_back(t.kind == 'L' ? ';' : ',');
    r += show(t.kids[i]);
  }
  r.push_back(t.kind == 'L' ? ']' : '}');
  return r;
}
struct Parser {
  const std::string& s;
  size_t pos = 0;
  explicit Parser(const std::string& s) : s(s) {}
  char peek() const { return pos < s.size() ? s[pos] : '\0'; }
  Tree value() {
    char c = peek();
    if (c == '{' || c == '[') {
      pos++;
      Tree t;
      t.kind = c == '{' ? 'R' : 'L';
      char sep = c == '{' ? ',' : ';', close = c == '{' ? '}' : ']';
      if (peek() == close) {
        pos++;
        return t;
      }
      t.kids.push_back(value());
      while (peek() == sep) {
        pos++;
        t.kids.push_back(value());
      }
      if (peek() != close) throw std::runtime_error("tree syntax");
      pos++;
      return t;
    }
    size_t st = pos;
    while (pos < s.size() && std::string("{}[],;").find(s[pos]) == std::string::npos) pos++;
    return atom(s.substr(st, pos - st));
  }
};
static Tree parse_tree(const std::string& s) {
  Parser p(s);
  Tree t = p.value();
  if (p.pos != s.size()) throw std::runtime_error("tree trailing");
  return t;
}

// ---------------------------------------------------------------- entity <-> tree
static Tree tz(int64_t v) { return atom(vh::hexnum_s(v)); }
static Tree tu(uint64_t v) { return atom(vh::hexnum(v)); }
template <typename B>
static Tree tb(const B& b) {
  return atom(b.size() == 0 ? std::string("-") : vh::hex(b.data(), b.size()));
}
static int64_t zt(const Tree& t) { return vh::parse_hex64s(t.atom); }
static uint64_t ut(const Tree& t) { return vh::parse_hex64(t.atom); }
static std::vector<uint8_t> bt(const Tree& t) { return vh::unhex(t.atom); }
static void need(const Tree& t, char kind, size_t n) {
  if (t.kind != kind || (kind == 'R' && t.kids.size() != n)) throw std::runtime_error("bad value shape");
}

static Tree dump(const Address&);
static void load(const Tree&, Address&);
static Tree dump(const Coin&);
static void load(const Tree&, Coin&);
static Tree dump(const Output&);
static void load(const Tree&, Output&);
static Tree dump(const BtcTx&);
static void load(const Tree&, BtcTx&);
static Tree dump(const BtcBlock&);
static void load(const Tree&, BtcBlock&);
static Tree dump(const VbkBlock&);
static void load(const Tree&, VbkBlock&);
static Tree dump(const MerklePath&);
static void load(const Tree&, MerklePath&);
static Tree dump(const VbkMerklePath&);
static void load(const Tree&, VbkMerklePath&);
static Tree dump(const PublicationData&);
static void load(const Tree&, PublicationData&);
static Tree dump(const NetworkBytePair&);
static void load(const Tree&, NetworkBytePair&);
static Tree dump(const VbkTx&);
static void load(const Tree&, VbkTx&);
static Tree dump(const VbkPopTx&);
static void load(const Tree&, VbkPopTx&);
static Tree dump(const ATV&);
static void load(const Tree&, ATV&);
static Tree dump(const VTB&);
static void load(const Tree&, VTB&);
static Tree dump(const PopData&);
static void load(const Tree&, PopData&);
template <typename E>
static Tree dump_endorsement(const E& e) {
  return rec({tb(e.id), tb(e.endorsedHash), tb(e.containingHash), tb(e.blockOfProof)});
}
static Tree dump(const VbkEndorsement& e) { return dump_endorsement(e); }
static Tree dump(const AltEndorsement& e) { return dump_endorsement(e); }
static void load(const Tree& t, VbkEndorsement& e) {
  need(t, 'R', 4);
  e.id = uint256(bt(t.kids[0]));
  e.endorsedHash = uint192(bt(t.kids[1]));
  e.containingHash = uint192(bt(t.kids[2]));
  e.blockOfProof = uint256(bt(t.kids[3]));
}
static void load(const Tree& t, AltEndorsement& e) {
  need(t, 'R', 4);
  e.id = uint256(bt(t.kids[0]));
  e.endorsedHash = bt(t.kids[1]);
  e.containingHash = bt(t.kids[2]);
  e.blockOfProof = uint192(bt(t.kids[3]));
}
template <typename V>
static Tree dump_ids(const V& v) {
  std::vector<Tree> k;
  for (auto& x : v) k.push_back(tb(x));
  return lst(k);
}
template <typename P>
static Tree dump_popstate(const P& p) {
  std::vector<Tree> k;
  for (auto& kv : p.getContainingEndorsements()) k.push_back(dump_endorsement(*kv.second));
  return lst(k);
}
static Tree dump(const StoredBtcBlockAddon& a) {
  std::vector<Tree> r;
  for (auto x : a.refs) r.push_back(tz(x));
  return rec({dump_ids(a.blockOfProofEndorsementIds), lst(r)});
}
static Tree dump(const StoredVbkBlockAddon& a) {
  return rec({dump_ids(a.endorsedByIds), dump_ids(a.blockOfProofEndorsementIds), tu(a._refCount), dump_ids(a._vtbids),
              dump_popstate(a.popState)});
}
static Tree dump(const StoredAltBlockAddon& a) {
  return rec({dump_ids(a.endorsedByIds), dump_ids(a._atvids), dump_ids(a._vtbids), dump_ids(a._vbkblockids),
              dump_popstate(a.popState)});
}
static Tree dump(const AltBlock& b);
template <typename B>
static Tree dump(const StoredBlockIndex<B>& s) {
  return rec({tz(s.height), dump(*s.header), tu(s.status), dump(s.addon)});
}
template <typename B>
static void load(const Tree&, StoredBlockIndex<B>&) {
  throw std::runtime_error("enc not supported for stored types");
}
static Tree dump(const AltBlock& b) { return rec({tb(b.hash), tb(b.previousBlock), tz(b.height), tu(b.timestamp)}); }
static void load(const Tree& t, AltBlock& b) {
  need(t, 'R', 4);
  b.hash = bt(t.kids[0]);
  b.previousBlock = bt(t.kids[1]);
  b.height = (int32_t)zt(t.kids[2]);
  b.timestamp = (uint32_t)ut(t.kids[3]);
}
static Tree dump(const KeystoneContainer& k) { return rec({tb(k.firstPreviousKeystone), tb(k.secondPreviousKeystone)}); }
static void load(const Tree& t, KeystoneContainer& k) {
  need(t, 'R', 2);
  k.firstPreviousKeystone = bt(t.kids[0]);
  k.secondPreviousKeystone = bt(t.kids[1]);
}
static Tree dump(const ContextInfoContainer& c) { return rec({tz(c.height), dump(c.keystones)}); }
static void load(const Tree& t, ContextInfoContainer& c) {
  need(t, 'R', 2);
  c.height = (int32_t)zt(t.kids[0]);
  load(t.kids[1], c.keystones);
}
static Tree dump(const AuthenticatedContextInfoContainer& c) { return rec({dump(c.ctx), tb(c.stateRoot)}); }
static void load(const Tree& t, AuthenticatedContextInfoContainer& c) {
  need(t, 'R', 2);
  load(t.kids[0], c.ctx);
  c.stateRoot = uint256(bt(t.kids[1]));
}

static std::vector<uint8_t> addr_bytes(const Address& a) {
  std::vector<uint8_t> d;
  ValidationState st;
  if (a.getType() == AddressType::STANDARD) {
    DecodeBase58(a.toString(), d, st);
  } else {
    DecodeBase59(a.toString(), d, st);
  }
  return d;
}
static Tree dump(const Address& a) { return rec({tu((uint8_t)a.getType()), tb(addr_bytes(a))}); }
static void load(const Tree& t, Address& a) {
  need(t, 'R', 2);
  auto b = bt(t.kids[1]);
  std::string text = ut(t.kids[0]) == 1 ? EncodeBase58(b) : EncodeBase59(b);
  ValidationState st;
  if (!a.fromString(text, st)) throw std::runtime_error("bad address in value");
}
static Tree dump(const Coin& c) { return tz(c.units); }
static void load(const Tree& t, Coin& c) { c.units = zt(t); }
static Tree dump(const Output& o) { return rec({dump(o.address), dump(o.coin)}); }
static void load(const Tree& t, Output& o) {
  need(t, 'R', 2);
  load(t.kids[0], o.address);
  load(t.kids[1], o.coin);
}
static Tree dump(const BtcTx& x) { return tb(x.tx); }
static void load(const Tree& t, BtcTx& x) { x.tx = bt(t); }
static Tree dump(const BtcBlock& b) {
  return rec({tz(b.getVersion()), tb(b.getPreviousBlock()), tb(b.getMerkleRoot()), tu(b.getTimestamp()),
              tu(b.getDifficulty()), tu(b.getNonce())});
}
static void load(const Tree& t, BtcBlock& b) {
  need(t, 'R', 6);
  b = BtcBlock((int32_t)zt(t.kids[0]), uint256(bt(t.kids[1])), uint256(bt(t.kids[2])), (uint32_t)ut(t.kids[3]),
               (uint32_t)ut(t.kids[4]), (uint32_t)ut(t.kids[5]));
}
static Tree dump(const VbkBlock& b) {
  return rec({tz(b.getHeight()), tz(b.getVersion()), tb(b.getPreviousBlock()), tb(b.getPreviousKeystone()),
              tb(b.getSecondPreviousKeystone()), tb(b.getMerkleRoot()), tu(b.getTimestamp()), tz(b.getDifficulty()),
              tu(b.getNonce())});
}
static void load(const Tree& t, VbkBlock& b) {
  need(t, 'R', 9);
  b = VbkBlock((int32_t)zt(t.kids[0]), (int16_t)zt(t.kids[1]), uint96(bt(t.kids[2])), uint72(bt(t.kids[3])),
               uint72(bt(t.kids[4])), uint128(bt(t.kids[5])), (int32_t)(uint32_t)ut(t.kids[6]), (int32_t)zt(t.kids[7]),
               ut(t.kids[8]));
}
template <typename V>
static Tree dump_layers(const V& v) {
  std::vector<Tree> k;
  for (auto& l : v) k.push_back(tb(l));
  return lst(k);
}
static Tree dump(const MerklePath& m) { return rec({tz(m.index), dump_layers(m.layers)}); }
static void load(const Tree& t, MerklePath& m) {
  need(t, 'R', 2);
  m.index = (int32_t)zt(t.kids[0]);
  m.layers.clear();
  for (auto& l : t.kids[1].kids) m.layers.emplace_back(bt(l));
}
static Tree dump(const VbkMerklePath& m) {
  return rec({tz(m.treeIndex), tz(m.index), tb(m.subject), dump_layers(m.layers)});
}
static void load(const Tree& t, VbkMerklePath& m) {
  need(t, 'R', 4);
  m.treeIndex = (int32_t)zt(t.kids[0]);
  m.index = (int32_t)zt(t.kids[1]);
  m.subject = uint256(bt(t.kids[2]));
  m.layers.clear();
  for (auto& l : t.kids[3].kids) m.layers.emplace_back(bt(l));
}
static Tree dump(const PublicationData& p) {
  return rec({tz(p.identifier), tb(p.header), tb(p.contextInfo), tb(p.payoutInfo)});
}
static void load(const Tree& t, PublicationData& p) {
  need(t, 'R', 4);
  p.identifier = zt(t.kids[0]);
  p.header = bt(t.kids[1]);
  p.contextInfo = bt(t.kids[2]);
  p.payoutInfo = bt(t.kids[3]);
}
static Tree dump(const NetworkBytePair& n) {
  return rec({n.networkType.hasValue ? tu(n.networkType.value) : atom("~"), tu(n.typeId)});
}
static void load(const Tree& t, NetworkBytePair& n) {
  need(t, 'R', 2);
  n.networkType.hasValue = t.kids[0].atom != "~";
  n.networkType.value = n.networkType.hasValue ? (uint8_t)ut(t.kids[0]) : 0;
  n.typeId = (uint8_t)ut(t.kids[1]);
}
template <typename T>
static Tree dump_list(const std::vector<T>& v) {
  std::vector<Tree> k;
  for (auto& x : v) k.push_back(dump(x));
  return lst(k);
}
template <typename T>
static void load_list(const Tree& t, std::vector<T>& v) {
  if (t.kind != 'L') throw std::runtime_error("expected list");
  v.clear();
  for (auto& x : t.kids) {
    T e;
    load(x, e);
    v.push_back(e);
  }
}
static Tree dump(const VbkTx& x) {
  return rec({dump(x.networkOrType), dump(x.sourceAddress), dump(x.sourceAmount), dump_list(x.outputs),
              tz(x.signatureIndex), dump(x.publicationData), tb(x.signature), tb(x.publicKey)});
}
static void load(const Tree& t, VbkTx& x) {
  need(t, 'R', 8);
  load(t.kids[0], x.networkOrType);
  load(t.kids[1], x.sourceAddress);
  load(t.kids[2], x.sourceAmount);
  load_list(t.kids[3], x.outputs);
  x.signatureIndex = zt(t.kids[4]);
  load(t.kids[5], x.publicationData);
  x.signature = bt(t.kids[6]);
  x.publicKey = bt(t.kids[7]);
}
static Tree dump(const VbkPopTx& x) {
  return rec({dump(x.networkOrType), dump(x.address), dump(x.publishedBlock), dump(x.bitcoinTransaction),
              dump(x.merklePath), dump(x.blockOfProof), dump_list(x.blockOfProofContext), tb(x.signature),
              tb(x.publicKey)});
}
static void load(const Tree& t, VbkPopTx& x) {
  need(t, 'R', 9);
  load(t.kids[0], x.networkOrType);
  load(t.kids[1], x.address);
  load(t.kids[2], x.publishedBlock);
  load(t.kids[3], x.bitcoinTransaction);
  load(t.kids[4], x.merklePath);
  load(t.kids[5], x.blockOfProof);
  load_list(t.kids[6], x.blockOfProofContext);
  x.signature = bt(t.kids[7]);
  x.publicKey = bt(t.kids[8]);
}
static Tree dump(const ATV& a) {
  return rec({tu(a.version), dump(a.transaction), dump(a.merklePath), dump(a.blockOfProof)});
}
static void load(const Tree& t, ATV& a) {
  need(t, 'R', 4);
  a.version = (uint32_t)ut(t.kids[0]);
  load(t.kids[1], a.transaction);
  load(t.kids[2], a.merklePath);
  load(t.kids[3], a.blockOfProof);
}
static Tree dump(const VTB& a) {
  return rec({tu(a.version), dump(a.transaction), dump(a.merklePath), dump(a.containingBlock)});
}
static void load(const Tree& t, VTB& a) {
  need(t, 'R', 4);
  a.version = (uint32_t)ut(t.kids[0]);
  load(t.kids[1], a.transaction);
  load(t.kids[2], a.merklePath);
  load(t.kids[3], a.containingBlock);
}
static Tree dump(const PopData& p) {
  return rec({tu(p.version), dump_list(p.context), dump_list(p.vtbs), dump_list(p.atvs)});
}
static void load(const Tree& t, PopData& p) {
  need(t, 'R', 4);
  p.version = (uint32_t)ut(t.kids[0]);
  load_list(t.kids[1], p.context);
  load_list(t.kids[2], p.vtbs);
  load_list(t.kids[3], p.atvs);
}

// ---------------------------------------------------------------- decode / encode wrappers
template <typename T>
static bool decode(ReadStream& s, T& v, ValidationState& st) {
  return DeserializeFromVbkEncoding(s, v, st);
}
static bool decode(ReadStream& s, MerklePath& v, ValidationState& st) {
  return DeserializeFromVbkEncoding(s, uint256(), v, st);
}
struct RawBtc {
  BtcBlock b;
};
struct RawVbk {
  VbkBlock b;
};
static bool decode(ReadStream& s, RawBtc& v, ValidationState& st) { return DeserializeFromRaw(s, v.b, st); }
static bool decode(ReadStream& s, RawVbk& v, ValidationState& st) { return DeserializeFromRaw(s, v.b, st); }
static Tree dump(const RawBtc& v) { return dump(v.b); }
static Tree dump(const RawVbk& v) { return dump(v.b); }
static void load(const Tree& t, RawBtc& v) { load(t, v.b); }
static void load(const Tree& t, RawVbk& v) { load(t, v.b); }

template <typename T>
static std::vector<uint8_t> encode(const T& v) {
  WriteStream w;
  v.toVbkEncoding(w);
  return w.data();
}
static std::vector<uint8_t> encode(const RawBtc& v) { return SerializeToRaw(v.b); }
static std::vector<uint8_t> encode(const RawVbk& v) { return SerializeToRaw(v.b); }
template <typename T>
static size_t estimate(const T& v) {
  return v.estimateSize();
}
static size_t estimate(const RawBtc& v) { return v.b.estimateSize() - 1; }
// no estimateSize() in the library for these: the oracle compares with the real size only
static size_t estimate(const VbkEndorsement& v) { return encode(v).size(); }
static size_t estimate(const AltEndorsement& v) { return encode(v).size(); }
template <typename B>
static size_t estimate(const StoredBlockIndex<B>& v) { return encode(v).size(); }
static size_t estimate(const RawVbk& v) { return v.b.estimateSize() - 1; }

// cheap content hashes (no progpow): "" when the type has none
template <typename T>
static std::string content_id(const T&) {
  return "";
}
static std::string content_id(const BtcTx& v) { return v.getHash().toHex(); }
static std::string content_id(const BtcBlock& v) { return v.getHash().toHex(); }
static std::string content_id(const RawBtc& v) { return v.b.getHash().toHex(); }
static std::string content_id(const VbkTx& v) { return v.getHash().toHex(); }
static std::string content_id(const VbkPopTx& v) { return v.getHash().toHex(); }

// the implementation's own oracle on a value that decoded / was built
template <typename T>
static void roundtrip_oracle(const std::string& id, const T& v) {
  auto e = encode(v);
  if (estimate(v) != e.size()) {
    vh::oracle_fail(id, "estimateSize=" + std::to_string(estimate(v)) + " encoded=" + std::to_string(e.size()));
  }
  ReadStream s(e);
  T v2;
  ValidationState st;
  if (!decode(s, v2, st)) {
    vh::oracle_fail(id, "re-encoding does not decode: " + st.toString());
    return;
  }
  if (s.remaining() != 0) vh::oracle_fail(id, "re-encoding not fully consumed");
  if (show(dump(v2)) != show(dump(v))) vh::oracle_fail(id, "decode(encode(v)) != v");
  if (encode(v2) != e) vh::oracle_fail(id, "encode(decode(encode(v))) != encode(v)");
  if (content_id(v2) != content_id(v)) vh::oracle_fail(id, "hash differs after round trip");
}

template <typename T>
static std::string op_dec(const std::string& id, const std::vector<uint8_t>& bytes) {
  // exactly as an API user passes bytes: an exactly-sized std::vector handed over as a Slice (capacity == size, so ASan
  // sees any over-read; the EMPTY input has data() == nullptr and no dummy buffer is substituted)
  std::vector<uint8_t> buf(bytes.begin(), bytes.end());
  ReadStream s{Slice<const uint8_t>(buf.data(), buf.size())};
  T v;
  ValidationState st;
  if (!decode(s, v, st)) {
    if (st.IsValid()) vh::oracle_fail(id, "decode failed with a valid ValidationState");
    return "INVALID";
  }
  size_t rem = s.remaining();
  if (rem > bytes.size()) vh::oracle_fail(id, "cursor moved past the end of the buffer");
  roundtrip_oracle(id, v);
  return "V " + show(dump(v)) + " " + vh::hexnum(rem);
}

template <typename T>
static std::string op_enc(const std::string& id, const std::string& text) {
  T v;
  load(parse_tree(text), v);
  auto e = encode(v);
  roundtrip_oracle(id, v);
  return vh::hex(e) + " " + vh::hexnum(estimate(v));
}

// ---------------------------------------------------------------- memoised hashes / ids (C11: ids depend only on content)
// memo <T> <value> <seq>: seq = comma separated tokens, "h" = read hash/id and compare it with the hash/id of a FRESH
// object decoded from the current encoding; a number = mutate one field through the public API (setter k / public member)
static void flip(std::vector<uint8_t>& v) {
  if (v.empty()) v.push_back(1); else v[0] ^= 1;
}
template <typename B>
static B flipped(const B& b) {
  auto v = b.asVector();
  flip(v);
  return B(v);
}
static void mutate(VbkBlock& b, int k) {
  switch (k) {
    case 0: b.setHeight((b.getHeight() + 1) % 8000); break;
    case 1: b.setVersion((int16_t)(b.getVersion() ^ 1)); break;
    case 2: b.setPreviousBlock(flipped(b.getPreviousBlock())); break;
    case 3: b.setPreviousKeystone(flipped(b.getPreviousKeystone())); break;
    case 4: b.setSecondPreviousKeystone(flipped(b.getSecondPreviousKeystone())); break;
    case 5: b.setMerkleRoot(flipped(b.getMerkleRoot())); break;
    case 6: b.setTimestamp(b.getTimestamp() + 1); break;
    case 7: b.setDifficulty(b.getDifficulty() ^ 1); break;
    case 8: b.setNonce((b.getNonce() + 1) & 0xffffffffffULL); break;
    default: throw std::runtime_error("bad setter index");
  }
}
static void mutate(BtcBlock& b, int k) {
  switch (k) {
    case 0: b.setVersion(b.getVersion() ^ 1); break;
    case 1: b.setPreviousBlock(flipped(b.getPreviousBlock())); break;
    case 2: b.setMerkleRoot(flipped(b.getMerkleRoot())); break;
    case 3: b.setDifficulty(b.getDifficulty() ^ 1); break;
    case 4: b.setNonce(b.getNonce() + 1); break;
    case 5: b.setTimestamp(b.getTimestamp() + 1); break;
    default: throw std::runtime_error("bad setter index");
  }
}
static void mutate(ATV& a, int k) {
  if (k <= 8) return mutate(a.blockOfProof, k);
  if (k == 9) { a.transaction.signatureIndex ^= 1; return; }
  if (k == 10) { flip(a.transaction.publicationData.payoutInfo); return; }
  throw std::runtime_error("bad setter index");
}
static void mutate(VTB& v, int k) {
  if (k <= 8) return mutate(v.containingBlock, k);
  if (k == 9) { flip(v.transaction.bitcoinTransaction.tx); return; }
  if (k >= 10 && k <= 15) return mutate(v.transaction.blockOfProof, k - 10);
  throw std::runtime_error("bad setter index");
}
static std::string memo_id(const VbkBlock& b) { return b.getHash().toHex() + "/" + b.getShortHash().toHex() + "/" + b.getId().toHex(); }
static std::string memo_id(const BtcBlock& b) { return b.getHash().toHex(); }
static std::string memo_id(const ATV& a) { return a.getId().toHex() + "/" + a.blockOfProof.getHash().toHex(); }
static std::string memo_id(const VTB& v) {
  return v.getId().toHex() + "/" + v.containingBlock.getHash().toHex() + "/" + v.transaction.blockOfProof.getHash().toHex();
}
template <typename T>
static std::string op_memo(const std::string& id, const std::string& text, const std::string& seq) {
  T v;
  load(parse_tree(text), v);
  size_t reads = 0;
  std::string last = "-";
  std::stringstream ss(seq);
  std::string tok;
  while (std::getline(ss, tok, ',')) {
    if (tok == "h") {
      std::string got = memo_id(v);
      auto e = encode(v);
      ReadStream s(e);
      T fresh;
      ValidationState st;
      if (!decode(s, fresh, st)) {
        vh::oracle_fail(id, "encoding of the mutated value does not decode: " + st.toString());
        return "BAD";
      }
      std::string want = memo_id(fresh);
      if (got != want) {
        vh::oracle_fail(id, "stale memoised hash/id after [" + last + "]: object answers " + got +
                                " but a fresh object with the same encoding answers " + want);
      }
      if (show(dump(fresh)) != show(dump(v))) vh::oracle_fail(id, "decode(encode(v)) != v after [" + last + "]");
      reads++;
    } else {
      mutate(v, std::stoi(tok));
      last = tok;
    }
  }
  return "OK " + std::to_string(reads) + " " + vh::hex(encode(v));
}

// ---------------------------------------------------------------- CountingContext vs PopData::estimateSize (C11)
// count <maxsize> <maxatv> <maxvtb> <maxvbk> <seq>; seq = comma separated tokens <kind><n>[x<extra>], kind a|v|b:
// n times: p = synthetic ATV / VTB / VbkBlock (extra = payout-info / btc-tx / nothing bytes); compare canFit(p) of the
// REAL CountingContext with the ground truth "count below the limit of its kind and estimateSize(PopData{kept + p}) <=
// maxsize"; if it fits: update(p) and keep p. Ground truth: the real PopData::estimateSize() and toVbkEncoding().size()
// (always while the PopData is small, at every 255/256/65535/65536 crossing, on any discrepancy and at the end),
// between those points the same sum maintained incrementally from the elements' estimateSize().
struct CountParams : public AltChainParamsRegTest {
  CountParams(uint32_t maxsize, size_t a, size_t v, size_t b) {
    mMaxPopDataSize = maxsize;
    mMaxATVsInAltBlock = a;
    mMaxVTBsInAltBlock = v;
    mMaxVbkBlocksInAltBlock = b;
  }
};
static std::string op_count(const std::string& id, const std::vector<std::string>& a) {
  uint64_t maxsize = vh::parse_hex64(a[0]);
  size_t lim[3] = {(size_t)vh::parse_hex64(a[1]), (size_t)vh::parse_hex64(a[2]), (size_t)vh::parse_hex64(a[3])};
  CountParams params((uint32_t)maxsize, lim[0], lim[1], lim[2]);
  CountingContext ctx(params);
  PopData pd;
  pd.version = 1;
  size_t sums[3] = {0, 0, 0};   // atvs, vtbs, vbks
  size_t steps = 0, mism = 0;
  std::string sizes;
  auto incremental = [&](int kind, size_t extra) {
    size_t n[3] = {pd.atvs.size(), pd.vtbs.size(), pd.context.size()};
    size_t s[3] = {sums[0], sums[1], sums[2]};
    if (kind >= 0) {
      n[kind]++;
      s[kind] += extra;
    }
    return 4 + singleBEValueSize((int64_t)n[0]) + s[0] + singleBEValueSize((int64_t)n[1]) + s[1] +
           singleBEValueSize((int64_t)n[2]) + s[2];
  };
  auto boundary = [](size_t n) { return (n >= 254 && n <= 257) || (n >= 65534 && n <= 65537); };
  std::stringstream ss(a[4]);
  std::string tok;
  while (std::getline(ss, tok, ',')) {
    if (tok.empty()) continue;
    char kind = tok[0];
    size_t xpos = tok.find('x');
    size_t n = std::stoul(tok.substr(1, xpos == std::string::npos ? std::string::npos : xpos - 1));
    size_t extra = xpos == std::string::npos ? 0 : std::stoul(tok.substr(xpos + 1));
    for (size_t i = 0; i < n; i++) {
      steps++;
      int k = kind == 'a' ? 0 : kind == 'v' ? 1 : 2;
      ATV atv;
      VTB vtb;
      VbkBlock blk;
      size_t psize = 0;
      bool got = false;
      if (k == 0) {
        atv.version = 1;
        atv.transaction.publicationData.payoutInfo = std::vector<uint8_t>(extra, 7);
        atv.transaction.signatureIndex = (int64_t)steps;
        psize = atv.estimateSize();
        got = ctx.canFit(atv);
      } else if (k == 1) {
        vtb.version = 1;
        vtb.transaction.bitcoinTransaction.tx = std::vector<uint8_t>(extra, 9);
        psize = vtb.estimateSize();
        got = ctx.canFit(vtb);
      } else {
        blk.setHeight((int32_t)steps);
        psize = blk.estimateSize();
        got = ctx.canFit(blk);
      }
      size_t cnt = k == 0 ? pd.atvs.size() : k == 1 ? pd.vtbs.size() : pd.context.size();
      size_t total = pd.atvs.size() + pd.vtbs.size() + pd.context.size();
      size_t inc = incremental(k, psize);
      bool truth = cnt < lim[k] && inc <= maxsize;
      bool exact = total <= 600 || boundary(cnt) || boundary(cnt + 1) || got != truth;
      if (exact) {
        PopData probe = pd;
        if (k == 0) probe.atvs.push_back(atv); else if (k == 1) probe.vtbs.push_back(vtb); else probe.context.push_back(blk);
        size_t est = probe.estimateSize();
        if (est != inc) vh::oracle_fail(id, "harness bookkeeping differs from PopData::estimateSize");
        if (total <= 600 || got != truth) {
          size_t enc = probe.toVbkEncoding().size();
          if (enc != est) {
            vh::oracle_fail(id, "PopData::estimateSize=" + std::to_string(est) + " but toVbkEncoding().size()=" + std::to_string(enc));
          }
        }
        truth = cnt < lim[k] && est <= maxsize;
      }
      if (got != truth && mism++ == 0) {
        vh::oracle_fail(id, std::string("CountingContext::canFit=") + (got ? "true" : "false") + " but adding this " +
                                (k == 0 ? "ATV" : k == 1 ? "VTB" : "VbkBlock") + " gives PopData of estimateSize " +
                                std::to_string(inc) + " (limit " + std::to_string(maxsize) + "), counts atv/vtb/vbk=" +
                                std::to_string(pd.atvs.size()) + "/" + std::to_string(pd.vtbs.size()) + "/" +
                                std::to_string(pd.context.size()) + " (limits " + std::to_string(lim[0]) + "/" +
                                std::to_string(lim[1]) + "/" + std::to_string(lim[2]) + ")");
      }
      if (got) {
        if (k == 0) { ctx.update(atv); pd.atvs.push_back(atv); } else if (k == 1) { ctx.update(vtb); pd.vtbs.push_back(vtb); }
        else { ctx.update(blk); pd.context.push_back(blk); }
        sums[k] += psize;
      }
    }
    sizes += (sizes.empty() ? "" : ",") + std::to_string(incremental(-1, 0));
  }
  size_t est = pd.estimateSize(), enc = pd.toVbkEncoding().size();
  if (est != enc || est != incremental(-1, 0)) vh::oracle_fail(id, "final PopData: estimateSize/encoded size/bookkeeping differ");
  return "OK " + std::to_string(steps) + " " + std::to_string(pd.atvs.size()) + "/" + std::to_string(pd.vtbs.size()) + "/" +
         std::to_string(pd.context.size()) + " " + sizes;
}

// ---------------------------------------------------------------- stateless checks (C06)
struct Params {
  AltChainParamsRegTest alt;
  VbkChainParamsRegTest vbk;
  BtcChainParamsRegTest btc;
  PopValidator validator{vbk, btc, alt, 2};
};
static Params& params() {
  static Params p;
  return p;
}
static size_t g_checked = 0, g_check_valid = 0;
static int32_t g_max_height = 16000;  // VBK blocks above this height are not PoW-hashed (ethash epoch caches)
// VERIF_NO_PROGPOW=1 (set for the UBSan build): never call the progpow kernel — its keccak_f800 left-shifts negative
// ints on every call (input independent, outside the parsers/validators this property is about); the PoW paths are
// exercised by the un-instrumented build of the same harness
static bool g_no_progpow = getenv("VERIF_NO_PROGPOW") != nullptr;

static void check(const ATV& v) {
  ValidationState st;
  g_checked++;
  g_check_valid += checkATV(v, st, params().alt, params().vbk);
}
static void check(const VTB& v) {
  ValidationState st;
  g_checked++;
  g_check_valid += checkVTB(v, st, params().btc, params().vbk);
}
static void check(const BtcBlock& v) {
  ValidationState st;
  g_checked++;
  g_check_valid += checkBlock(v, st, params().btc);
}
static void check(const VbkBlock& v) {
  ValidationState st;
  g_checked++;
  if (g_no_progpow || v.getHeight() > g_max_height) {
    g_check_valid += checkVbkBlockPlausibility(v, st, params().vbk);
    return;
  }
  g_check_valid += checkBlock(v, st, params().vbk);
}
static void check(const PopData& v) {
  ValidationState st;
  g_checked++;
  (void)v.estimateSize();
  if (g_no_progpow) {
    for (auto& b : v.context) check(b);
    for (auto& b : v.vtbs) check(b);
    for (auto& b : v.atvs) check(b);
    return;
  }
  for (auto& b : v.context)
    if (b.getHeight() > g_max_height) return;
  for (auto& b : v.vtbs)
    if (b.containingBlock.getHeight() > g_max_height) return;
  for (auto& b : v.atvs)
    if (b.blockOfProof.getHeight() > g_max_height) return;
  g_check_valid += checkPopData(params().validator, v, st);
}
static void check(const VbkTx& v) {
  ValidationState st;
  g_checked++;
  g_check_valid += checkVbkTx(v, params().alt, params().vbk, st);
}
static void check(const VbkPopTx& v) {
  ValidationState st;
  g_checked++;
  g_check_valid += checkVbkPopTx(v, st, params().btc, params().vbk);
}
static void check(const PublicationData& v) {
  ValidationState st;
  g_checked++;
  g_check_valid += checkPublicationData(v, params().alt, st);
}
static void check(const Address& v) {
  g_checked++;
  WriteStream w;
  v.getPopBytes(w);
  std::vector<uint8_t> pk{1, 2, 3};
  g_check_valid += v.isDerivedFromPublicKey(pk) ? 1 : 0;
}
template <typename T>
static void check(const T&) {}

template <typename T>
static std::string op_chk(const std::string& id, const std::vector<uint8_t>& bytes) {
  std::vector<uint8_t> buf(bytes.begin(), bytes.end());
  ReadStream s{Slice<const uint8_t>(buf.data(), buf.size())};
  T v;
  ValidationState st;
  if (!decode(s, v, st)) return "INVALID";
  // whatever parsed is serialised again and measured, as every consumer of a parsed payload does
  auto e = encode(v);
  if (estimate(v) != e.size()) vh::oracle_fail(id, "estimateSize differs from the encoded size of a parsed value");
  check(v);
  return "V";
}

// ---------------------------------------------------------------- witnesses of the repaired defect 636b0fdd
static PublicationData good_pubdata() {
  PublicationData p;
  p.identifier = params().alt.getIdentifier();
  AltBlock ab;
  ab.hash = std::vector<uint8_t>(32, 7);
  ab.previousBlock = std::vector<uint8_t>(32, 6);
  ab.height = 5;
  ab.timestamp = 100;
  p.header = ab.toRaw();
  AuthenticatedContextInfoContainer c;
  c.ctx.height = 5;
  WriteStream w;
  c.toVbkEncoding(w);
  p.contextInfo = w.data();
  p.payoutInfo = {1, 2, 3, 4, 5, 6, 7, 8, 9, 10};
  return p;
}
static std::string witness_atv() {
  ATV a;
  a.version = 1;
  a.transaction.networkOrType.networkType = params().vbk.getTransactionMagicByte();
  a.transaction.networkOrType.typeId = (uint8_t)TxType::VBK_TX;
  a.transaction.publicKey = {1, 2, 3};
  a.transaction.sourceAddress = Address::fromPublicKey(a.transaction.publicKey);
  a.transaction.sourceAmount = Coin(1000);
  a.transaction.signatureIndex = 7;
  a.transaction.signature = std::vector<uint8_t>(70, 0x30);
  a.transaction.publicationData = good_pubdata();
  a.merklePath.subject = a.transaction.getHash();
  return vh::hex(encode(a));
}
static std::string witness_vtb() {
  VTB v;
  v.version = 1;
  auto& t = v.transaction;
  t.networkOrType.networkType = params().vbk.getTransactionMagicByte();
  t.networkOrType.typeId = (uint8_t)TxType::VBK_POP_TX;
  t.publicKey = {1, 2, 3};
  t.address = Address::fromPublicKey(t.publicKey);
  t.signature = std::vector<uint8_t>(70, 0x30);
  // the BTC tx must contain the 80 publication bytes: published block header (64 bytes w/o nonce?) + address pop bytes
  WriteStream pub;
  t.publishedBlock.toRaw(pub);
  std::vector<uint8_t> btctx(pub.data().begin(), pub.data().end());
  WriteStream ab;
  t.address.getPopBytes(ab);
  btctx.insert(btctx.end(), ab.data().begin(), ab.data().end());
  t.bitcoinTransaction = BtcTx(btctx);
  t.blockOfProof.setMerkleRoot(t.bitcoinTransaction.getHash().reverse());
  return vh::hex(encode(v));
}

#define CONSTS(X)                                                                                                   \
  X(SHA256_HASH_SIZE) X(BTC_TX_MAX_RAW_SIZE) X(BTC_HEADER_SIZE) X(MAX_BTC_BLOCKS_IN_VBKPOPTX) X(BTC_BLOCK_HASH_SIZE) \
  X(VBK_BLOCK_HASH_SIZE) X(VBK_MERKLE_ROOT_HASH_SIZE) X(VBK_PREVIOUS_BLOCK_HASH_SIZE)                               \
  X(VBK_PREVIOUS_KEYSTONE_HASH_SIZE) X(MAX_PAYOUT_INFO_SIZE) X(MAX_HEADER_SIZE_PUBLICATION_DATA)                    \
  X(MAX_CONTEXT_SIZE_PUBLICATION_DATA) X(MAX_PUBLICATIONDATA_SIZE) X(MAX_POPDATA_SIZE) X(MAX_POPDATA_VBK)           \
  X(MAX_POPDATA_VTB) X(MAX_POPDATA_ATV) X(MAX_PAYOUT) X(MIN_ALT_HASH_SIZE) X(MAX_ALT_HASH_SIZE) X(MAX_BTCADDON_REFS) \
  X(MAX_VBKPOPTX_PER_VBK_BLOCK) X(VTB_ID_SIZE) X(ATV_ID_SIZE) X(VBK_ID_SIZE) X(VBK_PUBLICATIONDATA_SIZE)            \
  X(VBK_HEADER_SIZE_VBLAKE) X(VBK_HEADER_SIZE_PROGPOW) X(MAX_LAYER_COUNT_MERKLE) X(MAX_OUTPUTS_COUNT)               \
  X(MAX_SIGNATURE_SIZE) X(MAX_PUBLIC_KEY_SIZE) X(VBK_ADDRESS_SIZE) X(ADDRESS_POP_DATA_SIZE_PROGPOW) X(ALT_HASH_SIZE)
static std::string consts() {
  std::string r;
#define X(n) r += std::string(#n) + "=" + std::to_string((long long)(n)) + " ";
  CONSTS(X)
#undef X
  r += "TX_TYPE_VBK_TX=" + std::to_string((int)TxType::VBK_TX) + " ";
  r += "TX_TYPE_VBK_POP_TX=" + std::to_string((int)TxType::VBK_POP_TX) + " ";
  r += "ADDRESS_TYPE_STANDARD=" + std::to_string((int)AddressType::STANDARD) + " ";
  r += "ADDRESS_TYPE_MULTISIG=" + std::to_string((int)AddressType::MULTISIG);
  return r;
}

template <typename T>
static std::string run(const std::string& id, const std::string& op, const std::string& arg) {
  if (op == "dec") return op_dec<T>(id, vh::unhex(arg));
  if (op == "chk") return op_chk<T>(id, vh::unhex(arg));
  if (op == "enc") return op_enc<T>(id, arg);
  return "UNKNOWN-OP";
}

static std::string handle(const std::string& id, const std::string& op, const std::vector<std::string>& a) {
  if (op == "consts") return consts();
  if (op == "witness_atv") return witness_atv();
  if (op == "witness_vtb") return witness_vtb();
  if (op == "stats") return std::to_string(g_checked) + " " + std::to_string(g_check_valid);
  if (op == "count" && a.size() == 5) return op_count(id, a);
  if (op == "memo" && a.size() == 3) {
    if (a[0] == "vbkblock") return op_memo<VbkBlock>(id, a[1], a[2]);
    if (a[0] == "btcblock") return op_memo<BtcBlock>(id, a[1], a[2]);
    if (a[0] == "atv") return op_memo<ATV>(id, a[1], a[2]);
    if (a[0] == "vtb") return op_memo<VTB>(id, a[1], a[2]);
    return "UNKNOWN-TYPE";
  }
  if (a.size() != 2) return "BAD-ARGS";
  const std::string& t = a[0];
  if (t == "address") return run<Address>(id, op, a[1]);
  if (t == "coin") return run<Coin>(id, op, a[1]);
  if (t == "output") return run<Output>(id, op, a[1]);
  if (t == "btctx") return run<BtcTx>(id, op, a[1]);
  if (t == "btcblock") return run<BtcBlock>(id, op, a[1]);
  if (t == "btcblockraw") return run<RawBtc>(id, op, a[1]);
  if (t == "vbkblock") return run<VbkBlock>(id, op, a[1]);
  if (t == "vbkblockraw") return run<RawVbk>(id, op, a[1]);
  if (t == "vbkendorsement") return run<VbkEndorsement>(id, op, a[1]);
  if (t == "altendorsement") return run<AltEndorsement>(id, op, a[1]);
  if (t == "storedbtc") return run<StoredBlockIndex<BtcBlock>>(id, op, a[1]);
  if (t == "storedvbk") return run<StoredBlockIndex<VbkBlock>>(id, op, a[1]);
  if (t == "storedalt") return run<StoredBlockIndex<AltBlock>>(id, op, a[1]);
  if (t == "altblock") return run<AltBlock>(id, op, a[1]);
  if (t == "keystones") return run<KeystoneContainer>(id, op, a[1]);
  if (t == "ctxinfo") return run<ContextInfoContainer>(id, op, a[1]);
  if (t == "authctx") return run<AuthenticatedContextInfoContainer>(id, op, a[1]);
  if (t == "merklepath") return run<MerklePath>(id, op, a[1]);
  if (t == "vbkmerklepath") return run<VbkMerklePath>(id, op, a[1]);
  if (t == "pubdata") return run<PublicationData>(id, op, a[1]);
  if (t == "vbktx") return run<VbkTx>(id, op, a[1]);
  if (t == "vbkpoptx") return run<VbkPopTx>(id, op, a[1]);
  if (t == "atv") return run<ATV>(id, op, a[1]);
  if (t == "vtb") return run<VTB>(id, op, a[1]);
  if (t == "popdata") return run<PopData>(id, op, a[1]);
  return "UNKNOWN-TYPE";
}

// per-case watchdog: every input is at most a few tens of kilobytes, so a case that runs longer than
// VERIF_CASE_TIMEOUT seconds (default 90, generous for -O0 + ASan on a loaded machine) is not "bounded by the
// declared size limits". The process exits with 124; the runner takes the first case without a result line as
// the culprit and continues behind it.
static void on_case_timeout(int) {
  static const char msg[] = "VERIF-CASE-TIMEOUT: the current case exceeded its time bound\n";
  ssize_t w = write(2, msg, sizeof(msg) - 1);
  (void)w;
  _exit(124);
}

int main() {
  std::ios::sync_with_stdio(false);
  unsigned case_timeout = 90;
  if (const char* e = getenv("VERIF_CASE_TIMEOUT")) case_timeout = (unsigned)atoi(e);
  signal(SIGALRM, on_case_timeout);
  std::string line;
  while (std::getline(std::cin, line)) {
    auto t = vh::split(line);
    if (t.size() < 2) continue;
    std::vector<std::string> args(t.begin() + 2, t.end());
    std::string r;
    alarm(case_timeout);
    try {
      r = handle(t[0], t[1], args);
    } catch (const std::exception& e) {
      r = std::string("THROW ") + e.what();
    } catch (...) {
      r = "THROW unknown";
    }
    alarm(0);
    std::cout << t[0] << " " << r << std::endl;  // flush per case
  }
  return 0;
}
