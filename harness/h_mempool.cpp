// C12 / C13 harness: the World interpreter extended with mempool operations and
// the direct oracles of both properties, evaluated on the real MemPool after
// EVERY script line.
//
// Extra ops (after the case id):
//   atvs <vparent> t5:a1 t6:a2 ...      several ATVs mined as transactions of ONE VBK block -> id of that block
//   mix <vparent> <bparent> <lastKnownBtc> <w>:<v> <t>:<a>...   ONE VBK block carrying a VTB and ATVs -> "<vbk id> <btc id>"
//   altgen <a> <X>                      new ALT block a on X's tip whose body is exactly X's last generated PopData
//                                       -> "parent=<a> ctx=.. vtbs=.. atvs=.."
//   setlim maxvbk=.. maxvtb=.. maxatv=.. maxsize=..     change the ALT block limits of the running session
//   on <X> sub <t|w|v id> [o1]          submit by registry id (o1: doIsBlockOldCheck=true) -> valid|stateful:<path>|stateless:<path>
//   on <X> gen                          generatePopData with the C12 oracle -> "ctx=.. vtbs=.. atvs=.. size=<n>"
//   on <X> applygen <a>                 header + body + setState of the block made by altgen, all must succeed
//   on <X> rmall <a>                    removeAll(PopData of ALT block a)
//   on <X> cleanup | clear | mp         mp = dump of all views (connected / in flight / relations)
//   on <X> bits                         tree verdict bits used by the pool model (see props/_mempool.py)
//   on <X> genv                         selection trace of the last gen (props/_gencorr.py), see genTraced
//   on <X> relv [<a>]                   relations-model view (props/_relcorr.py): signal trace of the previous line,
//                                       cleanUp predicates over the registry, all seven containers and the relations
// Oracle failures are printed as "!<id> <text>".
#include <algorithm>
#include <array>
#include <atomic>
#include <bitset>
#include <cassert>
#include <chrono>
#include <climits>
#include <cmath>
#include <condition_variable>
#include <cstddef>
#include <cstdint>
#include <cstdio>
#include <cstdlib>
#include <cstring>
#include <deque>
#include <exception>
#include <fstream>
#include <functional>
#include <future>
#include <iomanip>
#include <iostream>
#include <iterator>
#include <limits>
#include <list>
#include <locale>
#include <map>
#include <memory>
#include <mutex>
#include <numeric>
#include <queue>
#include <random>
#include <set>
#include <sstream>
#include <stdexcept>
#include <string>
#include <thread>
#include <tuple>
#include <type_traits>
#include <typeinfo>
#include <unordered_map>
#include <unordered_set>
#include <utility>
#include <vector>
#include <unistd.h>
// the VBK relations and the MemPoolBlockTree are private members of MemPool; they are only READ here
#define private public
#include <veriblock/pop/mempool.hpp>
#undef private
#include <veriblock/pop/crypto/progpow.hpp>
#include <veriblock/pop/pop_stateless_validator.hpp>
#include <veriblock/pop/stateless_validation.hpp>

#include "world.hpp"

using namespace altintegration;
using vw::Instance;

namespace {

struct Track {
  MemPool* mp = nullptr;
  std::set<std::string> known[3];  // 0 atv, 1 vtb, 2 vbk : ids known to the mempool after the previous line
  std::set<std::string> conn[3];   // ... connected after the previous line
  // payloads that are connected AND in flight because the caller re-submitted a connected payload that now
  // fails the tree's checks (submit() has no "not already known" precondition check; callers test isKnown first)
  std::set<std::string> tolerated;
  PopData lastP;
  bool hasP = false;
};

template <typename Id>
std::string idname(const vw::Registry& r, const Id& id) {
  auto it = r.names.find("id:" + vh::hex(id.data(), id.size()));
  return it == r.names.end() ? ("?" + vh::hex(id.data(), id.size()).substr(0, 10)) : it->second;
}

std::string join(std::vector<std::string> v, bool sort = true) {
  if (sort) std::sort(v.begin(), v.end(), [](const std::string& a, const std::string& b) {
    if (a.size() > 1 && b.size() > 1 && a[0] == b[0] && isdigit(a[1]) && isdigit(b[1])) return std::stol(a.substr(1)) < std::stol(b.substr(1));
    return a < b;
  });
  std::string s;
  for (size_t i = 0; i < v.size(); i++) s += (i ? "," : "") + v[i];
  return s;
}

template <typename T>
bool carriesPayloads(MemPool&, const T&) { return false; }
bool carriesPayloads(MemPool& mp, const VbkBlock& b) {
  auto rit = mp.relations_.find(b.getId());
  return rit != mp.relations_.end() && !rit->second->empty();
}
int heightOf(const ATV& a) { return a.blockOfProof.getHeight(); }
int heightOf(const VTB& a) { return a.containingBlock.getHeight(); }
int heightOf(const VbkBlock& a) { return a.getHeight(); }

struct MpSession : public vw::Session {
  std::map<std::string, Track> track;
  std::set<std::string> loaded;  // instances that went through save + reload
  std::vector<std::string> fails;
  bool afterPass = false;           // the line just executed ran tryConnectPayloads (gen / rmall)
  std::vector<std::string> notes;  // printed as "~<id> <text>": observations that are counted, not failures
  std::unique_ptr<AltChainParamsRegTest> valt;
  std::unique_ptr<PopValidator> validator;

  void fail(const std::string& s) { fails.push_back(s); }

  // ------------------------------------------------------------ views
  template <typename T>
  std::vector<std::string> connectedIds(Instance& I) {
    std::vector<std::string> r;
    for (auto& kv : I.mempool->getMap<T>()) r.push_back(idname(*reg, kv.first));
    return r;
  }
  template <typename T>
  std::vector<std::string> inflightIds(Instance& I) {
    std::vector<std::string> r;
    const typename MemPool::payload_map<T>& m = I.mempool->getInFlightMap<T>();
    for (auto& kv : m) r.push_back(idname(*reg, kv.first));
    return r;
  }

  std::string dumpPool(Instance& I) {
    auto& mp = *I.mempool;
    std::string s = "C atv=[" + join(connectedIds<ATV>(I)) + "] vtb=[" + join(connectedIds<VTB>(I)) + "] vbk=[" +
                    join(connectedIds<VbkBlock>(I)) + "] F atv=[" + join(inflightIds<ATV>(I)) + "] vtb=[" +
                    join(inflightIds<VTB>(I)) + "] vbk=[" + join(inflightIds<VbkBlock>(I)) + "] R";
    std::vector<std::string> rels;
    for (auto& kv : mp.relations_) {
      std::vector<std::string> a, w;
      for (auto& x : kv.second->atvs) a.push_back(idname(*reg, x->getId()));
      for (auto& x : kv.second->vtbs) w.push_back(idname(*reg, x->getId()));
      rels.push_back(idname(*reg, kv.first) + ":{" + join(a) + "|" + join(w) + "}");
    }
    std::sort(rels.begin(), rels.end());
    for (auto& x : rels) s += " " + x;
    return s;
  }

  // ------------------------------------------------------------ the C13 consistency oracle
  template <typename T>
  void checkInflightView(Instance& I, const char* tn) {
    const auto& vsm = I.mempool->getInFlightMap<T>();
    const auto& sorted = vsm.getSortedValues();
    const typename MemPool::payload_map<T>& m = vsm;
    if (sorted.size() != m.size())
      fail(std::string("inflight ") + tn + ": sorted view has " + std::to_string(sorted.size()) + " values, map has " +
           std::to_string(m.size()));
    std::multiset<const T*> a, b;
    int last = INT_MIN;
    for (auto& p : sorted) {
      a.insert(p.get());
      int h = heightOf(*p);
      if (h < last) fail(std::string("inflight ") + tn + ": sorted view is not sorted by height");
      last = h;
    }
    for (auto& kv : m) {
      b.insert(kv.second.get());
      if (!(kv.second->getId() == kv.first)) fail(std::string("inflight ") + tn + ": key is not the id of its value");
    }
    if (a != b) fail(std::string("inflight ") + tn + ": sorted view and map hold different values");
  }

  template <typename T, typename Map>
  void checkKnown(Instance& I, const char* tn, const Map& regmap, std::set<std::string>& knownNow, Track& tr,
                  const std::set<std::string>& resub, const std::set<std::string>& connBefore,
                  std::set<std::string>& connNow, std::set<std::string>& both) {
    auto& mp = *I.mempool;
    const auto& conn = mp.getMap<T>();
    const typename MemPool::payload_map<T>& infl = mp.getInFlightMap<T>();
    for (auto& kv : conn) {
      auto n = idname(*reg, kv.first);
      connNow.insert(n);
      if (infl.count(kv.first)) {
        bool tol = tr.tolerated.count(n) || (resub.count(n) && connBefore.count(n));
        if (tol) both.insert(n);
        // a VBK block waiting in flight becomes the header of a relation as soon as an ATV/VTB carrying it
        // connects (getOrPutVbkRelation does not look at the in-flight blocks; within one connect pass the VBK
        // blocks are handled before the ATVs/VTBs that may carry their parents); a later pass resolves it
        if (!tol && carriesPayloads(*I.mempool, *kv.second)) {
          tol = true;
          notes.push_back("vbk-header-connected-while-in-flight " + n);
        }
        if (!tol) fail(std::string(tn) + " " + n + " is connected AND in flight");
      }
    }
    for (auto& kv : regmap) {
      auto id = kv.second.getId();
      bool c = conn.count(id) != 0, f = infl.count(id) != 0;
      const T* g = mp.get<T>(id);
      bool k = mp.isKnown<T>(id, true);
      if ((g != nullptr) != (c || f)) fail(std::string(tn) + " " + kv.first + ": get() disagrees with the maps");
      if (k != (c || f)) fail(std::string(tn) + " " + kv.first + ": isKnown() disagrees with the maps");
      if (g != nullptr && !(g->getId() == id)) fail(std::string(tn) + " " + kv.first + ": get() returned another payload");
      if (c || f) knownNow.insert(kv.first);
    }
    // every payload in the maps is one the registry created
    for (auto& kv : conn)
      if (idname(*reg, kv.first)[0] == '?') fail(std::string(tn) + ": unknown payload id in the connected map");
    for (auto& kv : infl)
      if (idname(*reg, kv.first)[0] == '?') fail(std::string(tn) + ": unknown payload id in the in-flight map");
  }

  void consistency(const std::string& iname, Instance& I, const std::set<std::string> submitted[3]) {
    auto& mp = *I.mempool;
    Track& tr = track[iname];
    if (tr.mp != &mp) {  // new or reloaded instance: a fresh, empty mempool
      tr = Track();
      tr.mp = &mp;
    }
    checkInflightView<ATV>(I, "ATV");
    checkInflightView<VTB>(I, "VTB");
    checkInflightView<VbkBlock>(I, "VBK");
    // per-type maps = union of the relations
    std::set<std::string> ra, rw;
    size_t na = 0, nw = 0;
    std::set<std::string> carried;  // VBK blocks carried by a connected ATV/VTB
    if (mp.relations_.size() != mp.vbkblocks_.size())
      fail("relations=" + std::to_string(mp.relations_.size()) + " vbkblocks=" + std::to_string(mp.vbkblocks_.size()));
    size_t dupInRel = 0;
    for (auto& kv : mp.relations_) {
      auto& rel = *kv.second;
      std::set<std::string> ra1 = ra, rw1 = rw;  // ids seen in OTHER relations
      if (!(rel.header->getId() == kv.first)) fail("relation key is not the id of its header");
      auto vb = mp.vbkblocks_.find(kv.first);
      if (vb == mp.vbkblocks_.end()) fail("relation " + idname(*reg, kv.first) + " has no entry in vbkblocks");
      else if (!(vb->second->getHash() == rel.header->getHash())) fail("vbkblocks entry differs from relation header");
      for (auto& a : rel.atvs) {
        na++;
        auto n = idname(*reg, a->getId());
        if (!ra.insert(n).second) {
          // the same ATV twice in ONE relation (a duplicate submit of a connected ATV: the set's last tie-break is
          // the shared_ptr address) describes the same set; in two different relations it does not
          if (ra1.count(n)) fail("ATV " + n + " is in two relations"); else dupInRel++;
        }
        if (!(a->blockOfProof.getId() == kv.first)) fail("ATV " + n + " is in the relation of another VBK block");
        auto it = mp.stored_atvs_.find(a->getId());
        if (it == mp.stored_atvs_.end()) fail("ATV " + n + " is in a relation but not in the ATV map");
      }
      for (auto& w : rel.vtbs) {
        nw++;
        auto n = idname(*reg, w->getId());
        if (!rw.insert(n).second) {
          if (rw1.count(n)) fail("VTB " + n + " is in two relations"); else dupInRel++;
        }
        if (!(w->containingBlock.getId() == kv.first)) fail("VTB " + n + " is in the relation of another VBK block");
        if (mp.stored_vtbs_.find(w->getId()) == mp.stored_vtbs_.end()) fail("VTB " + n + " is in a relation but not in the VTB map");
      }
    }
    if (dupInRel) notes.push_back("duplicate-entries-in-relation " + std::to_string(dupInRel));
    for (auto& kv : mp.vbkblocks_)
      if (mp.relations_.find(kv.first) == mp.relations_.end()) fail("vbkblocks entry " + idname(*reg, kv.first) + " has no relation");
    for (auto& kv : mp.stored_atvs_)
      if (!ra.count(idname(*reg, kv.first))) fail("ATV " + idname(*reg, kv.first) + " is in the ATV map but in no relation");
    for (auto& kv : mp.stored_vtbs_)
      if (!rw.count(idname(*reg, kv.first))) fail("VTB " + idname(*reg, kv.first) + " is in the VTB map but in no relation");
    // isKnown / get / disjointness, and the set of payloads known now
    std::set<std::string> now[3];
    std::set<std::string> cn[3], both;
    checkKnown<ATV>(I, "ATV", reg->atv, now[0], tr, submitted[0], tr.conn[0], cn[0], both);
    checkKnown<VTB>(I, "VTB", reg->vtb, now[1], tr, submitted[1], tr.conn[1], cn[1], both);
    checkKnown<VbkBlock>(I, "VBK", reg->vbk, now[2], tr, submitted[2], tr.conn[2], cn[2], both);
    for (auto& n : both)
      if (!tr.tolerated.count(n)) notes.push_back("resubmitted-connected-now-both " + n);
    tr.tolerated = both;
    for (int t = 0; t < 3; t++) tr.conn[t] = cn[t];
    // removed payloads stay removed: whatever is known now was known before or was submitted by this line
    for (int t = 0; t < 2; t++)
      for (auto& n : now[t])
        if (!tr.known[t].count(n) && !submitted[t].count(n)) fail("payload " + n + " reappeared without being submitted");
    for (auto& n : now[0]) carried.insert(idname(*reg, reg->atv.at(n).blockOfProof.getId()));
    for (auto& n : now[1]) carried.insert(idname(*reg, reg->vtb.at(n).containingBlock.getId()));
    for (auto& n : now[2])
      if (!tr.known[2].count(n) && !submitted[2].count(n) && !carried.count(n))
        fail("VBK block " + n + " reappeared without being submitted or carried by a known payload");
    for (int t = 0; t < 3; t++) tr.known[t] = now[t];
  }

  // ------------------------------------------------------------ context availability before a connect pass
  bool vbkPresent(MemPool& mp, const VbkBlock::prev_hash_t& h) { return mp.mempool_tree_.vbk().getBlockIndex(h) != nullptr; }

  // is the VBK context of `b` available: its parent is in the stable or temporary tree, or reachable through
  // in-flight VbkBlock payloads (which the pass handles first, in height order)
  bool vbkAvailable(MemPool& mp, const VbkBlock& b) {
    const typename MemPool::payload_map<VbkBlock>& infl = mp.getInFlightMap<VbkBlock>();
    VbkBlock cur = b;
    for (int guard = 0; guard < 100000; guard++) {
      auto p = cur.getPreviousBlock();
      if (vbkPresent(mp, p)) return true;
      bool found = false;
      for (auto& kv : infl) {
        if (kv.second->getHeight() + 1 == cur.getHeight() && kv.second->getHash().template trimLE<VbkBlock::prev_hash_t::size()>() == p) {
          cur = *kv.second;
          found = true;
          break;
        }
      }
      if (!found) return false;
    }
    return false;
  }
  bool btcAvailable(MemPool& mp, const VTB& w) {
    std::set<std::string> local;
    auto ok = [&](const BtcBlock& b) {
      auto p = b.getPreviousBlock();
      bool have = mp.mempool_tree_.btc().getBlockIndex(p) != nullptr || local.count(vh::hex(p.data(), p.size()));
      auto h = b.getHash();
      local.insert(vh::hex(h.data(), h.size()));
      return have;
    };
    for (auto& b : w.transaction.blockOfProofContext)
      if (!ok(b)) return false;
    return ok(w.transaction.blockOfProof);
  }
  // ids (per type) of in-flight payloads that the next connect pass must take out of the in-flight maps.
  // The pass handles VbkBlocks, then VTBs, then ATVs, each in the height order of the block they carry, so the
  // parent of a carried block may also be supplied by a payload handled EARLIER in the same pass:
  //   VbkBlock: tree, or an in-flight VbkBlock that connects;
  //   VTB     : the above, or the containing block of an in-flight VTB that connects (lower height => earlier);
  //   ATV     : the above, or the block of proof of an in-flight ATV that connects.
  // "connects" = passes the contextual check, its own VBK context is available in this sense, and (VTB) its BTC
  // context is already present before the pass.
  void mustConnect(Instance& I, std::set<std::string> out[3]) {
    auto& mp = *I.mempool;
    const typename MemPool::payload_map<ATV>& fa = mp.getInFlightMap<ATV>();
    const typename MemPool::payload_map<VTB>& fw = mp.getInFlightMap<VTB>();
    const typename MemPool::payload_map<VbkBlock>& fv = mp.getInFlightMap<VbkBlock>();
    auto key = [&](const VbkBlock& b) {
      auto h = b.getHash().template trimLE<VbkBlock::prev_hash_t::size()>();
      return std::to_string(b.getHeight()) + ":" + vh::hex(h.data(), h.size());
    };
    auto pkey = [&](const VbkBlock& b) {
      auto h = b.getPreviousBlock();
      return std::to_string(b.getHeight() - 1) + ":" + vh::hex(h.data(), h.size());
    };
    std::set<std::string> supplied;  // blocks that will be in the temporary tree when later payloads are handled
    auto avail = [&](const VbkBlock& b) { return vbkPresent(mp, b.getPreviousBlock()) || supplied.count(pkey(b)) != 0; };
    // process in the order of the pass; within a type by ascending height of the carried block
    {
      std::vector<const VbkBlock*> l;
      for (auto& kv : fv) l.push_back(kv.second.get());
      std::sort(l.begin(), l.end(), [](const VbkBlock* a, const VbkBlock* b) { return a->getHeight() < b->getHeight(); });
      for (auto* b : l)
        if (avail(*b)) { out[2].insert(idname(*reg, b->getId())); supplied.insert(key(*b)); }
    }
    {
      std::vector<const VTB*> l;
      for (auto& kv : fw) l.push_back(kv.second.get());
      std::sort(l.begin(), l.end(), [](const VTB* a, const VTB* b) { return a->containingBlock.getHeight() < b->containingBlock.getHeight(); });
      for (auto* w : l) {
        ValidationState st;
        if (mp.mempool_tree_.checkContextually(*w, st) && avail(w->containingBlock) && btcAvailable(mp, *w)) {
          out[1].insert(idname(*reg, w->getId()));
          supplied.insert(key(w->containingBlock));
        }
      }
    }
    {
      std::vector<const ATV*> l;
      for (auto& kv : fa) l.push_back(kv.second.get());
      std::sort(l.begin(), l.end(), [](const ATV* a, const ATV* b) { return a->blockOfProof.getHeight() < b->blockOfProof.getHeight(); });
      for (auto* t : l) {
        ValidationState st;
        if (mp.mempool_tree_.checkContextually(*t, st) && avail(t->blockOfProof)) {
          out[0].insert(idname(*reg, t->getId()));
          supplied.insert(key(t->blockOfProof));
        }
      }
    }
  }
  void checkConnected(Instance& I, const std::set<std::string> must[3], const char* op) {
    auto& mp = *I.mempool;
    const typename MemPool::payload_map<ATV>& fa = mp.getInFlightMap<ATV>();
    const typename MemPool::payload_map<VTB>& fw = mp.getInFlightMap<VTB>();
    const typename MemPool::payload_map<VbkBlock>& fv = mp.getInFlightMap<VbkBlock>();
    for (auto& n : must[0])
      if (fa.count(reg->atv.at(n).getId())) fail(std::string(op) + ": ATV " + n + " is still in flight although its context is present");
    for (auto& n : must[1])
      if (fw.count(reg->vtb.at(n).getId())) fail(std::string(op) + ": VTB " + n + " is still in flight although its context is present");
    for (auto& n : must[2])
      if (fv.count(reg->vbk.at(n).getId())) fail(std::string(op) + ": VBK block " + n + " is still in flight although its parent is present");
  }
  // after cleanUp nothing stale is left
  void checkNoStale(Instance& I, const char* op) {
    auto& mp = *I.mempool;
    auto& stable = mp.mempool_tree_.vbk().getStableTree();
    auto chk = [&](const ATV& a, const char* where) {
      ValidationState st;
      if (!mp.mempool_tree_.checkContextually(a, st))
        fail(std::string(op) + ": stale ATV " + idname(*reg, a.getId()) + " (" + st.GetPath() + ") survived in " + where);
    };
    auto chkw = [&](const VTB& a, const char* where) {
      ValidationState st;
      if (!mp.mempool_tree_.checkContextually(a, st))
        fail(std::string(op) + ": stale VTB " + idname(*reg, a.getId()) + " (" + st.GetPath() + ") survived in " + where);
    };
    for (auto& kv : mp.stored_atvs_) chk(*kv.second, "the ATV map");
    for (auto& kv : mp.stored_vtbs_) chkw(*kv.second, "the VTB map");
    // independent of the library's own contextual check: a payload that the ACTIVE ALT chain already contains
    // (payloads index / finalized index) must be forgotten by cleanUp, however old it is
    for (auto& kv : mp.stored_atvs_)
      if (mustBeForgotten(I, *kv.second)) fail(std::string(op) + ": ATV " + idname(*reg, kv.first) + " is on the active chain but still connected");
    for (auto& kv : mp.stored_vtbs_)
      if (mustBeForgotten(I, *kv.second)) fail(std::string(op) + ": VTB " + idname(*reg, kv.first) + " is on the active chain but still connected");
    {
      const typename MemPool::payload_map<ATV>& m = mp.getInFlightMap<ATV>();
      for (auto& kv : m)
        if (mustBeForgotten(I, *kv.second)) fail(std::string(op) + ": ATV " + idname(*reg, kv.first) + " is on the active chain but still in flight");
      const typename MemPool::payload_map<VTB>& m2 = mp.getInFlightMap<VTB>();
      for (auto& kv : m2)
        if (mustBeForgotten(I, *kv.second)) fail(std::string(op) + ": VTB " + idname(*reg, kv.first) + " is on the active chain but still in flight");
    }
    {
      const typename MemPool::payload_map<ATV>& m = mp.getInFlightMap<ATV>();
      for (auto& kv : m) chk(*kv.second, "the in-flight ATVs");
    }
    {
      const typename MemPool::payload_map<VTB>& m = mp.getInFlightMap<VTB>();
      for (auto& kv : m) chkw(*kv.second, "the in-flight VTBs");
    }
    {
      const typename MemPool::payload_map<VbkBlock>& m = mp.getInFlightMap<VbkBlock>();
      for (auto& kv : m) {
        ValidationState st;
        if (!mp.mempool_tree_.checkContextually(*kv.second, st))
          fail(std::string(op) + ": stale VBK block " + idname(*reg, kv.first) + " (" + st.GetPath() + ") survived in flight");
      }
    }
    auto* tip = stable.getBestChain().tip();
    for (auto& kv : mp.relations_) {
      bool tooOld = (tip->getHeight() - stable.getParams().getOldBlocksWindow()) > kv.second->header->getHeight();
      if (tooOld && !kv.second->atvs.empty()) fail(std::string(op) + ": ATVs of too old VBK block " + idname(*reg, kv.first) + " survived");
      if (stable.getBlockIndex(kv.second->header->getHash()) != nullptr && kv.second->empty())
        fail(std::string(op) + ": empty relation of on-chain VBK block " + idname(*reg, kv.first) + " survived");
    }
  }

  // "<TREE> <name> h=.. st=<n> ..." -> st with the level bits cleared; levels[TREE name] = n & 7
  static std::string maskLevels(const std::string& obs, std::map<std::string, int>& levels) {
    std::istringstream is(obs);
    std::string line, out;
    while (std::getline(is, line)) {
      auto p = line.find(" st=");
      if (p != std::string::npos) {
        size_t e = p + 4;
        while (e < line.size() && isdigit((unsigned char)line[e])) e++;
        long st = std::stol(line.substr(p + 4, e - p - 4));
        auto sp = line.find(' ', 4);
        levels[line.substr(0, sp)] = (int)(st & 7);
        line = line.substr(0, p + 4) + std::to_string(st & ~7L) + line.substr(e);
      }
      out += line + "\n";
    }
    return out;
  }

  // observation of all three trees without following any endorsement pointer
  std::string safeObserve(Instance& I) {
    vw::Obs o;
    auto& t = I.tree;
    for (auto* i : t.getBlocks())
      o.add("ALT " + reg->nameOf(i->getHash()) + " h=" + std::to_string(i->getHeight()) + " st=" +
            std::to_string(i->getStatus()) + (i->finalized ? " F" : "") + vw::plIds(*reg, *i));
    std::vector<std::string> tips;
    for (auto* x : t.getTips()) tips.push_back(reg->nameOf(x->getHash()));
    std::sort(tips.begin(), tips.end());
    std::string s = "ALT tips";
    for (auto& x : tips) s += " " + x;
    o.add(s);
    o.add("ALT best " + reg->nameOf(t.getBestChain().tip()->getHash()));
    for (auto* i : t.vbk().getBlocks()) {
      std::string l = "VBK " + reg->nameOf(i->getHash()) + " h=" + std::to_string(i->getHeight()) + " st=" +
                      std::to_string(i->getStatus()) + " rc=" + std::to_string(i->refCount()) + " vtbs=[";
      for (auto& id : i->template getPayloadIds<VTB>()) l += idname(*reg, id) + ",";
      o.add(l + "]");
    }
    o.add("VBK best " + reg->nameOf(t.vbk().getBestChain().tip()->getHash()));
    tips.clear();
    for (auto* x : t.vbk().getTips()) tips.push_back(reg->nameOf(x->getHash()));
    std::sort(tips.begin(), tips.end());
    s = "VBK tips";
    for (auto& x : tips) s += " " + x;
    o.add(s);
    for (auto* i : t.btc().getBlocks()) {
      auto refs = i->getRefs();
      std::sort(refs.begin(), refs.end());
      std::string l = "BTC " + reg->nameOf(i->getHash()) + " h=" + std::to_string(i->getHeight()) + " st=" +
                      std::to_string(i->getStatus()) + " refs=[";
      for (auto x : refs) l += std::to_string(x) + ",";
      o.add(l + "]");
    }
    o.add("BTC best " + reg->nameOf(t.btc().getBestChain().tip()->getHash()));
    return o.str();
  }

  static std::string firstDiff(const std::string& before, const std::string& after) {
    std::istringstream a(before), b(after);
    std::string la, lb;
    while (true) {
      bool ga = (bool)std::getline(a, la), gb = (bool)std::getline(b, lb);
      if (!ga && !gb) break;
      if (!ga) la = "<none>";
      if (!gb) lb = "<none>";
      if (la != lb) return la + " -> " + lb;
    }
    return "";
  }
  // differences that finalization alone cannot explain ("" if there are none): finalization adds the F mark,
  // deallocates blocks (lines disappear), drops outdated tips and shortens the stored active chain
  static std::string diffTrees(const std::string& before, const std::string& after) {
    auto parse = [](const std::string& obs) {
      std::map<std::string, std::string> m;
      std::istringstream is(obs);
      std::string line;
      while (std::getline(is, line)) {
        auto p1 = line.find(' ');
        auto p2 = line.find(' ', p1 + 1);
        auto key = line.substr(0, p2);
        auto f = line.find(" F pl=");
        if (f != std::string::npos) line.erase(f, 2);
        // deallocating a finalized ALT block leaves its endorsement pointer in the VBK block of proof's list
        // (observed: the entry then reads freed memory); the list is not compared once finalization moved
        auto bp = line.find(" bop=[");
        if (bp != std::string::npos && line.compare(0, 4, "VBK ") == 0) line.erase(bp);
        m[key] = line;
      }
      return m;
    };
    auto b = parse(before), a = parse(after);
    for (auto& kv : a) {
      auto it = b.find(kv.first);
      if (it == b.end()) return "<none> -> " + kv.second;
      const std::string& k = kv.first;
      if (k == "ALT applied" || k == "ALT pidx") continue;
      if (k == "ALT tips" || k == "VBK tips" || k == "BTC tips") {
        auto tb = vh::split(it->second), ta = vh::split(kv.second);
        std::set<std::string> sb(tb.begin(), tb.end());
        for (auto& x : ta) if (!sb.count(x)) return it->second + " -> " + kv.second;
        continue;
      }
      if (it->second != kv.second) return it->second + " -> " + kv.second;
    }
    return "";
  }
  static std::set<std::string> finalizedSet(const std::string& obs) {
    std::set<std::string> r;
    std::istringstream is(obs);
    std::string line;
    while (std::getline(is, line))
      if (line.compare(0, 4, "ALT ") == 0 && line.find(" F pl=") != std::string::npos) r.insert(line.substr(0, line.find(' ', 4)));
    return r;
  }

  // ------------------------------------------------------------ PopData helpers
  std::string pdText(const PopData& p) {
    std::vector<std::string> c, w, a;
    for (auto& x : p.context) c.push_back(idname(*reg, x.getId()));
    for (auto& x : p.vtbs) w.push_back(idname(*reg, x.getId()));
    for (auto& x : p.atvs) a.push_back(idname(*reg, x.getId()));
    return "ctx=" + join(c, false) + " vtbs=" + join(w, false) + " atvs=" + join(a, false);
  }
  template <typename Id>
  bool onActiveChain(Instance& I, const Id& id) {
    std::vector<uint8_t> v(id.begin(), id.end());
    if (I.tree.getFinalizedPayloadsIndex().find(v) != nullptr) return true;
    for (auto& h : I.tree.getPayloadsIndex().find(v)) {
      auto* c = I.tree.getBlockIndex(h);
      if (c != nullptr && I.tree.getBestChain().contains(c)) return true;
    }
    return false;
  }

  // a payload the active ALT chain contains AND that is effective there: for a VTB the containing VBK block must be
  // on the VBK best chain of the instance (on a losing VBK fork the VTB is un-applied in the VBK tree, the library's
  // duplicate search cannot see it and accepts a re-announcement - observed on the unchanged tree, counted)
  // for an ATV the endorsed block must still be in memory: once finalization deallocated it, the library can neither
  // find the old containing block (its duplicate search covers the settlement window below the tip) nor tell that
  // the endorsement expired, and accepts a re-announcement (observed on the unchanged tree, counted); the stateful
  // filter of generatePopData refuses such an ATV, and the properties allow a RESUBMITTED payload to be known again
  bool mustBeForgotten(Instance& I, const ATV& a) {
    if (!onActiveChain(I, a.getId())) return false;
    auto eh = I.tree.getParams().getHash(a.transaction.publicationData.header);
    if (I.tree.getBlockIndex(eh) != nullptr) return true;
    notes.push_back("onchain-atv-endorsed-block-deallocated " + idname(*reg, a.getId()));
    return false;
  }
  bool mustBeForgotten(Instance& I, const VTB& w) {
    if (!onActiveChain(I, w.getId())) return false;
    auto* c = I.tree.vbk().getBlockIndex(w.containingBlock.getHash());
    if (c != nullptr && I.tree.vbk().getBestChain().contains(c)) return true;
    notes.push_back("onchain-vtb-on-losing-vbk-fork " + idname(*reg, w.getId()));
    return false;
  }
  bool mustBeForgotten(Instance&, const VbkBlock&) { return false; }

  // ------------------------------------------------------------ ops on an instance
  std::set<std::string> submitted[3];

  template <typename T>
  std::string doSubmit(Instance& I, const T& pl, bool old) {
    ValidationState st;
    auto r = I.mempool->submit<T>(pl, old, st);
    auto id = pl.getId();
    bool c = I.mempool->getMap<T>().count(id) != 0;
    const typename MemPool::payload_map<T>& fm = I.mempool->getInFlightMap<T>();
    bool f = fm.count(id) != 0;
    if (r.isValid() && mustBeForgotten(I, pl))
      fail("submit returned VALID for a payload the active chain already contains");
    if (r.isValid()) {
      // a VBK block that is already in the stable tree is accepted without being stored
      if (!c && !std::is_same<T, VbkBlock>::value) fail("submit returned VALID but the payload is not connected");
      if (f) fail("submit returned VALID but the payload is in flight");
      return "valid";
    }
    if (r.isFailedStateful()) {
      if (!f) fail("submit returned FAILED_STATEFUL but the payload is not in flight");
      return "stateful:" + st.GetPath();
    }
    return "stateless:" + st.GetPath();
  }

  std::string extra(Instance& I, const std::vector<std::string>& t) override {
    const std::string& c = t[0];
    auto& mp = *I.mempool;
    if (c == "sub") {
      const std::string& id = t[1];
      bool old = t.size() > 2 && t[2] == "o1";
      if (id[0] == 't') {
        auto it = reg->atv.find(id);
        if (it == reg->atv.end()) return "SKIP";
        submitted[0].insert(id);
        return doSubmit<ATV>(I, it->second, old);
      }
      if (id[0] == 'w') {
        auto it = reg->vtb.find(id);
        if (it == reg->vtb.end()) return "SKIP";
        submitted[1].insert(id);
        return doSubmit<VTB>(I, it->second, old);
      }
      auto it = reg->vbk.find(id);
      if (it == reg->vbk.end()) return "SKIP";
      submitted[2].insert(id);
      return doSubmit<VbkBlock>(I, it->second, old);
    }
    if (c == "mp") return dumpPool(I);
    if (c == "cleanup") {
      mp.cleanUp();
      checkNoStale(I, "cleanUp");
      return "ok";
    }
    if (c == "clear") {
      mp.clear();
      const typename MemPool::payload_map<ATV>& fa = mp.getInFlightMap<ATV>();
      const typename MemPool::payload_map<VTB>& fw = mp.getInFlightMap<VTB>();
      const typename MemPool::payload_map<VbkBlock>& fv = mp.getInFlightMap<VbkBlock>();
      // all six containers (three connected maps, three in-flight maps and their sorted views) and the relations
      if (!mp.relations_.empty()) fail("clear left relations behind");
      if (!mp.vbkblocks_.empty()) fail("clear left connected VBK blocks behind");
      if (!mp.stored_atvs_.empty()) fail("clear left connected ATVs behind");
      if (!mp.stored_vtbs_.empty()) fail("clear left connected VTBs behind");
      if (!fa.empty() || !mp.getInFlightMap<ATV>().getSortedValues().empty()) fail("clear left in-flight ATVs behind");
      if (!fw.empty() || !mp.getInFlightMap<VTB>().getSortedValues().empty()) fail("clear left in-flight VTBs behind");
      if (!fv.empty() || !mp.getInFlightMap<VbkBlock>().getSortedValues().empty()) fail("clear left in-flight VBK blocks behind");
      for (auto& kv : reg->atv) if (mp.isKnown<ATV>(kv.second.getId(), true)) fail("clear: ATV " + kv.first + " is still known");
      for (auto& kv : reg->vtb) if (mp.isKnown<VTB>(kv.second.getId(), true)) fail("clear: VTB " + kv.first + " is still known");
      for (auto& kv : reg->vbk) if (mp.isKnown<VbkBlock>(kv.second.getId(), true)) fail("clear: VBK block " + kv.first + " is still known");
      return "ok";
    }
    if (c == "rmall") {
      auto it = reg->alt.find(t[1]);
      if (it == reg->alt.end() || !it->second.hasPd) return "SKIP";
      std::set<std::string> must[3];
      mustConnect(I, must);
      const PopData& pd = it->second.pd;
      // payloads of pd that are connected (and not also waiting in flight) must be forgotten; the ones in flight
      // may legitimately be connected by the pass that ends removeAll
      std::vector<ATV::id_t> wasA;
      std::vector<VTB::id_t> wasW;
      {
        const typename MemPool::payload_map<ATV>& fa = mp.getInFlightMap<ATV>();
        const typename MemPool::payload_map<VTB>& fw = mp.getInFlightMap<VTB>();
        for (auto& a : pd.atvs) if (mp.stored_atvs_.count(a.getId()) && !fa.count(a.getId())) wasA.push_back(a.getId());
        for (auto& w : pd.vtbs) if (mp.stored_vtbs_.count(w.getId()) && !fw.count(w.getId())) wasW.push_back(w.getId());
      }
      mp.removeAll(pd);
      for (auto& a : wasA)
        if (mp.get<ATV>(a) != nullptr) fail("removeAll: ATV " + idname(*reg, a) + " is still known");
      for (auto& w : wasW)
        if (mp.get<VTB>(w) != nullptr) fail("removeAll: VTB " + idname(*reg, w) + " is still known");
      auto* bi = I.idx(t[1]);
      if (bi != nullptr && I.tree.getBestChain().contains(bi)) {
        const typename MemPool::payload_map<ATV>& fa = mp.getInFlightMap<ATV>();
        for (auto& a : pd.atvs)
          if (fa.count(a.getId())) fail("removeAll: ATV " + idname(*reg, a.getId()) + " of an active-chain block is still in flight");
      }
      checkConnected(I, must, "removeAll");
      return "ok";
    }
    if (c == "gen") {
      std::set<std::string> must[3];
      mustConnect(I, must);
      bool isLoaded = false;
      for (auto& kv : inst)
        if (kv.second.get() == &I && loaded.count(kv.first)) isLoaded = true;
      // on a loaded tree finalization deallocates ALT blocks and leaves their endorsement pointers in the VBK
      // blocks of proof (observed: heap-use-after-free when they are read), so the endorsement lists are not read there
      auto before = isLoaded ? safeObserve(I) : vw::observe(*reg, I.tree, vw::FULL);
      PopData P = genTraced(I);
      auto after = isLoaded ? safeObserve(I) : vw::observe(*reg, I.tree, vw::FULL);
      // the validity LEVEL (low three status bits) is a memo of what has been validated so far: applying the
      // temporary block may raise it (BLOCK_CAN_BE_APPLIED of a VBK fork block that was applied while the candidate
      // was compared); it must never be lowered. Everything else must be identical.
      std::map<std::string, int> lb, la;
      before = maskLevels(before, lb);
      after = maskLevels(after, la);
      for (auto& kv : lb) {
        auto it2 = la.find(kv.first);
        if (it2 == la.end()) continue;  // a missing line shows up in the text comparison
        if (it2->second < kv.second) fail("generatePopData lowered the validity level of " + kv.first);
        if (it2->second > kv.second) notes.push_back("validity-level-raised-by-generate " + kv.first);
      }
      if (before != after) {
        std::string d = diffTrees(before, after);
        bool f10 = false;
        for (auto& kv : inst)
          if (kv.second.get() == &I && loaded.count(kv.first)) f10 = true;
        if (f10 && d.empty()) {
          // F10: on a LOADED tree the temporary block at tip+1 triggers finalizeBlocks: blocks get finalized /
          // deallocated / outdated fork tips dropped one block early. Reported under its own key.
          fail("F10 generatePopData advanced finalization: finalized ALT blocks before=" +
               std::to_string(finalizedSet(before).size()) + " after=" + std::to_string(finalizedSet(after).size()));
        } else {
          fail("generatePopData changed the trees: " + (d.empty() ? firstDiff(before, after) : d));
        }
      }
      const auto& ap = I.p.alt;
      if (P.context.size() > ap.getMaxVbkBlocksInAltBlock()) fail("generated PopData has too many VBK blocks");
      if (P.vtbs.size() > ap.getMaxVTBsInAltBlock()) fail("generated PopData has too many VTBs");
      if (P.atvs.size() > ap.getMaxATVsInAltBlock()) fail("generated PopData has too many ATVs");
      size_t sz = P.estimateSize();
      if (sz > ap.getMaxPopDataSize()) fail("generated PopData is larger than the configured maximum");
      if (SerializeToVbkEncoding(P).size() != sz) fail("estimateSize of the generated PopData is not its encoded size");
      {
        // the validator's worker queue is sized from the block limits and cannot be 0
        const auto& al = I.p.alt;
        if (al.mMaxVbkBlocksInAltBlock + al.mMaxVTBsInAltBlock + al.mMaxATVsInAltBlock == 0) {
          if (!P.empty()) fail("limits are all zero but the generated PopData is not empty");
        } else {
          if (!validator) {
            // the queue must hold at least two items; larger limits only loosen the size checks of checkPopData,
            // the limits themselves are checked above
            valt.reset(new AltChainParamsRegTest(I.p.alt));
            valt->mMaxVbkBlocksInAltBlock = std::max<size_t>(valt->mMaxVbkBlocksInAltBlock, 2);
            valt->mMaxVTBsInAltBlock = std::max<size_t>(valt->mMaxVTBsInAltBlock, 2);
            valt->mMaxATVsInAltBlock = std::max<size_t>(valt->mMaxATVsInAltBlock, 2);
            validator.reset(new PopValidator(I.p.vbk, I.p.btc, *valt, 1));
          }
          ValidationState st;
          if (!checkPopData(*validator, P, st)) fail("generated PopData fails the stateless check: " + st.GetPath());
        }
      }
      for (auto& x : P.context)
        if (onActiveChain(I, x.getId())) fail("generated VBK block " + idname(*reg, x.getId()) + " is already on the active chain");
      for (auto& x : P.vtbs)
        if (onActiveChain(I, x.getId())) fail("generated VTB " + idname(*reg, x.getId()) + " is already on the active chain");
      for (auto& x : P.atvs)
        if (onActiveChain(I, x.getId())) fail("generated ATV " + idname(*reg, x.getId()) + " is already on the active chain");
      checkConnected(I, must, "generatePopData");
      checkNoStale(I, "generatePopData");
      for (auto& kv : track)
        if (kv.second.mp == &mp) { kv.second.lastP = P; kv.second.hasP = true; }
      return pdText(P) + " size=" + std::to_string(sz);
    }
    if (c == "applygen") {
      // the block made by altgen is the real next block: header, body and activation must all succeed
      auto it = reg->alt.find(t[1]);
      if (it == reg->alt.end()) return "SKIP";
      if (I.idx(it->second.parent) != I.tree.getBestChain().tip()) return "SKIP nottip";
      ValidationState st;
      if (!I.tree.acceptBlockHeader(it->second.block, st)) {
        fail("next block header rejected: " + st.GetPath());
        return "fail hdr";
      }
      auto* i = I.idx(t[1]);
      ValidationState st2;
      if (!checkPopDataForDuplicates(it->second.pd, st2)) {
        fail("generated PopData contains duplicates: " + st2.GetPath());
        return "fail dup";
      }
      I.tree.acceptBlock(*i, it->second.pd, st2);
      if (!i->isConnected() || !i->isValid()) {
        fail("next block with the generated PopData does not connect");
        return "fail body";
      }
      ValidationState st3;
      if (!I.tree.setState(*i, st3)) {
        fail("next block with the generated PopData cannot be activated: " + st3.GetPath());
        return "fail set " + st3.GetPath();
      }
      return "ok";
    }
    if (c == "bits") return bits(I, t.size() > 1 ? t[1] : std::string());
    if (c == "mpv") return dumpViews(I);
    if (c == "info") return info(t[1]);
    if (c == "relv") return relView(I, t.size() > 1 ? t[1] : std::string());
    if (c == "genv") return lastGenTrace.empty() ? std::string("SKIP") : lastGenTrace;
    return "";
  }

  // tree verdict bits for the pool model: per known payload whether the contextual check passes, per relation
  // tooOld / in the stable tree
  // "<block carried> <its parent> <its height>" of a payload (for the pool model)
  std::string info(const std::string& id) {
    const VbkBlock* b = nullptr;
    if (id[0] == 't' && reg->atv.count(id)) b = &reg->atv.at(id).blockOfProof;
    if (id[0] == 'w' && reg->vtb.count(id)) b = &reg->vtb.at(id).containingBlock;
    if (id[0] == 'v' && reg->vbk.count(id)) b = &reg->vbk.at(id);
    if (b == nullptr) return "SKIP";
    std::string parent = "?";
    for (auto& kv : reg->vbk)
      if (kv.second.getHeight() + 1 == b->getHeight() &&
          kv.second.getHash().template trimLE<VbkBlock::prev_hash_t::size()>() == b->getPreviousBlock()) parent = kv.first;
    return idname(*reg, b->getId()) + " " + parent + " " + std::to_string(b->getHeight());
  }
  // connected sets and the in-flight sorted views IN VIEW ORDER
  std::string dumpViews(Instance& I) {
    auto& mp = *I.mempool;
    std::string s = "C atv=" + join(connectedIds<ATV>(I)) + " vtb=" + join(connectedIds<VTB>(I)) + " F atv=";
    std::vector<std::string> a, w, v;
    for (auto& x : mp.getInFlightMap<ATV>().getSortedValues()) a.push_back(idname(*reg, x->getId()));
    for (auto& x : mp.getInFlightMap<VTB>().getSortedValues()) w.push_back(idname(*reg, x->getId()));
    for (auto& x : mp.getInFlightMap<VbkBlock>().getSortedValues()) v.push_back(idname(*reg, x->getId()));
    return s + join(a, false) + " vtb=" + join(w, false) + " vbk=" + join(v, false);
  }
  std::string bits(Instance& I, const std::string& extra) {
    auto& mp = *I.mempool;
    auto& stable = mp.mempool_tree_.vbk().getStableTree();
    std::vector<std::string> stale, old, onchain, present;
    auto ca = [&](const ATV& a) { ValidationState st; if (!mp.mempool_tree_.checkContextually(a, st)) stale.push_back(idname(*reg, a.getId())); };
    auto cw = [&](const VTB& a) { ValidationState st; if (!mp.mempool_tree_.checkContextually(a, st)) stale.push_back(idname(*reg, a.getId())); };
    std::vector<std::string> nobtc;
    for (auto& kv : reg->atv) if (mp.get<ATV>(kv.second.getId()) || kv.first == extra) ca(kv.second);
    for (auto& kv : reg->vtb)
      if (mp.get<VTB>(kv.second.getId()) || kv.first == extra) {
        cw(kv.second);
        if (!btcAvailable(mp, kv.second)) nobtc.push_back(kv.first);
      }
    {
      const typename MemPool::payload_map<VbkBlock>& m = mp.getInFlightMap<VbkBlock>();
      for (auto& kv : m) { ValidationState st; if (!mp.mempool_tree_.checkContextually(*kv.second, st)) stale.push_back(idname(*reg, kv.first)); }
    }
    auto* tip = stable.getBestChain().tip();
    for (auto& kv : reg->vbk) {
      bool tooOld = (tip->getHeight() - stable.getParams().getOldBlocksWindow()) > kv.second.getHeight();
      if (tooOld) old.push_back(kv.first);
      if (stable.getBlockIndex(kv.second.getHash()) != nullptr) onchain.push_back(kv.first);
      if (mp.mempool_tree_.vbk().getBlockIndex(kv.second.getHash()) != nullptr) present.push_back(kv.first);
    }
    return "stale=" + join(stale) + " nobtc=" + join(nobtc) + " old=" + join(old) + " onchain=" + join(onchain) +
           " present=" + join(present);
  }

  // ------------------------------------------------------------ relations-model view (props/_relcorr.py)
  // Every emission of the three mempool signals during the line just executed, with what the pool looked like at
  // that moment: "<id>:<in flight><connected><carried block in the mempool tree>". submit() emits after the
  // in-flight insert (FAILED_STATEFUL), after makePayloadConnected (VALID) and when a relation is created, so the
  // verdict each resubmission of a connect pass actually got can be read off the trace.
  std::map<const MemPool*, std::vector<std::string>> reltrace;
  template <typename T>
  void relNote(MemPool* mp, const T& pl, const VbkBlock& carried) {
    auto id = pl.getId();
    const typename MemPool::payload_map<T>& fm = mp->getInFlightMap<T>();
    bool f = fm.count(id) != 0, c = mp->getMap<T>().count(id) != 0;
    bool p = mp->mempool_tree_.vbk().getBlockIndex(carried.getHash()) != nullptr;
    reltrace[mp].push_back(idname(*reg, id) + ":" + (f ? "1" : "0") + (c ? "1" : "0") + (p ? "1" : "0"));
  }
  // ------------------------------------------------------------ selection trace (props/_gencorr.py)
  // generatePopData through its callback overload (the plain overload calls it with empty callbacks): the candidates
  // in the order filterInvalidPayloads visits them with the verdict each got (k kept, f does-not-fit, d stateless
  // duplicate, x rejected by mutator.add), their estimateSize, the VBK block an ATV/VTB belongs to, the limits and the
  // result. "on <X> genv" returns the trace of the last gen; with VERIF_GEN_TRACE=<file> every gen appends
  // "<history number of this process> <lines of the history so far> <instance> <trace>" to <file>.<pid>.
  std::string lastGenTrace;
  long genHistory = -1, genLine = 0;
  static std::string genCode(const ValidationState& st) {
    if (st.IsValid()) return "k";
    const std::string p = st.GetPath();
    if (p.find("does-not-fit") != std::string::npos) return "f";
    if (p.find("stateless-duplicate") != std::string::npos) return "d";
    return "x";
  }
  PopData genTraced(Instance& I) {
    auto& mp = *I.mempool;
    std::string who = "?";
    for (auto& kv : inst)
      if (kv.second.get() == &I) who = kv.first;
    std::vector<std::string> cb, cw, ca, oc, ow, oa;
    PopData P = mp.generatePopData(
        [&](const ATV& a, const ValidationState& st) {
          ca.push_back(idname(*reg, a.getId()) + ":" + std::to_string(a.estimateSize()) + ":" + genCode(st) + ":" +
                       idname(*reg, a.blockOfProof.getId()));
        },
        [&](const VTB& w, const ValidationState& st) {
          cw.push_back(idname(*reg, w.getId()) + ":" + std::to_string(w.estimateSize()) + ":" + genCode(st) + ":" +
                       idname(*reg, w.containingBlock.getId()));
        },
        [&](const VbkBlock& b, const ValidationState& st) {
          cb.push_back(idname(*reg, b.getId()) + ":" + std::to_string(b.estimateSize()) + ":" + genCode(st) + ":" +
                       std::to_string(b.getHeight()));
        });
    for (auto& x : P.context) oc.push_back(idname(*reg, x.getId()));
    for (auto& x : P.vtbs) ow.push_back(idname(*reg, x.getId()));
    for (auto& x : P.atvs) oa.push_back(idname(*reg, x.getId()));
    const auto& al = I.p.alt;
    lastGenTrace = "lim=" + std::to_string(al.mMaxVbkBlocksInAltBlock) + "/" + std::to_string(al.mMaxVTBsInAltBlock) + "/" +
                   std::to_string(al.mMaxATVsInAltBlock) + "/" + std::to_string(al.mMaxPopDataSize) +
                   " cb=" + join(cb, false) + " cw=" + join(cw, false) + " ca=" + join(ca, false) +
                   " oc=" + join(oc, false) + " ow=" + join(ow, false) + " oa=" + join(oa, false) +
                   " est=" + std::to_string(P.estimateSize());
    if (const char* f = std::getenv("VERIF_GEN_TRACE")) {
      std::ofstream o(std::string(f) + "." + std::to_string((long)getpid()), std::ios::app);
      o << genHistory << " " << genLine << " " << who << " " << lastGenTrace << "\n";
    }
    return P;
  }

  void relHook(Instance& I) {
    MemPool* mp = I.mempool.get();
    if (mp == nullptr || mp->on_atv_accepted.size() != 0) return;
    mp->on_atv_accepted.connect([this, mp](const ATV& a) { relNote<ATV>(mp, a, a.blockOfProof); });
    mp->on_vtb_accepted.connect([this, mp](const VTB& w) { relNote<VTB>(mp, w, w.containingBlock); });
    mp->on_vbkblock_accepted.connect([this, mp](const VbkBlock& b) { relNote<VbkBlock>(mp, b, b); });
  }
  std::string relView(Instance& I, const std::string& alt) {
    auto& mp = *I.mempool;
    std::string pd;  // "relv <a>": the PopData removeAll(<a>) is called with
    {
      auto it = reg->alt.find(alt);
      if (it != reg->alt.end() && it->second.hasPd) {
        std::vector<std::string> c, w, a;
        for (auto& x : it->second.pd.context) c.push_back(idname(*reg, x.getId()));
        for (auto& x : it->second.pd.vtbs) w.push_back(idname(*reg, x.getId()));
        for (auto& x : it->second.pd.atvs) a.push_back(idname(*reg, x.getId()));
        pd = " pdc=" + join(c) + " pdw=" + join(w) + " pda=" + join(a);
      }
    }
    auto& stable = mp.mempool_tree_.vbk().getStableTree();
    auto* tip = stable.getBestChain().tip();
    std::vector<std::string> old, stab, badb, badw, bada;
    for (auto& kv : reg->vbk) {
      // the expressions of MemPool::cleanUp
      const bool tooOld = (tip->getHeight() - stable.getParams().getOldBlocksWindow()) > kv.second.getHeight();
      if (tooOld) old.push_back(kv.first);
      if (stable.getBlockIndex(kv.second.getHash()) != nullptr) stab.push_back(kv.first);
      ValidationState st;
      if (!mp.mempool_tree_.checkContextually(kv.second, st)) badb.push_back(kv.first);
    }
    for (auto& kv : reg->vtb) { ValidationState st; if (!mp.mempool_tree_.checkContextually(kv.second, st)) badw.push_back(kv.first); }
    for (auto& kv : reg->atv) { ValidationState st; if (!mp.mempool_tree_.checkContextually(kv.second, st)) bada.push_back(kv.first); }
    std::vector<std::string> cv, cw, ca;
    for (auto& kv : mp.vbkblocks_) cv.push_back(idname(*reg, kv.first));
    for (auto& kv : mp.stored_vtbs_) cw.push_back(idname(*reg, kv.first));
    for (auto& kv : mp.stored_atvs_) ca.push_back(idname(*reg, kv.first));
    std::vector<std::string> rels;
    for (auto& kv : mp.relations_) {
      std::vector<std::string> a, w;
      for (auto& x : kv.second->atvs) a.push_back(idname(*reg, x->getId()));
      for (auto& x : kv.second->vtbs) w.push_back(idname(*reg, x->getId()));
      std::string sa = join(a), sw = join(w);
      std::replace(sa.begin(), sa.end(), ',', '.');
      std::replace(sw.begin(), sw.end(), ',', '.');
      rels.push_back(idname(*reg, kv.first) + ":" + sa + "/" + sw);
    }
    std::string r = join(rels);
    std::replace(r.begin(), r.end(), ',', ';');
    return "tr=" + join(reltrace[&mp], false) + " old=" + join(old) + " stab=" + join(stab) + " badb=" + join(badb) +
           " badw=" + join(badw) + " bada=" + join(bada) + " cv=" + join(cv) + " cw=" + join(cw) + " ca=" + join(ca) +
           " fv=" + join(inflightIds<VbkBlock>(I)) + " fw=" + join(inflightIds<VTB>(I)) + " fa=" + join(inflightIds<ATV>(I)) +
           " rel=" + r + pd;
  }

  // ------------------------------------------------------------ top level
  std::string run(const std::vector<std::string>& t) {
    fails.clear();
    notes.clear();
    afterPass = t.size() > 2 && t[0] == "on" && (t[2] == "gen" || t[2] == "rmall");
    if (t[0] == "begin") { genHistory++; genLine = 0; }
    genLine++;
    for (auto& s : submitted) s.clear();
    if (!(t.size() > 2 && t[0] == "on" && t[2] == "relv")) reltrace.clear();
    if (reg)
      for (auto& kv : inst) relHook(*kv.second);
    std::string r;
    if (t[0] == "atvs" && reg) {
      r = atvs(t);
    } else if (t[0] == "mix" && reg) {
      r = mix(t);
    } else if (t[0] == "altgen" && reg) {
      r = altgen(t);
    } else if (t[0] == "setlim" && reg) {
      vw::Cfg c;
      c.parse(t, 1);
      auto& a = params->alt;
      a.mMaxVbkBlocksInAltBlock = (size_t)c.get("maxvbk", (long)a.mMaxVbkBlocksInAltBlock);
      a.mMaxVTBsInAltBlock = (size_t)c.get("maxvtb", (long)a.mMaxVTBsInAltBlock);
      a.mMaxATVsInAltBlock = (size_t)c.get("maxatv", (long)a.mMaxATVsInAltBlock);
      a.mMaxPopDataSize = (uint32_t)c.get("maxsize", (long)a.mMaxPopDataSize);
      validator.reset();  // its worker queue is sized from the limits
      r = "ok";
    } else {
      if (t[0] == "begin") {
        track.clear();
        loaded.clear();
        validator.reset();  // holds references to the parameters of the previous session
      }
      r = exec(t);
      if (t.size() > 2 && t[0] == "on" && t[2] == "reload" && r == "ok") loaded.insert(t[1]);
      if ((t[0] == "inst" || t[0] == "twin") && t.size() > 1) loaded.erase(t[t[0] == "twin" ? 2 : 1]);
    }
    if (reg)
      for (auto& kv : inst) consistency(kv.first, *kv.second, submitted);
    return r;
  }

  std::string atvs(const std::vector<std::string>& t) {
    if (t.size() < 3 || !reg->vbk.count(t[1])) return "SKIP";
    std::vector<VbkTx> txs;
    std::vector<std::pair<std::string, std::string>> ids;
    for (size_t i = 2; i < t.size(); i++) {
      auto p = t[i].find(':');
      if (p == std::string::npos) return "SKIP";
      auto tid = t[i].substr(0, p), aid = t[i].substr(p + 1);
      if (reg->atv.count(tid) || !reg->alt.count(aid) || aid == "a0") return "SKIP";
      const auto& e = reg->alt.at(aid);
      PublicationData pub;
      pub.payoutInfo = std::vector<uint8_t>{1, 2, 3, (uint8_t)i};
      pub.identifier = params->alt.getIdentifier();
      pub.header = e.block.toRaw();
      const auto* prev = reg->ref.getBlockIndex(e.block.previousBlock);
      auto cc = AuthenticatedContextInfoContainer::createFromPrevious(uint256(), prev, params->alt);
      pub.contextInfo = SerializeToVbkEncoding(cc);
      txs.push_back(reg->miner.createVbkTxEndorsingAltBlock(pub));
      ids.emplace_back(tid, aid);
    }
    reg->tick();
    auto* blk = reg->miner.mineVbkBlocks(1, *reg->vidx(t[1]), txs);
    if (blk == nullptr) return "SKIP miner-rejected";
    for (size_t i = 0; i < txs.size(); i++) {
      auto a = reg->miner.createATV(blk->getHeader(), txs[i]);
      reg->atv[ids[i].first] = a;
      reg->atvEndorsed[ids[i].first] = ids[i].second;
      auto aid = a.getId();
      reg->names["id:" + vh::hex(aid.data(), aid.size())] = ids[i].first;
    }
    return reg->regVbk(blk->getHeader());
  }

  // mix <vparent> <bparent> <lastKnownBtc> <w>:<endorsed v> <t>:<a> [<t>:<a>...]
  // ONE VBK block carrying a VTB (pop tx) AND ATVs (txs) -> "<vbk id> <btc id>"
  std::string mix(const std::vector<std::string>& t) {
    if (t.size() < 6 || !reg->vbk.count(t[1]) || !reg->btc.count(t[2]) || !reg->btc.count(t[3])) return "SKIP";
    auto pw = t[4].find(':');
    if (pw == std::string::npos) return "SKIP";
    auto wid = t[4].substr(0, pw), ev = t[4].substr(pw + 1);
    if (reg->vtb.count(wid) || !reg->vbk.count(ev)) return "SKIP";
    std::vector<VbkTx> txs;
    std::vector<std::pair<std::string, std::string>> ids;
    for (size_t i = 5; i < t.size(); i++) {
      auto p = t[i].find(':');
      if (p == std::string::npos) return "SKIP";
      auto tid = t[i].substr(0, p), aid = t[i].substr(p + 1);
      if (reg->atv.count(tid) || !reg->alt.count(aid) || aid == "a0") return "SKIP";
      const auto& e = reg->alt.at(aid);
      PublicationData pub;
      pub.payoutInfo = std::vector<uint8_t>{4, 5, 6, (uint8_t)i};
      pub.identifier = params->alt.getIdentifier();
      pub.header = e.block.toRaw();
      const auto* prev = reg->ref.getBlockIndex(e.block.previousBlock);
      auto cc = AuthenticatedContextInfoContainer::createFromPrevious(uint256(), prev, params->alt);
      pub.contextInfo = SerializeToVbkEncoding(cc);
      txs.push_back(reg->miner.createVbkTxEndorsingAltBlock(pub));
      ids.emplace_back(tid, aid);
    }
    const auto& eb = reg->vbk.at(ev);
    auto btctx = reg->miner.createBtcTxEndorsingVbkBlock(eb);
    reg->tick();
    auto* bb = reg->miner.mineBtcBlocks(1, *reg->bidx(t[2]), {btctx});
    if (bb == nullptr) return "SKIP miner-rejected";
    auto ptx = reg->miner.createVbkPopTxEndorsingVbkBlock(bb->getHeader(), btctx, eb, reg->btc.at(t[3]).getHash());
    auto* blk = reg->miner.mineVbkBlocks(1, *reg->vidx(t[1]), txs, std::vector<VbkPopTx>{ptx});
    if (blk == nullptr) { reg->sweep(); return "SKIP miner-rejected " + reg->regBtc(bb->getHeader()); }
    auto v = reg->miner.createVTB(blk->getHeader(), ptx);
    reg->vtb[wid] = v;
    auto vid = v.getId();
    reg->names["id:" + vh::hex(vid.data(), vid.size())] = wid;
    for (size_t i = 0; i < txs.size(); i++) {
      auto a = reg->miner.createATV(blk->getHeader(), txs[i]);
      reg->atv[ids[i].first] = a;
      reg->atvEndorsed[ids[i].first] = ids[i].second;
      auto aid = a.getId();
      reg->names["id:" + vh::hex(aid.data(), aid.size())] = ids[i].first;
    }
    reg->sweep();
    return reg->regVbk(blk->getHeader()) + " " + reg->regBtc(bb->getHeader());
  }

  std::string altgen(const std::vector<std::string>& t) {
    auto it = inst.find(t[2]);
    if (it == inst.end()) return "SKIP noinst";
    Track* tr = nullptr;
    for (auto& kv : track)
      if (kv.second.mp == it->second->mempool.get()) tr = &kv.second;
    if (tr == nullptr || !tr->hasP) return "SKIP nogen";
    auto parent = it->second->tip();
    if (!reg->newAlt(t[1], parent)) return "SKIP";
    auto& a = reg->alt[t[1]];
    a.pd = tr->lastP;
    a.hasPd = true;
    return "parent=" + parent + " " + pdText(a.pd);
  }
};

}  // namespace

// The ASan+UBSan library build cannot run vProgPoW (keccak_f800 left-shifts negative ints, fatal under
// -fno-sanitize-recover): the un-instrumented run of the same script records every VBK header hash
// (VERIF_HASH_REC=<file>) and the sanitizer run preloads them (VERIF_HASH_LOAD=<file>); a miss there means the two
// runs diverged and is reported as a machinery problem (exit code 97), never as a violation.
struct FileHeaderCache : public ProgpowHeaderCacheI {
  std::unordered_map<std::string, std::string> m;
  FILE* rec = nullptr;
  bool strict = false;
  void insert(const uint256& key, uint192 value) override {
    auto k = key.toHex();
    if (m.emplace(k, value.toHex()).second && rec != nullptr) {
      fprintf(rec, "%s %s\n", k.c_str(), value.toHex().c_str());
      fflush(rec);
    }
  }
  bool tryGet(const uint256& key, uint192& value) override {
    auto it = m.find(key.toHex());
    if (it == m.end()) {
      if (strict) {
        fprintf(stderr, "VERIF-HASH-MISS %s\n", key.toHex().c_str());
        fflush(stderr);
        _exit(97);
      }
      return false;
    }
    value = uint192::fromHex(it->second);
    return true;
  }
  void clear() override {}
};

int main() {
  {
    std::unique_ptr<FileHeaderCache> c(new FileHeaderCache());
    if (const char* f = getenv("VERIF_HASH_LOAD")) {
      std::ifstream in(f);
      std::string k, v;
      while (in >> k >> v) c->m[k] = v;
      c->strict = true;
    }
    if (const char* f = getenv("VERIF_HASH_REC")) c->rec = fopen(f, "a");
    setProgpowHeaderCache(std::move(c));
  }
  SetLogger<Logger>(LogLevel::off);
  setMockTime(1700000000);
  MpSession s;
  std::ios::sync_with_stdio(false);
  std::string line;
  while (std::getline(std::cin, line)) {
    auto t = vh::split(line);
    if (t.size() < 2) continue;
    std::vector<std::string> args(t.begin() + 1, t.end());
    std::string r;
    try {
      r = s.run(args);
    } catch (const std::exception& e) {
      r = std::string("THROW ") + e.what();
      s.fails.push_back(r);
    }
    for (auto& f : s.fails) std::cout << "!" << t[0] << " " << f << "\n";
    for (auto& f : s.notes) std::cout << "~" << t[0] << " " << f << "\n";
    std::cout << t[0] << " " << r << "\n";
    std::cout.flush();  // the driver is interactive
  }
  return 0;
}
