// C09 final-block guard harness. Linked against the NDEBUG ("ndebug") variant of the library: what a Release
// build really is (VBK_ASSERT_MSG_DEBUG / assert() expand to nothing, VBK_ASSERT / VBK_ASSERT_MSG stay).
//
// The shared World session (harness/world.hpp) plus one op that the World deliberately answers SKIP for
// (its setState / inv / rm refuse, in the harness, every call that would unapply a final block):
//
//   on X guard <a> set|rm|inv
//
// attempts the DIRECT path in a fork()ed child process, so that a library abort does not end the session and
// a successful forbidden state change does not leak into the history:
//   set : AltBlockTree::setState(a)                         (what an embedder does for its own reorg handling)
//   rm  : AltBlockTree::removeSubtree(a)
//   inv : AltBlockTree::invalidateSubtree(a, BLOCK_FAILED_BLOCK)
//
// answer:  <class> <outcome> <oracle>
//   class    set: below  = at least one finalized block of the active chain lies above the fork point of `a`
//                          (stale fork that forks below the final block, or an active ancestor of the final block)
//                 above  = control: no finalized block has to be unapplied
//            rm/inv: final = `a` is an active finalized block;  free = control
//   outcome  ret=true|false|void          the call returned
//            abort:final-guard            std::terminate after "cannot unapply finalized block"
//            abort:<other>                std::terminate with another message (sanitised first words)
//            signal:<n> / exit:<n>        anything else
//   oracle   ok | bad:<text>  - the direct oracle, evaluated IN THE CHILD on the state the call left behind: after
//            the call returned, or inside the terminate handler at the moment the library gave up:
//              * every block with finalized == true is on the active chain, not deleted and BLOCK_ACTIVE
//              * the root (getRoot()) and the highest finalized block of the active chain did not move down
//              * every entry of finalizedPayloadsIndex whose containing block is still in memory names a
//                finalized block of the active chain
//            (ALT tree; the first and third item also on the VBK tree, the first on the BTC tree)
// `!id <text>` is printed when
//   - the oracle is bad (any class), also when it is already bad BEFORE the attempt (outcome `pre`)
//   - class below/final and the call returned success (set: true, rm/inv: returned)
//   - the child died of anything but std::terminate
//   - a control (above/free) did not succeed
#include <fcntl.h>
#include <sys/types.h>
#include <sys/wait.h>
#include <unistd.h>

#include <csignal>
#include <cstring>
#include <exception>

#include "world.hpp"

using namespace altintegration;

namespace {

struct Before {
  int32_t rootH = 0;
  int32_t finalH = 0;
};

template <typename Tree>
int32_t highestFinalActive(const Tree& t) {
  int32_t h = t.getRoot().getHeight();
  for (auto* i = t.getBestChain().tip(); i != nullptr; i = i->pprev)
    if (i->finalized) { h = std::max(h, i->getHeight()); break; }
  return h;
}

// item 1: finalized => active
template <typename Tree>
void finalActive(const vw::Registry& reg, const Tree& t, const char* name, bool applied, std::string& bad) {
  int n = 0;
  for (auto* i : t.getAllBlocks()) {
    if (!i->finalized) continue;
    const char* why = nullptr;
    if (!t.getBestChain().contains(i)) why = "not-on-active-chain";
    else if (i->isDeleted()) why = "deleted";
    else if (applied && !i->hasFlags(BLOCK_ACTIVE)) why = "unapplied";
    if (why != nullptr && n++ < 4)
      bad += std::string(bad.empty() ? "" : ";") + name + "-final-block-" + reg.nameOf(i->getHash()) + "(h" +
             std::to_string(i->getHeight()) + ")-" + why;
  }
  if (n > 4) bad += ";+" + std::to_string(n - 4) + "-more";
}

// item 3: finalized payload index only names finalized active blocks (or deallocated ones)
template <typename Tree>
void fpidxActive(const vw::Registry& reg, const Tree& t, const char* name, std::string& bad) {
  int n = 0;
  for (auto& kv : t.getFinalizedPayloadsIndex().getAll()) {
    auto* i = t.getBlockIndex(kv.second);
    if (i == nullptr) continue;  // deallocated behind the root: the entry is what is left of it
    if (i->finalized && t.getBestChain().contains(i) && !i->isDeleted()) continue;
    if (n++ < 3) {
      auto it = reg.names.find("id:" + vh::hex(kv.first.data(), kv.first.size()));
      bad += std::string(bad.empty() ? "" : ";") + name + "-fpidx-" + (it == reg.names.end() ? "?" : it->second) +
             "->" + reg.nameOf(kv.second) + "-inactive";
    }
  }
}

std::string oracle(vw::Instance& I, const Before& b) {
  std::string bad;
  const auto& t = I.tree;
  finalActive(I.reg, t, "ALT", true, bad);
  finalActive(I.reg, t.vbk(), "VBK", false, bad);
  finalActive(I.reg, t.btc(), "BTC", false, bad);
  if (t.getRoot().getHeight() < b.rootH)
    bad += (bad.empty() ? "" : ";") + std::string("ALT-root-moved-down-") + std::to_string(b.rootH) + "->" +
           std::to_string(t.getRoot().getHeight());
  auto fh = highestFinalActive(t);
  if (fh < b.finalH)
    bad += (bad.empty() ? "" : ";") + std::string("ALT-final-block-moved-down-") + std::to_string(b.finalH) + "->" +
           std::to_string(fh);
  fpidxActive(I.reg, t, "ALT", bad);
  fpidxActive(I.reg, t.vbk(), "VBK", bad);
  return bad.empty() ? "ok" : "bad:" + bad;
}

// ---- child-side reporting (terminate handler needs globals)
vw::Instance* g_inst = nullptr;
Before g_before;
int g_fd = -1;

void writeAll(int fd, const std::string& s) {
  size_t off = 0;
  while (off < s.size()) {
    ssize_t k = ::write(fd, s.data() + off, s.size() - off);
    if (k <= 0) break;
    off += (size_t)k;
  }
}

[[noreturn]] void onTerminate() {
  // the library gave up (VBK_ASSERT_MSG -> std::terminate, or an escaped exception): judge the state it leaves
  std::string r = "T " + oracle(*g_inst, g_before) + "\n";
  writeAll(g_fd, r);
  std::_Exit(77);
}

std::string readAll(int fd) {
  std::string s;
  char buf[4096];
  while (true) {
    ssize_t k = ::read(fd, buf, sizeof buf);
    if (k > 0) { s.append(buf, (size_t)k); continue; }
    if (k < 0 && errno == EINTR) continue;
    break;
  }
  return s;
}

std::string abortKind(const std::string& err) {
  if (err.find("cannot unapply finalized block") != std::string::npos) return "final-guard";
  if (err.find("cannot unapply the root block") != std::string::npos) return "root-guard";
  // "Assertion failed at <file>:<line> inside <fn>:\n<expr>\n<msg>" -> file name + line
  std::string k = "other";
  auto p = err.find("Assertion failed at ");
  if (p != std::string::npos) {
    auto e = err.find(" inside", p);
    auto s = err.rfind('/', e);
    if (e != std::string::npos && s != std::string::npos && s > p) k += ":" + err.substr(s + 1, e - s - 1);
  }
  for (auto& c : k) if (c == ' ' || c == '\n') c = '_';
  return k;
}

struct FinSession : public vw::Session {
  std::string curId;

  std::string guard(vw::Instance& I, const std::string& a, const std::string& path) {
    auto* i = I.idx(a);
    if (i == nullptr) return "SKIP unknown";
    if (i->isDeleted()) return "SKIP deleted";
    auto& tree = I.tree;
    const auto& chain = tree.getBestChain();
    bool active = chain.contains(i);
    std::string cls;
    if (path == "set") {
      if (!i->isConnected()) return "SKIP unconnected";
      if (i == chain.tip()) return "SKIP tip";
      auto* fork = findFork(chain, (const BlockIndex<AltBlock>*)i);
      if (fork == nullptr) return "SKIP nofork";
      cls = "above";
      for (auto* w = chain.tip(); w != nullptr && w != fork; w = w->pprev)
        if (w->finalized) { cls = "below"; break; }
      if (cls == "above" && !i->isValid()) return "SKIP invalid";
    } else if (path == "rm" || path == "inv") {
      if (i->isRoot()) return "SKIP root";
      if (path == "inv" && !i->isValid()) return "SKIP invalid";
      cls = (active && i->finalized) ? "final" : "free";
      if (cls == "free" && active)
        for (auto* w = chain.tip(); w != nullptr && w != i->pprev; w = w->pprev)
          if (w->finalized) cls = "final";
    } else {
      return "SKIP path";
    }

    Before b;
    b.rootH = tree.getRoot().getHeight();
    b.finalH = highestFinalActive(tree);
    auto pre = oracle(I, b);
    if (pre != "ok") {
      vh::oracle_fail(curId, "C09 final-guard: before the attempt already " + pre);
      return cls + " pre " + pre;
    }

    int res[2], err[2];
    if (::pipe(res) != 0 || ::pipe(err) != 0) return "SKIP pipe";
    std::cout.flush();
    pid_t pid = ::fork();
    if (pid < 0) return "SKIP fork";
    if (pid == 0) {
      ::close(res[0]);
      ::close(err[0]);
      ::dup2(err[1], 2);
      g_inst = &I;
      g_before = b;
      g_fd = res[1];
      std::set_terminate(onTerminate);
      ::alarm(60);  // a child that does not come back is reported as signal:14
      std::string ret;
      try {
        if (path == "set") {
          ValidationState st;
          ret = tree.setState(*i, st) ? "true" : "false";
        } else if (path == "rm") {
          tree.removeSubtree(*i);
          ret = "void";
        } else {
          tree.invalidateSubtree(*i, BLOCK_FAILED_BLOCK);
          ret = "void";
        }
      } catch (...) {
        onTerminate();
      }
      writeAll(res[1], "R " + ret + " " + oracle(I, b) + "\n");
      std::_Exit(0);
    }
    ::close(res[1]);
    ::close(err[1]);
    std::string etxt = readAll(err[0]);
    std::string rtxt = readAll(res[0]);
    ::close(res[0]);
    ::close(err[0]);
    int status = 0;
    while (::waitpid(pid, &status, 0) < 0 && errno == EINTR) {}

    std::string outcome, orc = "-";
    auto t = vh::split(rtxt);
    if (WIFSIGNALED(status)) {
      outcome = "signal:" + std::to_string(WTERMSIG(status));
    } else if (WEXITSTATUS(status) == 0 && t.size() >= 3 && t[0] == "R") {
      outcome = "ret=" + t[1];
      orc = t[2];
    } else if (WEXITSTATUS(status) == 77 && t.size() >= 2 && t[0] == "T") {
      outcome = "abort:" + abortKind(etxt);
      orc = t[1];
    } else {
      outcome = "exit:" + std::to_string(WEXITSTATUS(status));
    }

    const std::string what = path + " " + a + " (" + cls + ") -> " + outcome + " " + orc;
    bool guarded = cls == "below" || cls == "final";
    if (orc.rfind("bad:", 0) == 0)
      vh::oracle_fail(curId, "C09 final-guard: " + what);
    else if (outcome.rfind("signal:", 0) == 0 || outcome.rfind("exit:", 0) == 0)
      vh::oracle_fail(curId, "C09 final-guard: the library crashed: " + what);
    else if (guarded && (outcome == "ret=true" || outcome == "ret=void"))
      vh::oracle_fail(curId, "C09 final-guard: a call that has to unapply a finalized block reported success: " + what);
    else if (!guarded && outcome != "ret=true" && outcome != "ret=void")
      vh::oracle_fail(curId, "C09 final-guard control: a state change that leaves every finalized block active did not succeed: " + what);
    return cls + " " + outcome + " " + orc;
  }

  std::string extra(vw::Instance& I, const std::vector<std::string>& t) override {
    if (t[0] == "guard" && t.size() >= 3) return guard(I, t[1], t[2]);
    if (t[0] == "fstate") {
      // root / highest finalized active block / tip, and the number of finalized blocks in memory
      auto& tree = I.tree;
      int nf = 0;
      for (auto* i : tree.getAllBlocks()) nf += i->finalized ? 1 : 0;
      int32_t fh = highestFinalActive(tree);
      auto* f = tree.getBestChain()[fh];
      return "root=" + I.reg.nameOf(tree.getRoot().getHash()) + " final=" + (f ? I.reg.nameOf(f->getHash()) : "?") +
             " tip=" + I.tip() + " nfinal=" + std::to_string(nf) +
             " fpidx=" + std::to_string(tree.getFinalizedPayloadsIndex().size());
    }
    return "";
  }
};

}  // namespace

int main() {
  SetLogger<Logger>(LogLevel::off);
  setMockTime(1700000000);
  ::signal(SIGPIPE, SIG_IGN);
  FinSession s;
  return vh::main_loop([&](const std::string& id, const std::string& op, const std::vector<std::string>& a) {
    std::vector<std::string> t{op};
    t.insert(t.end(), a.begin(), a.end());
    s.curId = id;
    return s.exec(t);
  });
}
