// BFI bitcoin wire types (include/veriblock/bfi/bitcoin/{serialize,transaction,block}.hpp): the REAL
// Serialize / Unserialize templates over WriteStream / ReadStream and GetSerializeSize (CSizeComputer).
//
//   consts                     -> <MAX_SIZE>
//   cs_w <n>                   -> <hex of WriteCompactSize(n)> <GetSizeOfCompactSize(n)>
//   cs_r <hex>                 -> OK <n> <rest> | ERR <kind>
//   enc  <type> <value tokens> -> <hex> <GetSerializeSize | ->     (oracle: decode(encode x) == x, size == length)
//   encx <type> <value tokens> -> same without the oracle (values outside the round-trip premise)
//   dec  <type> <hex>          -> OK <value tokens> R <rest> | ERR <kind>   (oracle: re-encode ++ rest == input)
//
// value tokens (numbers hex, '-' negative; bytes hex, "-" empty):
//   u8..u64 i8..i64: n | bytes, str, u256: bytes | vec:<T>: count T* | outpoint: hash n
//   txin: hash n script seq nwit item* | txout: value script | tx, txnw: version locktime nin txin* nout txout*
//   header: version prev merkle time bits nonce | block, blocknw: header ntx tx*
// txnw/blocknw use a stream whose version has SERIALIZE_TRANSACTION_NO_WITNESS set.
// A std::ios_base::failure is the result ERR <kind>; anything else escapes to main_loop (THROW ...).
#include <veriblock/bfi/bitcoin/block.hpp>
#include <veriblock/bfi/bitcoin/serialize.hpp>
#include <veriblock/bfi/bitcoin/transaction.hpp>

#include <stdexcept>

#include "common.hpp"
using namespace altintegration;
using namespace altintegration::btc;

typedef std::vector<uint8_t> Bytes;

struct Tok {
  const std::vector<std::string>& a;
  size_t i;
  const std::string& next() {
    if (i >= a.size()) throw std::runtime_error("harness: tokens exhausted");
    return a[i++];
  }
};
typedef std::vector<std::string> Out;

static std::string err_kind(const std::string& w) {
  if (w.find("non-canonical") != std::string::npos) return "NONCANONICAL";
  if (w.find("size too large") != std::string::npos) return "TOOLARGE";
  if (w.find("Superfluous witness") != std::string::npos) return "SUPERFLUOUS";
  if (w.find("Unknown transaction optional data") != std::string::npos) return "UNKNOWNOPT";
  if (w.find("underflow") != std::string::npos) return "EOF";
  return "OTHER:" + w;
}

template <class T, class Enable = void>
struct IO;

template <class T>
struct IO<T, typename std::enable_if<std::is_integral<T>::value && std::is_unsigned<T>::value>::type> {
  static T parse(Tok& t) { return (T)vh::parse_hex64(t.next()); }
  static void show(const T& v, Out& o) { o.push_back(vh::hexnum((uint64_t)v)); }
};
template <class T>
struct IO<T, typename std::enable_if<std::is_integral<T>::value && std::is_signed<T>::value>::type> {
  static T parse(Tok& t) {
    const std::string& s = t.next();
    if (!s.empty() && s[0] == '-') return (T)(0 - vh::parse_hex64(s.substr(1)));
    return (T)vh::parse_hex64(s);
  }
  static void show(const T& v, Out& o) {
    int64_t x = (int64_t)v;
    if (x < 0) o.push_back("-" + vh::hexnum((uint64_t)0 - (uint64_t)x));
    else o.push_back(vh::hexnum((uint64_t)x));
  }
};
template <>
struct IO<Bytes> {
  static Bytes parse(Tok& t) { return vh::unhex(t.next()); }
  static void show(const Bytes& v, Out& o) { o.push_back(vh::hex(v)); }
};
template <>
struct IO<std::string> {
  static std::string parse(Tok& t) {
    Bytes b = vh::unhex(t.next());
    return std::string(b.begin(), b.end());
  }
  static void show(const std::string& v, Out& o) { o.push_back(vh::hex(Bytes(v.begin(), v.end()))); }
};
template <>
struct IO<uint256> {
  static uint256 parse(Tok& t) {
    Bytes b = vh::unhex(t.next());
    if (b.size() != 32) throw std::runtime_error("harness: u256 needs 32 bytes");
    return uint256(b);
  }
  static void show(const uint256& v, Out& o) { o.push_back(vh::hex(Bytes(v.begin(), v.end()))); }
};
template <class T>
struct IO<std::vector<T>, typename std::enable_if<!std::is_same<T, uint8_t>::value>::type> {
  static std::vector<T> parse(Tok& t) {
    uint64_t n = vh::parse_hex64(t.next());
    std::vector<T> v;
    for (uint64_t i = 0; i < n; i++) v.push_back(IO<T>::parse(t));
    return v;
  }
  static void show(const std::vector<T>& v, Out& o) {
    o.push_back(vh::hexnum(v.size()));
    for (const auto& x : v) IO<T>::show(x, o);
  }
};
template <>
struct IO<OutPoint> {
  static OutPoint parse(Tok& t) {
    OutPoint p;
    p.hash = IO<uint256>::parse(t);
    p.n = IO<uint32_t>::parse(t);
    return p;
  }
  static void show(const OutPoint& v, Out& o) {
    IO<uint256>::show(v.hash, o);
    IO<uint32_t>::show(v.n, o);
  }
};
template <>
struct IO<TxIn> {
  static TxIn parse(Tok& t) {
    TxIn i;
    i.prevout = IO<OutPoint>::parse(t);
    i.scriptSig = IO<Bytes>::parse(t);
    i.nSequence = IO<uint32_t>::parse(t);
    i.scriptWitness = IO<std::vector<Bytes>>::parse(t);
    return i;
  }
  static void show(const TxIn& v, Out& o) {
    IO<OutPoint>::show(v.prevout, o);
    IO<Bytes>::show(v.scriptSig, o);
    IO<uint32_t>::show(v.nSequence, o);
    IO<std::vector<Bytes>>::show(v.scriptWitness, o);
  }
};
template <>
struct IO<TxOut> {
  static TxOut parse(Tok& t) {
    TxOut x;
    x.nValue = IO<int64_t>::parse(t);
    x.scriptPubKey = IO<Bytes>::parse(t);
    return x;
  }
  static void show(const TxOut& v, Out& o) {
    IO<int64_t>::show(v.nValue, o);
    IO<Bytes>::show(v.scriptPubKey, o);
  }
};
template <>
struct IO<Transaction> {
  static Transaction parse(Tok& t) {
    Transaction x;
    x.nVersion = IO<int32_t>::parse(t);
    x.nLockTime = IO<uint32_t>::parse(t);
    x.vin = IO<std::vector<TxIn>>::parse(t);
    x.vout = IO<std::vector<TxOut>>::parse(t);
    return x;
  }
  static void show(const Transaction& v, Out& o) {
    IO<int32_t>::show(v.nVersion, o);
    IO<uint32_t>::show(v.nLockTime, o);
    IO<std::vector<TxIn>>::show(v.vin, o);
    IO<std::vector<TxOut>>::show(v.vout, o);
  }
};
static void show_header(const BtcBlock& v, Out& o) {
  IO<int32_t>::show(v.getVersion(), o);
  IO<uint256>::show(v.getPreviousBlock(), o);
  IO<uint256>::show(v.getMerkleRoot(), o);
  IO<uint32_t>::show(v.getTimestamp(), o);
  IO<uint32_t>::show(v.getDifficulty(), o);
  IO<uint32_t>::show(v.getNonce(), o);
}
template <>
struct IO<BlockHeader> {
  static BlockHeader parse(Tok& t) {
    int32_t ver = IO<int32_t>::parse(t);
    uint256 prev = IO<uint256>::parse(t);
    uint256 mr = IO<uint256>::parse(t);
    uint32_t ts = IO<uint32_t>::parse(t);
    uint32_t bits = IO<uint32_t>::parse(t);
    uint32_t nonce = IO<uint32_t>::parse(t);
    return BlockHeader(ver, prev, mr, ts, bits, nonce);
  }
  static void show(const BlockHeader& v, Out& o) { show_header(v, o); }
};
template <>
struct IO<Block> {
  static Block parse(Tok& t) {
    int32_t ver = IO<int32_t>::parse(t);
    uint256 prev = IO<uint256>::parse(t);
    uint256 mr = IO<uint256>::parse(t);
    uint32_t ts = IO<uint32_t>::parse(t);
    uint32_t bits = IO<uint32_t>::parse(t);
    uint32_t nonce = IO<uint32_t>::parse(t);
    Block b(ver, prev, mr, ts, bits, nonce);
    b.vtx = IO<std::vector<Transaction>>::parse(t);
    return b;
  }
  static void show(const Block& v, Out& o) {
    show_header(v, o);
    IO<std::vector<Transaction>>::show(v.vtx, o);
  }
};

static std::string join(const Out& o) {
  std::string r;
  for (size_t i = 0; i < o.size(); i++) {
    if (i) r.push_back(' ');
    r += o[i];
  }
  return r;
}

template <class T>
static Bytes encode(const T& v, uint32_t ver) {
  WriteStream w;
  w.setVersion(ver);
  Serialize(w, v);
  return w.data();
}

// GetSerializeSize exists only where the type serializes into a CSizeComputer (Transaction asks the stream for
// getVersion(), which CSizeComputer does not have)
template <class T, bool HasSize>
struct SizeOf {
  static std::string get(const T& v, size_t) { return vh::hexnum(GetSerializeSize(v)); }
};
template <class T>
struct SizeOf<T, false> {
  static std::string get(const T&, size_t) { return "-"; }
};

template <class T, bool HasSize>
static std::string do_enc(const std::string& id, Tok& t, uint32_t ver, bool oracle) {
  T v = IO<T>::parse(t);
  Bytes b = encode(v, ver);
  std::string size = SizeOf<T, HasSize>::get(v, b.size());
  if (oracle) {
    if (HasSize && size != vh::hexnum(b.size()))
      vh::oracle_fail(id, "GetSerializeSize=" + size + " but Serialize wrote " + vh::hexnum(b.size()) + " bytes");
    try {
      ReadStream r(b);
      r.setVersion(ver);
      T back{};
      Unserialize(r, back);
      if (!(back == v)) vh::oracle_fail(id, "decode(encode x) != x");
      if (r.remaining() != 0) vh::oracle_fail(id, "decode(encode x) leaves " + vh::hexnum(r.remaining()) + " bytes");
    } catch (const std::ios_base::failure& e) {
      vh::oracle_fail(id, "decode(encode x) throws " + err_kind(e.what()));
    }
  }
  return vh::hex(b) + " " + size;
}

template <class T>
static std::string do_dec(const std::string& id, const Bytes& in, uint32_t ver) {
  ReadStream r(in);
  r.setVersion(ver);
  T v{};
  try {
    Unserialize(r, v);
  } catch (const std::ios_base::failure& e) {
    return "ERR " + err_kind(e.what());
  }
  Bytes rest(in.end() - r.remaining(), in.end());
  Out o;
  IO<T>::show(v, o);
  // re-encode stability: what decoded is encoded to exactly the consumed bytes
  Bytes again = encode(v, ver);
  again.insert(again.end(), rest.begin(), rest.end());
  if (again != in) vh::oracle_fail(id, "re-encoding of the decoded value differs from the consumed bytes");
  return "OK " + join(o) + " R " + vh::hex(rest);
}

static const uint32_t NOWIT = (uint32_t)SERIALIZE_TRANSACTION_NO_WITNESS;

template <class T, bool HasSize>
static std::string run_type(const std::string& id, const std::string& op, Tok& t, uint32_t ver) {
  if (op == "enc") return do_enc<T, HasSize>(id, t, ver, true);
  if (op == "encx") return do_enc<T, HasSize>(id, t, ver, false);
  return do_dec<T>(id, vh::unhex(t.next()), ver);
}

#define TY(name, T, hs, ver) \
  if (ty == name) return run_type<T, hs>(id, op, t, ver);

static std::string dispatch(const std::string& id, const std::string& op, const std::string& ty, Tok& t) {
  TY("u8", uint8_t, true, 0)
  TY("u16", uint16_t, true, 0)
  TY("u32", uint32_t, true, 0)
  TY("u64", uint64_t, true, 0)
  TY("i8", int8_t, true, 0)
  TY("i16", int16_t, true, 0)
  TY("i32", int32_t, true, 0)
  TY("i64", int64_t, true, 0)
  TY("bytes", Bytes, true, 0)
  TY("str", std::string, true, 0)
  TY("u256", uint256, true, 0)
  TY("vec:i8", std::vector<int8_t>, true, 0)
  TY("vec:u16", std::vector<uint16_t>, true, 0)
  TY("vec:u32", std::vector<uint32_t>, true, 0)
  TY("vec:u64", std::vector<uint64_t>, true, 0)
  TY("vec:i32", std::vector<int32_t>, true, 0)
  TY("vec:i64", std::vector<int64_t>, true, 0)
  TY("vec:bytes", std::vector<Bytes>, true, 0)
  TY("vec:str", std::vector<std::string>, true, 0)
  TY("vec:u256", std::vector<uint256>, true, 0)
  TY("vec:vec:u16", std::vector<std::vector<uint16_t>>, true, 0)
  TY("outpoint", OutPoint, true, 0)
  TY("txin", TxIn, true, 0)
  TY("txout", TxOut, true, 0)
  TY("vec:outpoint", std::vector<OutPoint>, true, 0)
  TY("vec:txin", std::vector<TxIn>, true, 0)
  TY("vec:txout", std::vector<TxOut>, true, 0)
  TY("tx", Transaction, false, 0)
  TY("txnw", Transaction, false, NOWIT)
  TY("header", BlockHeader, true, 0)
  TY("block", Block, false, 0)
  TY("blocknw", Block, false, NOWIT)
  throw std::runtime_error("harness: unknown type " + ty);
}

int main() {
  return vh::main_loop([](const std::string& id, const std::string& op,
                          const std::vector<std::string>& args) -> std::string {
    Tok t{args, 0};
    if (op == "consts") return vh::hexnum(MAX_SIZE);
    if (op == "cs_w") {
      uint64_t n = vh::parse_hex64(t.next());
      WriteStream w;
      WriteCompactSize(w, n);
      Bytes b = w.data();
      unsigned sz = GetSizeOfCompactSize(n);
      // the three size figures of the code: GetSizeOfCompactSize, the CSizeComputer overload, the bytes written
      CSizeComputer sc(0);
      WriteCompactSize(sc, n);
      uint64_t m = n;
      size_t viaWrapper = GetSerializeSize(CCompactSize(m));
      if (sz != b.size())
        vh::oracle_fail(id, "GetSizeOfCompactSize=" + vh::hexnum(sz) + " but WriteCompactSize wrote " +
                                vh::hexnum(b.size()) + " bytes");
      if (sc.size() != b.size() || viaWrapper != b.size())
        vh::oracle_fail(id, "CSizeComputer figures " + vh::hexnum(sc.size()) + "/" + vh::hexnum(viaWrapper) +
                                " but WriteCompactSize wrote " + vh::hexnum(b.size()) + " bytes");
      try {
        ReadStream r(b);
        uint64_t back = ReadCompactSize(r);
        if (back != n || r.remaining() != 0) vh::oracle_fail(id, "ReadCompactSize(WriteCompactSize(n)) != n");
        if (n > MAX_SIZE) vh::oracle_fail(id, "ReadCompactSize accepted a size above MAX_SIZE");
      } catch (const std::ios_base::failure& e) {
        if (n <= MAX_SIZE)
          vh::oracle_fail(id, std::string("ReadCompactSize(WriteCompactSize(n)) throws ") + err_kind(e.what()));
      }
      return vh::hex(b) + " " + vh::hexnum(sz);
    }
    if (op == "cs_r") {
      Bytes in = vh::unhex(t.next());
      ReadStream r(in);
      uint64_t n;
      try {
        n = ReadCompactSize(r);
      } catch (const std::ios_base::failure& e) {
        return "ERR " + err_kind(e.what());
      }
      Bytes rest(in.end() - r.remaining(), in.end());
      WriteStream w;
      WriteCompactSize(w, n);
      Bytes again = w.data();
      again.insert(again.end(), rest.begin(), rest.end());
      if (again != in) vh::oracle_fail(id, "WriteCompactSize(ReadCompactSize(bs)) differs from the consumed bytes");
      return "OK " + vh::hexnum(n) + " " + vh::hex(rest);
    }
    if (op == "enc" || op == "encx" || op == "dec") {
      std::string ty = t.next();
      return dispatch(id, op, ty, t);
    }
    throw std::runtime_error("harness: unknown op " + op);
  });
}
