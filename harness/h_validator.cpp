// C16 harness: the real PopValidator / checkPopData on real threads.
//
//   <id> check <workers> <seed> <maxdelay_us> <spec> <dup> <stopmode> <rounds> <realhash> [<maxATV>/<maxVTB>/<maxVBK>]
//   <id> multi <workers> <seed> <maxdelay_us> <rounds> <spec>,<dup> ...   2..4 caller threads share one validator
//   <id> ring <size> <ops..>     the real tp::MPMCBoundedQueue<uint64_t>: u<val> push, o pop -> 1|0 per push, <val>|- per pop
//
// spec: one character per payload, in submission order (context blocks first, then ATVs):
//   v  VbkBlock (regtest, valid proof of work)          x  VbkBlock with height below the fork height
//   t  VTB (hand-built, valid)                           u  VTB, valid tx+signature, wrong VBK merkle path
//   a  ATV accepted by the altchain header check        b  ATV rejected by the altchain header check
//   c  ATV, valid tx+signature, wrong merkle path        e  ATV, valid tx, wrong merkle root in the block of proof
// (the generator lists v/x, then t/u, then a/b/c/e, as PopData does).  Every round checks the SAME PopData object
// three times, then a copy of it, then a fresh deserialisation of its bytes: the `checked` flags the workers write
// into the caller's payloads must never change a verdict. dup=1 appends a copy of the first
// valid payload (=> duplicate ids). Each round builds the PopData on the heap, calls checkPopData on
// the shared PopValidator and destroys the PopData right after the call; stopmode 1 stops and
// restarts the validator between rounds, 2 destroys and re-creates it. The user-supplied
// checkBlockHeader (runs on the worker threads) sleeps / yields a seeded pseudo-random time and
// records (worker, payload) so that the trace can be replayed on the model.
//
// output:  <id> <verdict of round 1>;<verdict of round 2>;...      verdict = valid | dup | invalid:<index>
//          <id>.t <w>/<n>/<worker>:<payload>,...;...                 (per round; ATV payloads only)
// `!<id> ...` when the verdict differs from checking the payloads one after another.
#include <sched.h>
#include <unistd.h>

#include <atomic>
#include <chrono>
#include <condition_variable>
#include <map>
#include <memory>
#include <mutex>
#include <thread>
#include <veriblock/pop/alt-util.hpp>
#include <veriblock/pop/blockchain/alt_chain_params.hpp>
#include <veriblock/pop/blockchain/btc_chain_params.hpp>
#include <veriblock/pop/blockchain/vbk_chain_params.hpp>
#include <veriblock/pop/crypto/secp256k1.hpp>
#include <veriblock/pop/entities/context_info_container.hpp>
#include <veriblock/pop/entities/merkle_tree.hpp>
#include <veriblock/pop/entities/popdata.hpp>
#include <veriblock/pop/mock_miner.hpp>
#include <veriblock/pop/pop_stateless_validator.hpp>
#include <veriblock/pop/stateless_validation.hpp>

#include "common.hpp"
using namespace altintegration;

static uint64_t mix64(uint64_t z) {
  z += 0x9E3779B97F4A7C15ULL;
  z = (z ^ (z >> 30)) * 0xBF58476D1CE4E5B9ULL;
  z = (z ^ (z >> 27)) * 0x94D049BB133111EBULL;
  return z ^ (z >> 31);
}

struct Event {
  size_t worker;
  uint32_t payload;
};
static std::mutex g_evmu;
static std::vector<Event> g_events;
static std::atomic<uint64_t> g_seed{0};
static std::atomic<uint32_t> g_maxdelay{0};

static void perturb(uint64_t key) {
  uint32_t maxd = g_maxdelay.load();
  if (maxd == 0) return;
  uint64_t r = mix64(g_seed.load() ^ mix64(key));
  uint32_t us = (uint32_t)(r % (maxd + 1));
  switch ((r >> 40) % 4) {
    case 0:
      break;
    case 1:
      for (uint32_t i = 0; i < us / 4 + 1; i++) sched_yield();
      break;
    default:
      std::this_thread::sleep_for(std::chrono::microseconds(us));
  }
}

// header bytes of the endorsed altchain block: 'T' idx(4, BE) ok(1) round(4) pad
struct DelayParams : public AltChainParamsRegTest {
  bool checkBlockHeader(const std::vector<uint8_t>& bytes,
                        const std::vector<uint8_t>&,
                        ValidationState& state) const noexcept override {
    if (bytes.size() < 10 || bytes[0] != 'T') return state.Invalid("cb-malformed");
    uint32_t idx = ((uint32_t)bytes[1] << 24) | ((uint32_t)bytes[2] << 16) | ((uint32_t)bytes[3] << 8) | bytes[4];
    size_t wid = *tp::detail::thread_id();
    {
      std::lock_guard<std::mutex> g(g_evmu);
      g_events.push_back({wid, idx});
    }
    perturb(idx);
    if (bytes[5] == 0) return state.Invalid("cb-bad-" + std::to_string(idx));
    return true;
  }
};

static DelayParams g_alt;
// the key pair used by the library's MockMiner
static const std::vector<uint8_t> defaultPrivateKeyVbk = ParseHex(
    "303e020100301006072a8648ce3d020106052b8104000a0427302502010104203abf83fa47"
    "0423d4788a760ef6b7aae1dacf98784b0646057a0adca24e522acb");
static const std::vector<uint8_t> defaultPublicKeyVbk = ParseHex(
    "3056301006072a8648ce3d020106052b8104000a034200042fca63a20cb5208c2a55ff5099"
    "ca1966b7f52e687600784d1de062c1dd9c8a5fe55b2ba5d906c703d37cbd02ecd9c97a8061"
    "10fa05d9014a102a0513dd354ec5");
static VbkChainParamsRegTest g_vbk;
static BtcChainParamsRegTest g_btc;

// realhash=0: every VbkBlock carries a precalculated hash (the library's own shortcut,
// setPrecalculatedHash), so that no vProgPoW evaluation (100 s per epoch under TSan; aborts the
// UBSan build, see C17) is needed; realhash=1: hashes are computed by the workers (rel variant)
static bool g_realhash = false;

static VbkBlock make_vbk(uint32_t idx, bool ok, uint64_t salt);
static VbkBlock make_vbk_h(uint32_t idx, bool ok, uint64_t salt) {
  VbkBlock b = make_vbk(idx, ok, salt);
  if (!g_realhash) {
    uint8_t h[24];
    uint64_t r = mix64(salt * 1315423911ULL + idx);
    for (int i = 0; i < 24; i++) h[i] = (uint8_t)(mix64(r + i) & 0xff);
    h[23] = 0;  // little-endian value below the regtest target
    h[0] |= 1;  // never the all-zero "not computed" marker
    setPrecalculatedHash(b, uint192(Slice<const uint8_t>(h, 24)));
  }
  return b;
}

static VbkBlock make_vbk(uint32_t idx, bool ok, uint64_t salt) {
  VbkBlock b;
  b.setHeight(ok ? (int32_t)(1 + idx) : -(int32_t)(idx + 1));
  b.setVersion(2);
  uint64_t r = mix64(salt ^ mix64(idx * 77 + 5));
  uint8_t buf[16];
  for (int i = 0; i < 16; i++) buf[i] = (uint8_t)(mix64(r + i) & 0xff);
  b.setPreviousBlock(uint96(Slice<const uint8_t>(buf, 12)));
  b.setPreviousKeystone(VbkBlock::keystone_t(Slice<const uint8_t>(buf, 9)));
  b.setSecondPreviousKeystone(VbkBlock::keystone_t(Slice<const uint8_t>(buf + 3, 9)));
  b.setMerkleRoot(uint128(Slice<const uint8_t>(buf, 16)));
  b.setTimestamp(1600000000u + idx);
  b.setDifficulty(0x0101ffff);  // regtest: any hash satisfies the target
  b.setNonce(r & 0xffffffffffULL);
  return b;
}

// merkle root (hex) of the block of proof / containing block -> payload index, to name the payload in
// "Wrong merkle root. Expected: <hex>" messages
static std::map<std::string, uint32_t> g_roots;

static VbkBlock proof_block(uint32_t idx, const uint128& root) {
  VbkBlock bp = make_vbk(1000 + idx, true, 99);
  bp.setMerkleRoot(root);
  if (!g_realhash) {
    uint8_t h[24];
    for (int i = 0; i < 24; i++) h[i] = (uint8_t)(mix64(idx * 31 + i) & 0xff);
    h[0] |= 1;
    setPrecalculatedHash(bp, uint192(Slice<const uint8_t>(h, 24)));
  }
  return bp;
}

// kind: 'a' valid, 'b' rejected by the header hook, 'c' wrong merkle path, 'e' wrong merkle root in block of proof
static ATV make_atv(uint32_t idx, char kind, uint32_t uniq) {
  bool ok = kind != 'b';
  PublicationData pub;
  pub.identifier = g_alt.getIdentifier();
  pub.header = {'T', (uint8_t)(idx >> 24), (uint8_t)(idx >> 16), (uint8_t)(idx >> 8), (uint8_t)idx, (uint8_t)(ok ? 1 : 0),
                (uint8_t)(uniq >> 24), (uint8_t)(uniq >> 16), (uint8_t)(uniq >> 8), (uint8_t)uniq, 0, 0};
  pub.payoutInfo = {1, 2, 3, 4, 5};
  auto ctx = AuthenticatedContextInfoContainer::createFromPrevious(std::vector<uint8_t>(32, 7), nullptr, g_alt);
  pub.contextInfo = SerializeToVbkEncoding(ctx);

  VbkTx tx;
  tx.signatureIndex = 7;
  tx.networkOrType.networkType = g_vbk.getTransactionMagicByte();
  tx.networkOrType.typeId = (uint8_t)TxType::VBK_TX;
  tx.sourceAmount = Coin(1000);
  tx.sourceAddress = Address::fromPublicKey(defaultPublicKeyVbk);
  tx.publicKey = defaultPublicKeyVbk;
  tx.publicationData = pub;
  auto hash = tx.getHash();
  tx.signature = secp256k1::sign(hash, secp256k1::privateKeyFromVbk(defaultPrivateKeyVbk));

  ATV atv;
  atv.transaction = tx;
  VbkMerkleTree tree({hash}, {});
  atv.merklePath = tree.getMerklePath(hash, VbkMerkleTree::TreeIndex::NORMAL);
  auto root = tree.getMerkleRoot().trim<VBK_MERKLE_ROOT_HASH_SIZE>();
  if (kind == 'c') {
    // honest transaction and signature, but the path does not lead to the root of the block of proof
    if (atv.merklePath.layers.empty()) atv.merklePath.layers.emplace_back();
    auto l = atv.merklePath.layers[0].asVector();
    l[5] ^= 0x40;
    atv.merklePath.layers[0] = uint256(l);
  }
  if (kind == 'e') {
    auto v = root.asVector();
    v[3] ^= 0x11;
    root = uint128(v);
  }
  atv.blockOfProof = proof_block(idx, root);
  g_roots[root.toHex()] = idx;
  return atv;
}

// hand-built VTB: a VBK pop transaction whose Bitcoin transaction carries the 80 publication bytes, proven by a
// one-transaction Bitcoin block (no context blocks), signed with the MockMiner key, in a one-transaction VBK block
static VTB make_vtb(uint32_t idx, char kind, uint32_t uniq) {
  VbkPopTx tx;
  tx.networkOrType.networkType = g_vbk.getTransactionMagicByte();
  tx.networkOrType.typeId = (uint8_t)TxType::VBK_POP_TX;
  tx.address = Address::fromPublicKey(defaultPublicKeyVbk);
  tx.publishedBlock = make_vbk(2000 + idx, true, 1234 + uniq);
  tx.publicKey = defaultPublicKeyVbk;
  {
    WriteStream w;
    tx.publishedBlock.toRaw(w);
    tx.address.getPopBytes(w);
    tx.bitcoinTransaction = BtcTx(w.data());
  }
  auto btchash = tx.bitcoinTransaction.getHash();
  tx.merklePath.index = 0;
  tx.merklePath.subject = btchash;
  BtcBlock bp;
  bp.setVersion(1);
  bp.setTimestamp(1600000000u + idx);
  bp.setDifficulty(0x207fffff);
  bp.setNonce(idx);
  bp.setMerkleRoot(tx.merklePath.calculateMerkleRoot().reverse());
  tx.blockOfProof = bp;
  auto hash = tx.getHash();
  tx.signature = secp256k1::sign(hash, secp256k1::privateKeyFromVbk(defaultPrivateKeyVbk));

  VTB vtb;
  vtb.transaction = tx;
  VbkMerkleTree tree({}, {hash});
  vtb.merklePath = tree.getMerklePath(hash, VbkMerkleTree::TreeIndex::POP);
  auto root = tree.getMerkleRoot().trim<VBK_MERKLE_ROOT_HASH_SIZE>();
  if (kind == 'u') {
    if (vtb.merklePath.layers.empty()) vtb.merklePath.layers.emplace_back();
    auto l = vtb.merklePath.layers[0].asVector();
    l[7] ^= 0x20;
    vtb.merklePath.layers[0] = uint256(l);
  }
  vtb.containingBlock = proof_block(3000 + idx, root);
  g_roots[root.toHex()] = idx;
  return vtb;
}

// canonical verdict from the ValidationState of the implementation
static std::string verdict_of(bool ok, const ValidationState& st) {
  if (ok) return "valid";
  std::string path = st.GetPath();
  if (path.find("has-duplicates") != std::string::npos) return "dup";
  auto p = path.find("cb-bad-");
  if (p != std::string::npos) return "invalid:" + std::to_string(std::atoi(path.c_str() + p + 7));
  if (path.find("height-too-low") != std::string::npos) {
    std::string m = st.GetDebugMessage();
    auto q = m.find("got height=-");
    if (q != std::string::npos) return "invalid:" + std::to_string(std::atoi(m.c_str() + q + 12) - 1);
  }
  if (path.find("invalid-merklepath") != std::string::npos && path.find("vbk-check-pop-tx") == std::string::npos) {
    std::string m = st.GetDebugMessage();
    auto q = m.find("Expected: ");
    if (q != std::string::npos) {
      auto it = g_roots.find(m.substr(q + 10, 32));
      if (it != g_roots.end()) return "invalid:" + std::to_string(it->second);
    }
  }
  return "other:" + path + "|" + st.GetDebugMessage();
}

static bool is_ctx(char c) { return c == 'v' || c == 'x'; }
static bool is_vtb(char c) { return c == 't' || c == 'u'; }
static std::unique_ptr<PopData> build(const std::string& spec, bool dup, uint32_t round, uint64_t salt) {
  std::unique_ptr<PopData> pd(new PopData());
  for (uint32_t i = 0; i < spec.size(); i++) {
    char c = spec[i];
    if (is_ctx(c)) pd->context.push_back(make_vbk_h(i, c == 'v', salt + round));
    else if (is_vtb(c)) pd->vtbs.push_back(make_vtb(i, c, round));
    else pd->atvs.push_back(make_atv(i, c, round));
  }
  if (dup) {
    // copy of the first valid payload, appended to its own vector
    for (uint32_t i = 0; i < spec.size(); i++) {
      if (spec[i] == 'v') { pd->context.push_back(make_vbk_h(i, true, salt + round)); break; }
      if (spec[i] == 't') { pd->vtbs.push_back(make_vtb(i, 't', round)); break; }
      if (spec[i] == 'a') { pd->atvs.push_back(make_atv(i, 'a', round)); break; }
    }
  }
  return pd;
}

// a fresh object from the bytes of pd (all `checked` flags false); the precalculated hashes are supplied again
static std::unique_ptr<PopData> reserialise(const PopData& pd) {
  WriteStream w;
  pd.toVbkEncoding(w);
  std::unique_ptr<PopData> out(new PopData());
  ReadStream rs(w.data());
  ValidationState st;
  if (!DeserializeFromVbkEncoding(rs, *out, st)) return nullptr;
  if (out->context.size() != pd.context.size() || out->vtbs.size() != pd.vtbs.size() || out->atvs.size() != pd.atvs.size()) return nullptr;
  if (!g_realhash) {
    for (size_t i = 0; i < pd.context.size(); i++) setPrecalculatedHash(out->context[i], pd.context[i].getHash());
    for (size_t i = 0; i < pd.vtbs.size(); i++) setPrecalculatedHash(out->vtbs[i].containingBlock, pd.vtbs[i].containingBlock.getHash());
    for (size_t i = 0; i < pd.atvs.size(); i++) setPrecalculatedHash(out->atvs[i].blockOfProof, pd.atvs[i].blockOfProof.getHash());
  }
  return out;
}

// one payload after another on this thread, on a fresh copy
static std::string sequential(const std::string& spec, bool dup, uint32_t round, uint64_t salt) {
  auto pd = build(spec, dup, round, salt);
  uint32_t saved = g_maxdelay.exchange(0);
  ValidationState st;
  std::string res = "valid";
  bool bad = false;
  for (auto& b : pd->context) {
    ValidationState s;
    if (!checkBlock(b, s, g_vbk)) { res = verdict_of(false, s); bad = true; break; }
  }
  if (!bad) for (auto& t : pd->vtbs) {
    ValidationState s;
    if (!checkVTB(t, s, g_btc, g_vbk)) { res = verdict_of(false, s); bad = true; break; }
  }
  if (!bad) for (auto& a : pd->atvs) {
    ValidationState s;
    if (!checkATV(a, s, g_alt, g_vbk)) { res = verdict_of(false, s); bad = true; break; }
  }
  if (!bad) {
    ValidationState s;
    if (!checkPopDataForDuplicates(*pd, s)) res = "dup";
  }
  g_maxdelay.store(saved);
  return res;
}

int main() {
  return vh::main_loop([](const std::string& id, const std::string& op, const std::vector<std::string>& a) -> std::string {
    std::cout.flush();  // a sanitizer abort must not lose the results of earlier cases
    if (op == "ring" && a.size() >= 1) {
      tp::MPMCBoundedQueue<uint64_t> q((size_t)std::stoul(a[0]));
      std::string out;
      for (size_t i = 1; i < a.size(); i++) {
        if (a[i][0] == 'u') out += (q.push(std::stoull(a[i].substr(1))) ? " 1" : " 0");
        else { uint64_t v = 0; out += q.pop(v) ? " " + std::to_string(v) : std::string(" -"); }
      }
      return std::to_string(a.size() - 1) + out;
    }
    if (op == "multi" && a.size() >= 6) {
      // <id> multi <workers> <seed> <maxdelay_us> <rounds> <spec>,<dup> <spec>,<dup> ...   (2..4 callers)
      // ONE validator shared by several caller threads, each checking its own PopData at the same time. Every call
      // must return (no exception, no deadlock within the watchdog) the one-by-one verdict of ITS OWN PopData,
      // whatever the other callers submitted; each PopData is destroyed right after its call returned.
      size_t workers = (size_t)std::stoul(a[0]);
      uint64_t seed = std::stoull(a[1]);
      uint32_t maxdelay = (uint32_t)std::stoul(a[2]);
      uint32_t rounds = (uint32_t)std::stoul(a[3]);
      g_realhash = false;
      g_alt.mMaxATVsInAltBlock = 1000; g_alt.mMaxVTBsInAltBlock = 200; g_alt.mMaxVbkBlocksInAltBlock = 200;
      g_seed.store(seed);
      std::vector<std::string> specs;
      std::vector<bool> dups;
      for (size_t i = 4; i < a.size(); i++) {
        auto c = a[i].find(',');
        std::string sp = a[i].substr(0, c);
        specs.push_back(sp == "-" ? std::string() : sp);
        dups.push_back(c != std::string::npos && a[i].substr(c + 1) == "1");
      }
      size_t k = specs.size();
      std::unique_ptr<PopValidator> val(new PopValidator(g_vbk, g_btc, g_alt, workers));
      std::string out;
      for (uint32_t r = 0; r < rounds; r++) {
        std::vector<std::string> expect(k);
        std::vector<std::unique_ptr<PopData>> pds(k);
        for (size_t c = 0; c < k; c++) {
          expect[c] = sequential(specs[c], dups[c], r * 16 + (uint32_t)c, seed);
          pds[c] = build(specs[c], dups[c], r * 16 + (uint32_t)c, seed);
        }
        g_maxdelay.store(maxdelay);
        // shared between the callers and the watchdog; deliberately leaked if a caller never returns
        struct Shared { std::mutex m; std::condition_variable cv; size_t done = 0; std::vector<std::string> got; };
        auto sh = std::make_shared<Shared>();
        sh->got.resize(k);
        std::vector<std::thread> ts;
        PopValidator* v = val.get();
        for (size_t c = 0; c < k; c++) {
          PopData* pd = pds[c].release();
          ts.emplace_back([sh, v, pd, c, maxdelay] {
            std::string res;
            bool ok = true;
            try {
              ValidationState st;
              ok = checkPopData(*v, *pd, st);
              res = verdict_of(ok, st);
            } catch (const std::exception& e) {
              res = std::string("exception:") + e.what();
            } catch (...) {
              res = "exception:unknown";
            }
            delete pd;  // the caller may destroy its PopData as soon as its call returned
            if (!ok) std::this_thread::sleep_for(std::chrono::microseconds(200 + 2 * (uint64_t)maxdelay));
            std::lock_guard<std::mutex> g(sh->m);
            sh->got[c] = res;
            sh->done++;
            sh->cv.notify_all();
          });
        }
        bool all;
        {
          std::unique_lock<std::mutex> g(sh->m);
          all = sh->cv.wait_for(g, std::chrono::seconds(300), [&] { return sh->done == k; });
        }
        if (!all) {
          vh::oracle_fail(id, "round " + std::to_string(r) + ": a caller did not return from checkPopData within the 300 s watchdog");
          std::cout.flush();
          std::_Exit(3);
        }
        for (auto& t : ts) t.join();
        g_maxdelay.store(0);
        for (size_t c = 0; c < k; c++) {
          if (sh->got[c] != expect[c])
            vh::oracle_fail(id, "round " + std::to_string(r) + " caller " + std::to_string(c) + " (" + (specs[c].empty() ? "-" : specs[c]) +
                                    "): concurrent=" + sh->got[c] + " one-by-one=" + expect[c]);
          out += (c ? "," : (r ? ";" : "")) + sh->got[c];
        }
      }
      val->stop();
      val.reset();
      return out;
    }
    if (op != "check" || a.size() < 7) return "UNKNOWN-OP";
    size_t workers = (size_t)std::stoul(a[0]);
    uint64_t seed = std::stoull(a[1]);
    uint32_t maxdelay = (uint32_t)std::stoul(a[2]);
    std::string spec = a[3] == "-" ? std::string() : a[3];
    bool dup = a[4] == "1";
    int stopmode = std::stoi(a[5]);
    uint32_t rounds = (uint32_t)std::stoul(a[6]);
    g_realhash = a.size() > 7 && a[7] == "1";
    // optional small limits "maxATVs/maxVTBs/maxVbkBlocks": the per-worker queue capacity becomes
    // upper_power_of_two(sum), so a long-lived validator wraps its ring buffers many times
    g_alt.mMaxATVsInAltBlock = 1000; g_alt.mMaxVTBsInAltBlock = 200; g_alt.mMaxVbkBlocksInAltBlock = 200;
    if (a.size() > 8 && a[8] != "0") {
      unsigned la = 0, lv = 0, lb = 0;
      if (sscanf(a[8].c_str(), "%u/%u/%u", &la, &lv, &lb) == 3) {
        g_alt.mMaxATVsInAltBlock = la; g_alt.mMaxVTBsInAltBlock = lv; g_alt.mMaxVbkBlocksInAltBlock = lb;
      }
    }

    g_seed.store(seed);
    std::string out, trace;
    std::unique_ptr<PopValidator> val(new PopValidator(g_vbk, g_btc, g_alt, workers));
    for (uint32_t r = 0; r < rounds; r++) {
      std::string expect = sequential(spec, dup, r, seed);
      {
        std::lock_guard<std::mutex> g(g_evmu);
        g_events.clear();
      }
      g_maxdelay.store(maxdelay);
      auto pd = build(spec, dup, r, seed);
      size_t n = pd->context.size() + pd->vtbs.size() + pd->atvs.size();
      ValidationState st;
      bool ok = checkPopData(*val, *pd, st);
      std::string trace_events;
      {
        std::lock_guard<std::mutex> g(g_evmu);
        for (size_t i = 0; i < g_events.size(); i++)
          trace_events += (i ? "," : "") + std::to_string(g_events[i].worker) + ":" + std::to_string(g_events[i].payload);
      }
      std::string first = verdict_of(ok, st);
      // the caller is free to destroy / reuse its PopData as soon as the call returns
      pd.reset();
      // give a worker that (wrongly) still holds a reference the time to use it
      if (!ok) std::this_thread::sleep_for(std::chrono::microseconds(200 + 4 * (uint64_t)maxdelay));
      g_maxdelay.store(0);
      // The workers write `checked` flags (and hashes) into the caller's payloads. A second PopData with the same
      // content is checked three times as the SAME object, then a copy of it, then its bytes deserialised afresh:
      // every verdict must be the one above.
      {
        auto pd2 = build(spec, dup, r, seed);
        auto fresh = reserialise(*pd2);
        if (!fresh) vh::oracle_fail(id, "round " + std::to_string(r) + ": PopData does not survive serialisation");
        for (int again = 1; again <= 3; again++) {
          ValidationState s2;
          bool ok2 = checkPopData(*val, *pd2, s2);
          std::string v2 = verdict_of(ok2, s2);
          if (v2 != first) vh::oracle_fail(id, "round " + std::to_string(r) + ": check #" + std::to_string(again) + " of the same PopData object gives " + v2 + ", expected " + first);
        }
        std::unique_ptr<PopData> copy(new PopData(*pd2));
        pd2.reset();
        {
          ValidationState s3;
          bool ok3 = checkPopData(*val, *copy, s3);
          copy.reset();
          std::string v3 = verdict_of(ok3, s3);
          if (v3 != first) vh::oracle_fail(id, "round " + std::to_string(r) + ": a copy of the already checked PopData gives " + v3 + ", expected " + first);
        }
        if (fresh) {
          ValidationState s4;
          bool ok4 = checkPopData(*val, *fresh, s4);
          fresh.reset();
          std::string v4 = verdict_of(ok4, s4);
          if (v4 != first) vh::oracle_fail(id, "round " + std::to_string(r) + ": the same bytes deserialised afresh give " + v4 + ", expected " + first);
        }
      }
      g_maxdelay.store(0);
      std::string got = verdict_of(ok, st);
      if (got != expect) vh::oracle_fail(id, "round " + std::to_string(r) + " parallel=" + got + " sequential=" + expect);
      out += (r ? ";" : "") + got;
      trace += (r ? ";" : "") + std::to_string(workers) + "/" + std::to_string(n) + "/" + trace_events;
      if (stopmode == 3 && r + 1 < rounds) {
        if (r % 7 == 6) { val->stop(); val->start(workers); }
      } else if (stopmode == 1 && r + 1 < rounds) {
        val->stop();
        val->start(workers);
      } else if (stopmode == 2 && r + 1 < rounds) {
        val.reset();
        val.reset(new PopValidator(g_vbk, g_btc, g_alt, workers));
      }
    }
    val->stop();
    val.reset();
    std::cout << id << ".t " << trace << "\n";
    return out;
  });
}
