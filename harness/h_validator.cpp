// C16 harness: the real PopValidator / checkPopData on real threads.
//
//   <id> check <workers> <seed> <maxdelay_us> <spec> <dup> <stopmode> <rounds> <realhash> [<maxATV>/<maxVTB>/<maxVBK>]
//   <id> ring <size> <ops..>     the real tp::MPMCBoundedQueue<uint64_t>: u<val> push, o pop -> 1|0 per push, <val>|- per pop
//
// spec: one character per payload, in submission order (context blocks first, then ATVs):
//   v  VbkBlock (regtest, valid proof of work)          x  VbkBlock with height below the fork height
//   a  ATV accepted by the altchain header check        b  ATV rejected by the altchain header check
// (the generator always lists v/x before a/b, as PopData does). dup=1 appends a copy of the first
// valid payload (=> duplicate ids). Each round builds the PopData on the heap, calls checkPopData on
// the shared PopValidator and destroys the PopData right after the call; stopmode 1 stops and
// restarts the validator between rounds, 2 destroys and re-creates it. The user-supplied
// checkBlockHeader (runs on the worker threads) sleeps / yields a seeded pseudo-random time and
// records (worker, payload) so that the trace can be replayed on the model.
//
// output:  <id> <verdict of round 1>;<verdict of round 2>;...      verdict = valid | dup | invalid:<index>
//          <id>.t <w>/<n>/<worker>:<payload>,...;...                 (per round; ATV payloads only)
// `!<id> ...` when the verdict differs from checking the payloads one after another.
#include <sched.h>
#include <unistd.h>

#include <atomic>
#include <chrono>
#include <memory>
#include <mutex>
#include <thread>
#include <veriblock/pop/alt-util.hpp>
#include <veriblock/pop/blockchain/alt_chain_params.hpp>
#include <veriblock/pop/blockchain/btc_chain_params.hpp>
#include <veriblock/pop/blockchain/vbk_chain_params.hpp>
#include <veriblock/pop/crypto/secp256k1.hpp>
#include <veriblock/pop/entities/context_info_container.hpp>
#include <veriblock/pop/entities/merkle_tree.hpp>
#include <veriblock/pop/entities/popdata.hpp>
#include <veriblock/pop/mock_miner.hpp>
#include <veriblock/pop/pop_stateless_validator.hpp>
#include <veriblock/pop/stateless_validation.hpp>

#include "common.hpp"
using namespace altintegration;

static uint64_t mix64(uint64_t z) {
  z += 0x9E3779B97F4A7C15ULL;
  z = (z ^ (z >> 30)) * 0xBF58476D1CE4E5B9ULL;
  z = (z ^ (z >> 27)) * 0x94D049BB133111EBULL;
  return z ^ (z >> 31);
}

struct Event {
  size_t worker;
  uint32_t payload;
};
static std::mutex g_evmu;
static std::vector<Event> g_events;
static std::atomic<uint64_t> g_seed{0};
static std::atomic<uint32_t> g_maxdelay{0};

static void perturb(uint64_t key) {
  uint32_t maxd = g_maxdelay.load();
  if (maxd == 0) return;
  uint64_t r = mix64(g_seed.load() ^ mix64(key));
  uint32_t us = (uint32_t)(r % (maxd + 1));
  switch ((r >> 40) % 4) {
    case 0:
      break;
    case 1:
      for (uint32_t i = 0; i < us / 4 + 1; i++) sched_yield();
      break;
    default:
      std::this_thread::sleep_for(std::chrono::microseconds(us));
  }
}

// header bytes of the endorsed altchain block: 'T' idx(4, BE) ok(1) round(4) pad
struct DelayParams : public AltChainParamsRegTest {
  bool checkBlockHeader(const std::vector<uint8_t>& bytes,
                        const std::vector<uint8_t>&,
                        ValidationState& state) const noexcept override {
    if (bytes.size() < 10 || bytes[0] != 'T') return state.Invalid("cb-malformed");
    uint32_t idx = ((uint32_t)bytes[1] << 24) | ((uint32_t)bytes[2] << 16) | ((uint32_t)bytes[3] << 8) | bytes[4];
    size_t wid = *tp::detail::thread_id();
    {
      std::lock_guard<std::mutex> g(g_evmu);
      g_events.push_back({wid, idx});
    }
    perturb(idx);
    if (bytes[5] == 0) return state.Invalid("cb-bad-" + std::to_string(idx));
    return true;
  }
};

static DelayParams g_alt;
// the key pair used by the library's MockMiner
static const std::vector<uint8_t> defaultPrivateKeyVbk = ParseHex(
    "303e020100301006072a8648ce3d020106052b8104000a0427302502010104203abf83fa47"
    "0423d4788a760ef6b7aae1dacf98784b0646057a0adca24e522acb");
static const std::vector<uint8_t> defaultPublicKeyVbk = ParseHex(
    "3056301006072a8648ce3d020106052b8104000a034200042fca63a20cb5208c2a55ff5099"
    "ca1966b7f52e687600784d1de062c1dd9c8a5fe55b2ba5d906c703d37cbd02ecd9c97a8061"
    "10fa05d9014a102a0513dd354ec5");
static VbkChainParamsRegTest g_vbk;
static BtcChainParamsRegTest g_btc;

// realhash=0: every VbkBlock carries a precalculated hash (the library's own shortcut,
// setPrecalculatedHash), so that no vProgPoW evaluation (100 s per epoch under TSan; aborts the
// UBSan build, see C17) is needed; realhash=1: hashes are computed by the workers (rel variant)
static bool g_realhash = false;

static VbkBlock make_vbk(uint32_t idx, bool ok, uint64_t salt);
static VbkBlock make_vbk_h(uint32_t idx, bool ok, uint64_t salt) {
  VbkBlock b = make_vbk(idx, ok, salt);
  if (!g_realhash) {
    uint8_t h[24];
    uint64_t r = mix64(salt * 1315423911ULL + idx);
    for (int i = 0; i < 24; i++) h[i] = (uint8_t)(mix64(r + i) & 0xff);
    h[23] = 0;  // little-endian value below the regtest target
    h[0] |= 1;  // never the all-zero "not computed" marker
    setPrecalculatedHash(b, uint192(Slice<const uint8_t>(h, 24)));
  }
  return b;
}

static VbkBlock make_vbk(uint32_t idx, bool ok, uint64_t salt) {
  VbkBlock b;
  b.setHeight(ok ? (int32_t)(1 + idx) : -(int32_t)(idx + 1));
  b.setVersion(2);
  uint64_t r = mix64(salt ^ mix64(idx * 77 + 5));
  uint8_t buf[16];
  for (int i = 0; i < 16; i++) buf[i] = (uint8_t)(mix64(r + i) & 0xff);
  b.setPreviousBlock(uint96(Slice<const uint8_t>(buf, 12)));
  b.setPreviousKeystone(VbkBlock::keystone_t(Slice<const uint8_t>(buf, 9)));
  b.setSecondPreviousKeystone(VbkBlock::keystone_t(Slice<const uint8_t>(buf + 3, 9)));
  b.setMerkleRoot(uint128(Slice<const uint8_t>(buf, 16)));
  b.setTimestamp(1600000000u + idx);
  b.setDifficulty(0x0101ffff);  // regtest: any hash satisfies the target
  b.setNonce(r & 0xffffffffffULL);
  return b;
}

static ATV make_atv(uint32_t idx, bool ok, uint32_t uniq) {
  PublicationData pub;
  pub.identifier = g_alt.getIdentifier();
  pub.header = {'T', (uint8_t)(idx >> 24), (uint8_t)(idx >> 16), (uint8_t)(idx >> 8), (uint8_t)idx, (uint8_t)(ok ? 1 : 0),
                (uint8_t)(uniq >> 24), (uint8_t)(uniq >> 16), (uint8_t)(uniq >> 8), (uint8_t)uniq, 0, 0};
  pub.payoutInfo = {1, 2, 3, 4, 5};
  auto ctx = AuthenticatedContextInfoContainer::createFromPrevious(std::vector<uint8_t>(32, 7), nullptr, g_alt);
  pub.contextInfo = SerializeToVbkEncoding(ctx);

  VbkTx tx;
  tx.signatureIndex = 7;
  tx.networkOrType.networkType = g_vbk.getTransactionMagicByte();
  tx.networkOrType.typeId = (uint8_t)TxType::VBK_TX;
  tx.sourceAmount = Coin(1000);
  tx.sourceAddress = Address::fromPublicKey(defaultPublicKeyVbk);
  tx.publicKey = defaultPublicKeyVbk;
  tx.publicationData = pub;
  auto hash = tx.getHash();
  tx.signature = secp256k1::sign(hash, secp256k1::privateKeyFromVbk(defaultPrivateKeyVbk));

  ATV atv;
  atv.transaction = tx;
  VbkMerkleTree tree({hash}, {});
  atv.merklePath = tree.getMerklePath(hash, VbkMerkleTree::TreeIndex::NORMAL);
  {
    VbkBlock bp = make_vbk(1000 + idx, true, 99);
    bp.setMerkleRoot(tree.getMerkleRoot().trim<VBK_MERKLE_ROOT_HASH_SIZE>());
    if (!g_realhash) {
      uint8_t h[24];
      for (int i = 0; i < 24; i++) h[i] = (uint8_t)(mix64(idx * 31 + i) & 0xff);
      h[0] |= 1;
      setPrecalculatedHash(bp, uint192(Slice<const uint8_t>(h, 24)));
    }
    atv.blockOfProof = bp;
  }
  return atv;
}

// canonical verdict from the ValidationState of the implementation
static std::string verdict_of(bool ok, const ValidationState& st) {
  if (ok) return "valid";
  std::string path = st.GetPath();
  if (path.find("has-duplicates") != std::string::npos) return "dup";
  auto p = path.find("cb-bad-");
  if (p != std::string::npos) return "invalid:" + std::to_string(std::atoi(path.c_str() + p + 7));
  if (path.find("height-too-low") != std::string::npos) {
    std::string m = st.GetDebugMessage();
    auto q = m.find("got height=-");
    if (q != std::string::npos) return "invalid:" + std::to_string(std::atoi(m.c_str() + q + 12) - 1);
  }
  return "other:" + path;
}

static std::unique_ptr<PopData> build(const std::string& spec, bool dup, uint32_t round, uint64_t salt) {
  std::unique_ptr<PopData> pd(new PopData());
  for (uint32_t i = 0; i < spec.size(); i++) {
    char c = spec[i];
    if (c == 'v' || c == 'x') pd->context.push_back(make_vbk_h(i, c == 'v', salt + round));
    else pd->atvs.push_back(make_atv(i, c == 'a', round));
  }
  if (dup) {
    // copy of the first valid payload, appended to its own vector
    for (uint32_t i = 0; i < spec.size(); i++) {
      if (spec[i] == 'v') { pd->context.push_back(make_vbk_h(i, true, salt + round)); break; }
      if (spec[i] == 'a') { pd->atvs.push_back(make_atv(i, true, round)); break; }
    }
  }
  return pd;
}

// one payload after another on this thread, on a fresh copy
static std::string sequential(const std::string& spec, bool dup, uint32_t round, uint64_t salt) {
  auto pd = build(spec, dup, round, salt);
  uint32_t saved = g_maxdelay.exchange(0);
  ValidationState st;
  std::string res = "valid";
  bool bad = false;
  for (auto& b : pd->context) {
    ValidationState s;
    if (!checkBlock(b, s, g_vbk)) { res = verdict_of(false, s); bad = true; break; }
  }
  if (!bad) for (auto& a : pd->atvs) {
    ValidationState s;
    if (!checkATV(a, s, g_alt, g_vbk)) { res = verdict_of(false, s); bad = true; break; }
  }
  if (!bad) {
    ValidationState s;
    if (!checkPopDataForDuplicates(*pd, s)) res = "dup";
  }
  g_maxdelay.store(saved);
  return res;
}

int main() {
  return vh::main_loop([](const std::string& id, const std::string& op, const std::vector<std::string>& a) -> std::string {
    std::cout.flush();  // a sanitizer abort must not lose the results of earlier cases
    if (op == "ring" && a.size() >= 1) {
      tp::MPMCBoundedQueue<uint64_t> q((size_t)std::stoul(a[0]));
      std::string out;
      for (size_t i = 1; i < a.size(); i++) {
        if (a[i][0] == 'u') out += (q.push(std::stoull(a[i].substr(1))) ? " 1" : " 0");
        else { uint64_t v = 0; out += q.pop(v) ? " " + std::to_string(v) : std::string(" -"); }
      }
      return std::to_string(a.size() - 1) + out;
    }
    if (op != "check" || a.size() < 7) return "UNKNOWN-OP";
    size_t workers = (size_t)std::stoul(a[0]);
    uint64_t seed = std::stoull(a[1]);
    uint32_t maxdelay = (uint32_t)std::stoul(a[2]);
    std::string spec = a[3] == "-" ? std::string() : a[3];
    bool dup = a[4] == "1";
    int stopmode = std::stoi(a[5]);
    uint32_t rounds = (uint32_t)std::stoul(a[6]);
    g_realhash = a.size() > 7 && a[7] == "1";
    // optional small limits "maxATVs/maxVTBs/maxVbkBlocks": the per-worker queue capacity becomes
    // upper_power_of_two(sum), so a long-lived validator wraps its ring buffers many times
    g_alt.mMaxATVsInAltBlock = 1000; g_alt.mMaxVTBsInAltBlock = 200; g_alt.mMaxVbkBlocksInAltBlock = 200;
    if (a.size() > 8 && a[8] != "0") {
      unsigned la = 0, lv = 0, lb = 0;
      if (sscanf(a[8].c_str(), "%u/%u/%u", &la, &lv, &lb) == 3) {
        g_alt.mMaxATVsInAltBlock = la; g_alt.mMaxVTBsInAltBlock = lv; g_alt.mMaxVbkBlocksInAltBlock = lb;
      }
    }

    g_seed.store(seed);
    std::string out, trace;
    std::unique_ptr<PopValidator> val(new PopValidator(g_vbk, g_btc, g_alt, workers));
    for (uint32_t r = 0; r < rounds; r++) {
      std::string expect = sequential(spec, dup, r, seed);
      {
        std::lock_guard<std::mutex> g(g_evmu);
        g_events.clear();
      }
      g_maxdelay.store(maxdelay);
      auto pd = build(spec, dup, r, seed);
      size_t n = pd->context.size() + pd->atvs.size();
      ValidationState st;
      bool ok = checkPopData(*val, *pd, st);
      // the caller is free to destroy / reuse its PopData as soon as the call returns
      pd.reset();
      // give a worker that (wrongly) still holds a reference the time to use it
      if (!ok) std::this_thread::sleep_for(std::chrono::microseconds(200 + 4 * (uint64_t)maxdelay));
      g_maxdelay.store(0);
      std::string got = verdict_of(ok, st);
      if (got != expect) vh::oracle_fail(id, "round " + std::to_string(r) + " parallel=" + got + " sequential=" + expect);
      out += (r ? ";" : "") + got;
      {
        std::lock_guard<std::mutex> g(g_evmu);
        trace += (r ? ";" : "") + std::to_string(workers) + "/" + std::to_string(n) + "/";
        for (size_t i = 0; i < g_events.size(); i++)
          trace += (i ? "," : "") + std::to_string(g_events[i].worker) + ":" + std::to_string(g_events[i].payload);
      }
      if (stopmode == 3 && r + 1 < rounds) {
        if (r % 7 == 6) { val->stop(); val->start(workers); }
      } else if (stopmode == 1 && r + 1 < rounds) {
        val->stop();
        val->start(workers);
      } else if (stopmode == 2 && r + 1 < rounds) {
        val.reset();
        val.reset(new PopValidator(g_vbk, g_btc, g_alt, workers));
      }
    }
    val->stop();
    val.reset();
    std::cout << id << ".t " << trace << "\n";
    return out;
  });
}
