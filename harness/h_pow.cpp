// C15 harness: real BlockTree<BtcBlock,BtcChainParams> / BlockTree<VbkBlock,VbkChainParams>
// with custom parameter sets, several trees in ONE process. Headers are built
// from abstract descriptions (ids instead of hashes) and mined by nonce search.
//   params <name>                                   -> library parameter values
//   consts                                          -> HISTORY_FOR_TIMESTAMP_AVERAGE VBK_MAXIMUM_DIFFICULTY
//   newbtc T limit timespan spacing allow noret future gid gtime gbits
//   newvbk T mindiff noret N T future ks gid gtime gbits
//   now t                                           -> setMockTime
//   acc T id parent time bits pow ks1 ks2           -> <code> tip=<id> work=<hex|-> h=<height|->
//   load T id parent time bits                      -> loadBlockForward(fast): ok work=<hex> h=<height>
//   dup T id | inv T id | probe T parent time | ks T parent ks1 ks2 | chain T id
#include <map>
#include <memory>
#include <veriblock/pop/blockchain/alt_chain_params.hpp>
#include <veriblock/pop/blockchain/blocktree.hpp>
#include <veriblock/pop/blockchain/btc_blockchain_util.hpp>
#include <veriblock/pop/blockchain/btc_chain_params.hpp>
#include <veriblock/pop/blockchain/pop/vbk_block_tree.hpp>
#include <veriblock/pop/blockchain/vbk_blockchain_util.hpp>
#include <veriblock/pop/blockchain/vbk_chain_params.hpp>
#include <veriblock/pop/logger.hpp>
#include <veriblock/pop/stateless_validation.hpp>
#include <veriblock/pop/storage/adaptors/block_provider_impl.hpp>
#include <veriblock/pop/storage/adaptors/inmem_storage_impl.hpp>
#include <veriblock/pop/time.hpp>

#include "common.hpp"
namespace altintegration {
// the definition in vbk_blockchain_util.cpp takes the parameters by reference (the header declares a
// never-defined shared_ptr overload)
bool validateKeystones(const BlockIndex<VbkBlock>& prevBlock, const VbkBlock& block, const VbkChainParams& params);
}
using namespace altintegration;

static std::vector<uint8_t> le_of_hexnum(const std::string& s, size_t n) {
  std::string p = s.size() < 2 * n ? std::string(2 * n - s.size(), '0') + s : s.substr(s.size() - 2 * n);
  auto be = vh::unhex(p);
  return std::vector<uint8_t>(be.rbegin(), be.rend());
}
static std::string num(const ArithUint256& a) { return vh::hexnum_le(a.data(), a.size()); }
static uint64_t H(const std::string& s) { return vh::parse_hex64(s); }

struct BtcP : public BtcChainParams {
  uint256 limit;
  uint32_t timespan = 0, spacing = 0;
  bool allow = false, noret = false;
  void setFuture(uint32_t f) { mMaxFutureBlockTime = f; }
  uint256 getPowLimit() const override { return limit; }
  uint32_t getPowTargetTimespan() const noexcept override { return timespan; }
  uint32_t getPowTargetSpacing() const noexcept override { return spacing; }
  bool getAllowMinDifficultyBlocks() const noexcept override { return allow; }
  bool getPowNoRetargeting() const noexcept override { return noret; }
  bool EnableTimeAdjustment() const noexcept override { return false; }
  uint32_t numBlocksForBootstrap() const noexcept override { return 1; }
  const char* networkName() const noexcept override { return "verif"; }
};

struct VbkP : public VbkChainParamsRegTest {
  uint256 mindiff;
  bool noret = false;
  uint32_t N = 0, T = 0, ks = 0;
  void setFuture(uint32_t f) { mMaxFutureBlockTime = f; }
  uint256 getMinimumDifficulty() const override { return mindiff; }
  bool getPowNoRetargeting() const noexcept override { return noret; }
  uint32_t getRetargetPeriod() const noexcept override { return N; }
  uint32_t getTargetBlockTime() const noexcept override { return T; }
  uint32_t getKeystoneInterval() const noexcept override { return ks; }
};

static std::string code_of(bool ok, const ValidationState& st) {
  if (ok) return "ok";
  std::string p = st.GetPath();
  auto has = [&](const char* s) { return p.find(s) != std::string::npos; };
  if (has("bad-pow")) return "badpow";
  if (has("bad-prev-block")) return "badprev";
  if (has("bad-diffbits")) return "badbits";
  if (has("time-too-old")) return "timeold";
  if (has("time-too-new")) return "timenew";
  if (has("bad-keystones")) return "badks";
  if (has("bad-chain")) return "badchain";
  return "other:" + p;
}

template <class Block, class Params, class PBase>
struct TreeT {
  using tree_t = BlockTree<Block, PBase>;
  using index_t = typename tree_t::index_t;
  Params params;
  AltChainParamsRegTest alt{};
  adaptors::InmemStorageImpl storage{};
  adaptors::BlockReaderImpl reader{storage, alt};
  std::unique_ptr<tree_t> tree;
  std::map<uint64_t, Block> blocks;             // id -> header as submitted
  std::map<std::vector<uint8_t>, uint64_t> ids;  // hash -> id

  void init() { tree.reset(new tree_t(params, reader)); }
  index_t* index_of(uint64_t id) {
    auto it = blocks.find(id);
    if (it == blocks.end()) return nullptr;
    return tree->getBlockIndex(it->second.getHash());
  }
  std::string id_of(const index_t* i) {
    if (!i) return "null";
    auto it = ids.find(i->getHash().asVector());
    return it == ids.end() ? "unknown" : vh::hexnum(it->second);
  }
  void remember(uint64_t id, const Block& b) {
    blocks[id] = b;
    ids[b.getHash().asVector()] = id;
  }
  // nonce search: want = required checkProofOfWork result
  bool mine(Block& b, bool want, uint64_t cap) {
    for (uint64_t n = 0; n < cap; n++) {
      b.setNonce((typename Block::nonce_t)n);
      if (checkProofOfWork(b, params) == want) return true;
    }
    return false;
  }
  std::string submit(uint64_t id, const Block& b) {
    ValidationState st;
    bool ok = tree->acceptBlockHeader(b, st);
    auto* idx = tree->getBlockIndex(b.getHash());
    std::string r = code_of(ok, st) + " tip=" + id_of(tree->getBestChain().tip());
    r += " work=" + (idx ? num(idx->chainWork) : std::string("-"));
    r += " h=" + (idx ? vh::hexnum_s(idx->getHeight()) : std::string("-"));
    return r;
  }
  // loadBlockForward(fast_load = true): no PoW / contextual checks, chain work recovered
  std::string load(uint64_t id, const Block& b, uint64_t parent) {
    auto* pi = index_of(parent);
    if (!pi) return "fail";
    typename tree_t::stored_index_t si;
    si.height = pi->getHeight() + 1;
    si.header = std::make_shared<Block>(b);
    si.status = BLOCK_VALID_TREE;
    remember(id, b);
    ValidationState st;
    bool ok = tree->loadBlockForward(si, true, st);
    auto* idx = tree->getBlockIndex(b.getHash());
    return std::string(ok ? "ok" : "fail") + " work=" + (idx ? num(idx->chainWork) : std::string("-")) +
           " h=" + (idx ? vh::hexnum_s(idx->getHeight()) : std::string("-"));
  }
  std::string inv(uint64_t id) {
    auto* idx = index_of(id);
    if (!idx) return "skip";
    if (tree->getBestChain().contains(idx)) return "skip";
    tree->invalidateSubtree(idx->getHash(), BLOCK_FAILED_BLOCK);
    return "ok tip=" + id_of(tree->getBestChain().tip());
  }
  std::string chain(uint64_t id) {
    auto* idx = index_of(id);
    if (!idx) return "noparent";
    std::string r = vh::hexnum_s(idx->getHeight()) + " ";
    bool first = true;
    for (const index_t* i = idx; i != nullptr; i = i->pprev) {
      if (!first) r += ",";
      first = false;
      r += id_of(i) + ":" + vh::hexnum(i->getTimestamp()) + ":" + vh::hexnum((uint32_t)i->getDifficulty());
    }
    return r;
  }
};

using BtcT = TreeT<BtcBlock, BtcP, BtcChainParams>;
using VbkT = TreeT<VbkBlock, VbkP, VbkChainParams>;
static std::map<std::string, std::unique_ptr<BtcT>> btcs;
static std::map<std::string, std::unique_ptr<VbkT>> vbks;
static const uint64_t BTC_CAP = 1ull << 22, VBK_CAP = 1ull << 9;

static uint256 merkle32(uint64_t id) {
  std::vector<uint8_t> v(32, 0);
  for (int i = 0; i < 8; i++) v[i] = (uint8_t)(id >> (8 * i));
  v[31] = 0xc1;
  return uint256(v);
}
static uint128 merkle16(uint64_t id) {
  std::vector<uint8_t> v(16, 0);
  for (int i = 0; i < 8; i++) v[i] = (uint8_t)(id >> (8 * i));
  v[15] = 0xc1;
  return uint128(v);
}

static BtcBlock make_btc(BtcT& t, uint64_t id, uint64_t parent, uint32_t time, uint32_t bits) {
  uint256 prev;
  auto it = t.blocks.find(parent);
  if (it != t.blocks.end()) {
    prev = it->second.getHash();
  } else if (parent != 0) {
    prev = merkle32(parent ^ 0x5a5a5a5aull);  // a hash nobody knows
  }
  return BtcBlock(1, prev, merkle32(id), time, bits, 0);
}

static VbkBlock::keystone_t ks_of(VbkT& t, uint64_t id) {
  if (id == 0) return VbkBlock::keystone_t();
  auto it = t.blocks.find(id);
  if (it != t.blocks.end()) return it->second.getHash().template trimLE<VbkBlock::keystone_t::size()>();
  std::vector<uint8_t> v(VbkBlock::keystone_t::size(), 0xee);
  for (int i = 0; i < 8; i++) v[i] = (uint8_t)(id >> (8 * i));
  return VbkBlock::keystone_t(v);
}

static VbkBlock make_vbk(VbkT& t, uint64_t id, uint64_t parent, uint32_t time, uint32_t bits, uint64_t ks1,
                         uint64_t ks2, int32_t hdelta) {
  uint96 prev;
  int32_t height = 0;
  auto it = t.blocks.find(parent);
  if (it != t.blocks.end()) {
    prev = it->second.getHash().template trimLE<VBK_PREVIOUS_BLOCK_HASH_SIZE>();
    auto* pi = t.tree ? t.tree->getBlockIndex(it->second.getHash()) : nullptr;
    height = pi ? pi->getHeight() + 1 : it->second.getHeight() + 1;
  } else if (parent != 0) {
    std::vector<uint8_t> v(12, 0x5a);
    for (int i = 0; i < 8; i++) v[i] = (uint8_t)(parent >> (8 * i));
    prev = uint96(v);
    height = 1;
  }
  return VbkBlock(height + hdelta, 2, prev, ks_of(t, ks1), ks_of(t, ks2), merkle16(id), (int32_t)time, (int32_t)bits, 0);
}

template <class P>
static std::string show_btc() {
  P p;
  return num(ArithUint256(p.getPowLimit())) + " " + vh::hexnum(p.getPowTargetTimespan()) + " " +
         vh::hexnum(p.getPowTargetSpacing()) + " " + (p.getAllowMinDifficultyBlocks() ? "1" : "0") + " " +
         (p.getPowNoRetargeting() ? "1" : "0") + " " + vh::hexnum(p.maxFutureBlockTime());
}
template <class P>
static std::string show_vbk() {
  P p;
  return num(ArithUint256(p.getMinimumDifficulty())) + " " + (p.getPowNoRetargeting() ? "1" : "0") + " " +
         vh::hexnum(p.getRetargetPeriod()) + " " + vh::hexnum(p.getTargetBlockTime()) + " " +
         vh::hexnum(p.maxFutureBlockTime()) + " " + vh::hexnum(p.getKeystoneInterval());
}

int main() {
  SetLogger<Logger>();
  return vh::main_loop([](const std::string& cid, const std::string& op, const std::vector<std::string>& a) -> std::string {
    if (op == "params") {
      if (a[0] == "btc_main") return show_btc<BtcChainParamsMain>();
      if (a[0] == "btc_test") return show_btc<BtcChainParamsTest>();
      if (a[0] == "btc_regtest") return show_btc<BtcChainParamsRegTest>();
      if (a[0] == "vbk_main") return show_vbk<VbkChainParamsMain>();
      if (a[0] == "vbk_test") return show_vbk<VbkChainParamsTest>();
      if (a[0] == "vbk_regtest") return show_vbk<VbkChainParamsRegTest>();
      return "UNKNOWN-PARAMS";
    }
    if (op == "consts") {
      return vh::hexnum((uint64_t)HISTORY_FOR_TIMESTAMP_AVERAGE) + " " + num(ArithUint256::fromHex(VBK_MAXIMUM_DIFFICULTY));
    }
    if (op == "now") {
      setMockTime((uint32_t)H(a[0]));
      return "ok";
    }
    if (op == "newbtc") {
      std::unique_ptr<BtcT> t(new BtcT());
      t->params.limit = uint256(le_of_hexnum(a[1], 32));
      t->params.timespan = (uint32_t)H(a[2]);
      t->params.spacing = (uint32_t)H(a[3]);
      t->params.allow = a[4] == "1";
      t->params.noret = a[5] == "1";
      t->params.setFuture((uint32_t)H(a[6]));
      t->init();
      uint64_t gid = H(a[7]);
      BtcBlock g = make_btc(*t, gid, 0, (uint32_t)H(a[8]), (uint32_t)H(a[9]));
      // the bootstrap block only has to carry SOME valid proof of work: lift the limit while it is mined and inserted
      uint256 keep = t->params.limit;
      t->params.limit = uint256(std::vector<uint8_t>(32, 0xff));
      bool mined = t->mine(g, true, BTC_CAP);
      if (mined) t->tree->bootstrapWithGenesis(g);
      t->params.limit = keep;
      if (!mined) return "MINE-FAIL";
      t->remember(gid, g);
      btcs[a[0]] = std::move(t);
      return "ok";
    }
    if (op == "newvbk") {
      std::unique_ptr<VbkT> t(new VbkT());
      t->params.mindiff = uint256(le_of_hexnum(a[1], 32));
      t->params.noret = a[2] == "1";
      t->params.N = (uint32_t)H(a[3]);
      t->params.T = (uint32_t)H(a[4]);
      t->params.setFuture((uint32_t)H(a[5]));
      t->params.ks = (uint32_t)H(a[6]);
      t->init();
      uint64_t gid = H(a[7]);
      VbkBlock g = make_vbk(*t, gid, 0, (uint32_t)H(a[8]), (uint32_t)H(a[9]), 0, 0, 0);
      uint256 keep = t->params.mindiff;
      t->params.mindiff = uint256();
      bool mined = t->mine(g, true, VBK_CAP);
      if (mined) t->tree->bootstrapWithGenesis(g);
      t->params.mindiff = keep;
      if (!mined) return "MINE-FAIL";
      t->remember(gid, g);
      vbks[a[0]] = std::move(t);
      return "ok";
    }
    auto bt = btcs.find(a.empty() ? "" : a[0]);
    auto vt = vbks.find(a.empty() ? "" : a[0]);
    bool isb = bt != btcs.end(), isv = vt != vbks.end();
    if (!isb && !isv) return "NO-TREE";
    if (op == "acc") {
      uint64_t id = H(a[1]), parent = H(a[2]);
      uint32_t time = (uint32_t)H(a[3]), bits = (uint32_t)H(a[4]);
      bool pow = a[5] == "1";
      if (isb) {
        BtcBlock b = make_btc(*bt->second, id, parent, time, bits);
        if (!bt->second->mine(b, pow, BTC_CAP)) return "MINE-FAIL";
        bt->second->remember(id, b);
        return bt->second->submit(id, b);
      }
      int32_t hdelta = a.size() > 8 ? (int32_t)vh::parse_hex64s(a[8]) : 0;
      VbkBlock b = make_vbk(*vt->second, id, parent, time, bits, H(a[6]), H(a[7]), hdelta);
      if (!vt->second->mine(b, pow, VBK_CAP)) return "MINE-FAIL";
      vt->second->remember(id, b);
      return vt->second->submit(id, b);
    }
    if (op == "load") {
      uint64_t id = H(a[1]), parent = H(a[2]);
      uint32_t time = (uint32_t)H(a[3]), bits = (uint32_t)H(a[4]);
      if (isb) return bt->second->load(id, make_btc(*bt->second, id, parent, time, bits), parent);
      return vt->second->load(id, make_vbk(*vt->second, id, parent, time, bits, 0, 0, 0), parent);
    }
    if (op == "dup") {
      uint64_t id = H(a[1]);
      if (isb) {
        auto it = bt->second->blocks.find(id);
        return it == bt->second->blocks.end() ? "NO-HEADER" : bt->second->submit(id, it->second);
      }
      auto it = vt->second->blocks.find(id);
      return it == vt->second->blocks.end() ? "NO-HEADER" : vt->second->submit(id, it->second);
    }
    if (op == "inv") return isb ? bt->second->inv(H(a[1])) : vt->second->inv(H(a[1]));
    if (op == "chain") return isb ? bt->second->chain(H(a[1])) : vt->second->chain(H(a[1]));
    if (op == "probe") {
      uint64_t parent = H(a[1]);
      uint32_t time = (uint32_t)H(a[2]);
      if (isb) {
        auto* pi = bt->second->index_of(parent);
        if (!pi) return "noparent";
        BtcBlock b = make_btc(*bt->second, 0xfffffff0ull, parent, time, 0);
        uint32_t nw = getNextWorkRequired<BtcBlock, BtcChainParams>(*pi, b, bt->second->params);
        int64_t mtp = getMedianTimePast<BtcBlock>(*pi);
        return "next=" + vh::hexnum(nw) + " mtp=" + vh::hexnum_s(mtp);
      }
      auto* pi = vt->second->index_of(parent);
      if (!pi) return "noparent";
      VbkBlock b = make_vbk(*vt->second, 0xfffffff0ull, parent, time, 0, 0, 0, 0);
      uint32_t nw = getNextWorkRequired<VbkBlock, VbkChainParams>(*pi, b, vt->second->params);
      int64_t mtp = calculateMinimumTimestamp(*pi);
      return "next=" + vh::hexnum(nw) + " mtp=" + vh::hexnum_s(mtp);
    }
    if (op == "ks") {
      if (!isv) return "noparent";
      auto* pi = vt->second->index_of(H(a[1]));
      if (!pi) return "noparent";
      VbkBlock b = make_vbk(*vt->second, 0xfffffff0ull, H(a[1]), 0, 0, H(a[2]), H(a[3]), 0);
      return validateKeystones(*pi, b, vt->second->params) ? "1" : "0";
    }
    return "UNKNOWN-OP";
  });
}
