// "World": the shared history runner of the stateful checks (C01 C02 C04 C07
// C09 C10 C12 C13 C19 C20). A Registry holds one honest MockMiner and every
// block / payload ever created, addressed by small ids (a<n> ALT blocks,
// v<n> VBK blocks, b<n> BTC blocks, t<n> ATVs, w<n> VTBs) so that generators
// and the Coq models never see a hash. An Instance is one library instance
// (AltBlockTree + mempool + storage) that is shown blocks/payloads by id.
// All observation goes through public getters.
#pragma once
#include <algorithm>
#include <map>
#include <memory>
#include <set>
#include <sstream>
#include <string>
#include <vector>
#include <veriblock/pop/alt-util.hpp>
#include <veriblock/pop/blockchain/alt_block_tree.hpp>
#include <veriblock/pop/blockchain/alt_chain_params.hpp>
#include <veriblock/pop/blockchain/btc_chain_params.hpp>
#include <veriblock/pop/blockchain/vbk_chain_params.hpp>
#include <veriblock/pop/bootstraps.hpp>
#include <veriblock/pop/logger.hpp>
#include <veriblock/pop/mempool.hpp>
#include <veriblock/pop/mock_miner.hpp>
#include <veriblock/pop/rewards/default_poprewards_calculator.hpp>
#include <veriblock/pop/storage/adaptors/block_provider_impl.hpp>
#include <veriblock/pop/storage/adaptors/inmem_storage_impl.hpp>
#include <veriblock/pop/storage/adaptors/payloads_provider_impl.hpp>
#include <veriblock/pop/storage/util.hpp>
#include <veriblock/pop/time.hpp>

#include "common.hpp"

namespace vw {
using namespace altintegration;

// ---------------------------------------------------------------- parameters
struct Cfg {
  std::map<std::string, long> kv;
  long get(const std::string& k, long d) const {
    auto it = kv.find(k);
    return it == kv.end() ? d : it->second;
  }
  // tokens "k=v"
  void parse(const std::vector<std::string>& toks, size_t from = 0) {
    for (size_t i = from; i < toks.size(); i++) {
      auto p = toks[i].find('=');
      if (p == std::string::npos) continue;
      kv[toks[i].substr(0, p)] = std::stol(toks[i].substr(p + 1));
    }
  }
};

struct VbkP : public VbkChainParamsRegTest {
  uint32_t ki = 20, fd = 11;
  uint32_t getKeystoneInterval() const noexcept override { return ki; }
  uint32_t getFinalityDelay() const noexcept override { return fd; }
};

struct Params {
  AltChainParamsRegTest alt{};
  VbkP vbk{};
  BtcChainParamsRegTest btc{};
  explicit Params(const Cfg& c) {
    alt.mKeystoneInterval = (uint32_t)c.get("alt_ki", 5);
    alt.mFinalityDelay = (uint32_t)c.get("alt_fd", 100);
    alt.mEndorsementSettlementInterval = (uint32_t)c.get("alt_settle", 50);
    alt.mMaxReorgBlocks = (int32_t)c.get("alt_maxreorg", 10000);
    alt.mPreserveBlocksBehindFinal = (uint32_t)c.get("alt_preserve", alt.mEndorsementSettlementInterval);
    alt.mMaxVbkBlocksInAltBlock = (size_t)c.get("alt_maxvbk", 200);
    alt.mMaxVTBsInAltBlock = (size_t)c.get("alt_maxvtb", 200);
    alt.mMaxATVsInAltBlock = (size_t)c.get("alt_maxatv", 1000);
    alt.mMaxPopDataSize = (uint32_t)c.get("alt_maxsize", MAX_POPDATA_SIZE);
    // getPopPayout asserts payout delay >= settlement interval (documented precondition of the configuration)
    alt.mPopPayoutsParams->mPopPayoutDelay =
        (int32_t)std::max<long>(c.get("payout_delay", 50), (long)alt.mEndorsementSettlementInterval);
    alt.mPopPayoutsParams->mDifficultyAveragingInterval = (uint32_t)c.get("payout_avg", 50);
    vbk.ki = (uint32_t)c.get("vbk_ki", 20);
    vbk.fd = (uint32_t)c.get("vbk_fd", 11);
    vbk.mEndorsementSettlementInterval = (uint32_t)c.get("vbk_settle", 400);
    vbk.mPreserveBlocksBehindFinal = (uint32_t)c.get("vbk_preserve", vbk.mEndorsementSettlementInterval);
    vbk.mMaxReorgBlocks = (int32_t)c.get("vbk_maxreorg", 200000);
    vbk.mOldBlocksWindow = (uint32_t)c.get("vbk_oldwin", 12000);
    btc.mMaxReorgBlocks = (int32_t)c.get("btc_maxreorg", 200000);
    btc.mOldBlocksWindow = (uint32_t)c.get("btc_oldwin", 1000);
  }
};

// ---------------------------------------------------------------- registry
struct AltInfo {
  AltBlock block;
  std::string parent;  // id
  PopData pd;          // payloads carried by the body of this block
  bool hasPd = false;
};

struct Registry {
  Params& p;
  MockMiner miner;
  // reference ALT tree: headers only, used to compute publication context
  adaptors::InmemStorageImpl rstorage{};
  adaptors::PayloadsStorageImpl rpayloads{rstorage};
  adaptors::BlockReaderImpl rblocks;
  AltBlockTree ref;

  std::map<std::string, AltInfo> alt;            // a<n>
  std::map<std::string, VbkBlock> vbk;           // v<n>
  std::map<std::string, BtcBlock> btc;           // b<n>
  std::map<std::string, ATV> atv;                // t<n>
  std::map<std::string, VTB> vtb;                // w<n>
  std::map<std::string, std::string> atvEndorsed;  // t<n> -> a<m>
  std::map<std::string, std::string> names;      // hex(hash or id) -> id
  int nv = 0, nb = 0;

  explicit Registry(Params& pp)
      : p(pp), miner(pp.alt, pp.vbk, pp.btc), rblocks(rstorage, pp.alt),
        ref(pp.alt, pp.vbk, pp.btc, rpayloads, rblocks) {
    setMockTime(now);
    ref.btc().bootstrapWithGenesis(GetRegTestBtcBlock());
    ref.vbk().bootstrapWithGenesis(GetRegTestVbkBlock());
    ref.bootstrap();
    AltInfo g;
    g.block = p.alt.getBootstrapBlock();
    alt["a0"] = g;
    name(g.block.getHash(), "a0");
    regVbk(miner.vbk().getBestChain().tip()->getHeader());
    regBtc(miner.btc().getBestChain().tip()->getHeader());
  }

  template <typename H>
  void name(const H& h, const std::string& id) { names[vh::hex(h.data(), h.size())] = id; }
  void name(const std::vector<uint8_t>& h, const std::string& id) { names[vh::hex(h.data(), h.size())] = id; }
  template <typename H>
  std::string nameOf(const H& h) const {
    auto s = vh::hex(h.data(), h.size());
    auto it = names.find(s);
    return it == names.end() ? ("?" + s.substr(0, 12)) : it->second;
  }

  std::string regVbk(const VbkBlock& b) {
    auto h = b.getHash();
    auto s = vh::hex(h.data(), h.size());
    auto it = names.find(s);
    if (it != names.end()) return it->second;
    std::string id = "v" + std::to_string(nv++);
    vbk[id] = b;
    names[s] = id;
    // VbkBlock ids (short) are used by the payload index
    auto sid = b.getId();
    names["id:" + vh::hex(sid.data(), sid.size())] = id;
    // trimmed hashes used as prev / keystone references
    return id;
  }
  std::string regBtc(const BtcBlock& b) {
    auto h = b.getHash();
    auto s = vh::hex(h.data(), h.size());
    auto it = names.find(s);
    if (it != names.end()) return it->second;
    std::string id = "b" + std::to_string(nb++);
    btc[id] = b;
    names[s] = id;
    return id;
  }
  // register every block of the miner's trees that has no id yet (ascending height)
  void sweep() {
    auto vs = miner.vbk().getBlocks();
    std::sort(vs.begin(), vs.end(), [](const BlockIndex<VbkBlock>* a, const BlockIndex<VbkBlock>* b) {
      return a->getHeight() != b->getHeight() ? a->getHeight() < b->getHeight() : a->getHash() < b->getHash();
    });
    for (auto* i : vs) regVbk(i->getHeader());
    auto bs = miner.btc().getBlocks();
    std::sort(bs.begin(), bs.end(), [](const BlockIndex<BtcBlock>* a, const BlockIndex<BtcBlock>* b) {
      return a->getHeight() != b->getHeight() ? a->getHeight() < b->getHeight() : a->getHash() < b->getHash();
    });
    for (auto* i : bs) regBtc(i->getHeader());
  }

  // ---- ALT blocks ----
  // hash derived from the numeric id only
  static std::vector<uint8_t> altHash(int n) {
    std::vector<uint8_t> h(32, 0xA5);
    h[0] = (uint8_t)(n >> 24); h[1] = (uint8_t)(n >> 16); h[2] = (uint8_t)(n >> 8); h[3] = (uint8_t)n;
    return h;
  }
  bool newAlt(const std::string& id, const std::string& parent) {
    if (alt.count(id) || !alt.count(parent)) return false;
    AltInfo a;
    const auto& pb = alt[parent].block;
    a.block.hash = altHash(std::stoi(id.substr(1)));
    a.block.height = pb.height + 1;
    a.block.previousBlock = pb.getHash();
    a.block.timestamp = pb.timestamp + 1;
    a.parent = parent;
    ValidationState st;
    if (!ref.acceptBlockHeader(a.block, st)) return false;
    alt[id] = a;
    name(a.block.getHash(), id);
    return true;
  }
  std::vector<std::string> ancestry(const std::string& id) const {  // root..id
    std::vector<std::string> r;
    std::string c = id;
    while (true) {
      r.push_back(c);
      auto it = alt.find(c);
      if (it == alt.end() || it->second.parent.empty()) break;
      c = it->second.parent;
    }
    std::reverse(r.begin(), r.end());
    return r;
  }

  // ---- miner ----
  const BlockIndex<VbkBlock>* vidx(const std::string& id) { return miner.vbk().getBlockIndex(vbk.at(id).getHash()); }
  const BlockIndex<BtcBlock>* bidx(const std::string& id) { return miner.btc().getBlockIndex(btc.at(id).getHash()); }

  // the miner is deterministic: two blocks mined on the same parent with the same content would be
  // identical. Advance the mocked clock before every mining operation so that each mined block is new.
  uint32_t now = 1700000000;
  void tick() { setMockTime(++now); }

  std::string mineVbk(const std::string& parent) {
    tick();
    auto* b = miner.mineVbkBlocks(1, *vidx(parent));
    if (b == nullptr) return "SKIP miner-rejected";
    return regVbk(b->getHeader());
  }
  std::string mineBtc(const std::string& parent) {
    tick();
    auto* b = miner.mineBtcBlocks(1, *bidx(parent));
    if (b == nullptr) return "SKIP miner-rejected";
    return regBtc(b->getHeader());
  }

  // ATV `id` endorsing ALT block `endorsed`, VBK tx mined on top of `vparent`; returns new vbk id
  std::string makeAtv(const std::string& id, const std::string& endorsed, const std::string& vparent,
                      const std::vector<uint8_t>& payout) {
    const auto& e = alt.at(endorsed);
    PublicationData pub;
    pub.payoutInfo = payout;
    pub.identifier = p.alt.getIdentifier();
    pub.header = e.block.toRaw();
    const auto* prev = ref.getBlockIndex(e.block.previousBlock);
    auto c = AuthenticatedContextInfoContainer::createFromPrevious(uint256(), prev, p.alt);
    pub.contextInfo = SerializeToVbkEncoding(c);
    auto tx = miner.createVbkTxEndorsingAltBlock(pub);
    tick();
    auto* blk = miner.mineVbkBlocks(1, *vidx(vparent), std::vector<VbkTx>{tx});
    if (blk == nullptr) return "SKIP miner-rejected";
    auto a = miner.createATV(blk->getHeader(), tx);
    atv[id] = a;
    atvEndorsed[id] = endorsed;
    auto aid = a.getId();
    names["id:" + vh::hex(aid.data(), aid.size())] = id;
    return regVbk(blk->getHeader());
  }
  // VTB `id` endorsing VBK block `endorsed`; BTC tx mined on `bparent`, containing VBK block on `vparent`,
  // BTC context starts after `lastKnownBtc`; returns "<new vbk id> <new btc id>"
  std::string makeVtb(const std::string& id, const std::string& endorsed, const std::string& vparent,
                      const std::string& bparent, const std::string& lastKnownBtc) {
    const auto& eb = vbk.at(endorsed);
    auto btctx = miner.createBtcTxEndorsingVbkBlock(eb);
    tick();
    auto* bb = miner.mineBtcBlocks(1, *bidx(bparent), {btctx});
    if (bb == nullptr) return "SKIP miner-rejected";
    auto ptx = miner.createVbkPopTxEndorsingVbkBlock(bb->getHeader(), btctx, eb, btc.at(lastKnownBtc).getHash());
    // the miner applies the VTB to its own tree: a VTB that is invalid there (endorsed block not an ancestor of
    // the containing one, expired, ...) cannot be mined
    auto* vb = miner.mineVbkBlocks(1, *vidx(vparent), std::vector<VbkPopTx>{ptx});
    if (vb == nullptr) { sweep(); return "SKIP miner-rejected " + regBtc(bb->getHeader()); }
    auto v = miner.createVTB(vb->getHeader(), ptx);
    vtb[id] = v;
    auto wid = v.getId();
    names["id:" + vh::hex(wid.data(), wid.size())] = id;
    sweep();
    return regVbk(vb->getHeader()) + " " + regBtc(bb->getHeader());
  }

  // set the body of ALT block `id`: context = explicit list of vbk ids (in order), vtbs, atvs
  bool setPd(const std::string& id, const std::vector<std::string>& ctx, const std::vector<std::string>& vtbs,
             const std::vector<std::string>& atvs) {
    auto it = alt.find(id);
    if (it == alt.end()) return false;
    PopData pd;
    for (auto& c : ctx) pd.context.push_back(vbk.at(c));
    for (auto& w : vtbs) pd.vtbs.push_back(vtb.at(w));
    for (auto& t : atvs) pd.atvs.push_back(atv.at(t));
    it->second.pd = pd;
    it->second.hasPd = true;
    return true;
  }
  // chain of vbk ids from (exclusive) the highest ancestor of `to` that is in `known`, up to `to`
  std::vector<std::string> vbkPathFrom(const std::set<std::string>& known, const std::string& to) {
    std::vector<std::string> r;
    const BlockIndex<VbkBlock>* i = vidx(to);
    while (i != nullptr) {
      auto n = nameOf(i->getHash());
      if (known.count(n)) break;
      r.push_back(n);
      i = i->pprev;
    }
    std::reverse(r.begin(), r.end());
    return r;
  }
};

// ---------------------------------------------------------------- instance
struct Instance {
  Params& p;
  Registry& reg;
  std::shared_ptr<adaptors::InmemStorageImpl> storage;
  adaptors::PayloadsStorageImpl payloads;
  adaptors::BlockReaderImpl blocks;
  AltBlockTree tree;
  std::unique_ptr<MemPool> mempool;

  Instance(Params& pp, Registry& r, std::shared_ptr<adaptors::InmemStorageImpl> st = nullptr)
      : p(pp), reg(r), storage(st ? st : std::make_shared<adaptors::InmemStorageImpl>()),
        payloads(*storage), blocks(*storage, pp.alt), tree(pp.alt, pp.vbk, pp.btc, payloads, blocks) {
    mempool.reset(new MemPool(tree));
  }
  void bootstrap() {
    tree.btc().bootstrapWithGenesis(GetRegTestBtcBlock());
    tree.vbk().bootstrapWithGenesis(GetRegTestVbkBlock());
    tree.bootstrap();
  }
  bool load(std::string& err) {
    ValidationState st;
    bool ok = loadTrees(tree, false, st);
    if (!ok) err = st.toString();
    return ok;
  }
  void save() {
    auto batch = storage->generateWriteBatch();
    auto writer = adaptors::BlockBatchImpl(*batch);
    saveTrees(tree, writer);
    batch->writeBatch();
  }

  BlockIndex<AltBlock>* idx(const std::string& id) {
    auto it = reg.alt.find(id);
    if (it == reg.alt.end()) return nullptr;
    return tree.getBlockIndex(it->second.block.getHash());
  }
  std::string tip() { return reg.nameOf(tree.getBestChain().tip()->getHash()); }

  // ---- operations; each returns a short canonical result, "SKIP <why>" if a documented precondition is not met
  std::string hdr(const std::string& id) {
    auto it = reg.alt.find(id);
    if (it == reg.alt.end()) return "SKIP unknown";
    if (idx(id) != nullptr) return "SKIP known";
    ValidationState st;
    bool ok = tree.acceptBlockHeader(it->second.block, st);
    return ok ? "ok" : ("fail " + st.GetPath());
  }
  std::string body(const std::string& id) {
    auto* i = idx(id);
    if (i == nullptr) return "SKIP nohdr";
    if (i->isRoot()) return "SKIP root";
    if (i->hasFlags(BLOCK_HAS_PAYLOADS)) return "SKIP haspl";
    if (!i->isValidUpTo(BLOCK_VALID_TREE)) return "SKIP lvl";
    if (i->isDeleted()) return "SKIP deleted";
    const auto& info = reg.alt.at(id);
    ValidationState st;
    if (!checkPopDataForDuplicates(info.pd, st)) return "SKIP sl-dup";
    tree.acceptBlock(*i, info.pd, st);
    return std::string(i->isConnected() ? "connected" : "stored") + (i->isValid() ? "" : " invalid");
  }
  std::string setState(const std::string& id) {
    auto* i = idx(id);
    if (i == nullptr) return "SKIP unknown";
    if (!i->isConnected()) return "SKIP unconnected";
    if (i->finalized && !tree.getBestChain().contains(i)) return "SKIP final";
    // documented precondition: cannot switch below the finalized root of the active chain
    if (!tree.getBestChain().contains(i) || true) {
      auto* fork = findFork(tree.getBestChain(), (const BlockIndex<AltBlock>*)i);
      if (fork == nullptr) return "SKIP nofork";
      for (auto* w = tree.getBestChain().tip(); w != fork; w = w->pprev)
        if (w->finalized) return "SKIP final-unapply";
    }
    ValidationState st;
    bool ok = tree.setState(*i, st);
    return ok ? "true" : ("false " + st.GetPath());
  }
  std::string compare(const std::string& id) {
    auto* i = idx(id);
    auto* t = tree.getBestChain().tip();
    if (i != nullptr && !i->isConnected()) return "SKIP unconnected";
    if (!t->isConnected()) return "SKIP tip-unconnected";
    std::vector<uint8_t> h = i ? i->getHash() : Registry::altHash(0x7fffffff);
    int r = tree.comparePopScore(t->getHash(), h);
    return r < 0 ? "-1" : (r > 0 ? "1" : "0");
  }
  std::string invalidate(const std::string& id) {
    auto* i = idx(id);
    if (i == nullptr || i->isRoot()) return "SKIP";
    if (i->finalized) return "SKIP final";
    auto* fork = tree.getBestChain().contains(i) ? i->pprev : nullptr;
    if (fork)
      for (auto* w = tree.getBestChain().tip(); w != fork; w = w->pprev)
        if (w->finalized) return "SKIP final-unapply";
    tree.invalidateSubtree(*i, BLOCK_FAILED_BLOCK);
    return "ok";
  }
  std::string revalidate(const std::string& id) {
    auto* i = idx(id);
    if (i == nullptr || i->isRoot()) return "SKIP";
    tree.revalidateSubtree(*i, BLOCK_FAILED_BLOCK);
    return "ok";
  }
  std::string removeSubtree(const std::string& id) {
    auto* i = idx(id);
    if (i == nullptr || i->isRoot()) return "SKIP";
    if (i->finalized) return "SKIP final";
    if (tree.getBestChain().contains(i))
      for (auto* w = tree.getBestChain().tip(); w != i->pprev; w = w->pprev)
        if (w->finalized) return "SKIP final-unapply";
    tree.removeSubtree(*i);
    return "ok";
  }
  std::string removePayloads(const std::string& id) {
    auto* i = idx(id);
    if (i == nullptr || i->isRoot()) return "SKIP";
    if (!i->hasFlags(BLOCK_HAS_PAYLOADS) || i->hasFlags(BLOCK_ACTIVE) || !i->allDescendantsUnconnected()) return "SKIP";
    tree.removePayloads(i->getHash());
    return "ok";
  }
  std::string payout(const std::string& prevId) {
    auto* i = idx(prevId);
    if (i == nullptr) return "SKIP";
    if (i != tree.getBestChain().tip()) return "SKIP nottip";
    DefaultPopRewardsCalculator calc(tree);
    PopPayouts out;
    ValidationState st;
    bool ok = calc.getPopPayout(i->getHash(), out, st);
    if (!ok) return "fail " + st.GetPath();
    std::vector<std::string> v;
    for (auto& kv : out.payouts) v.push_back(vh::hex(kv.first) + ":" + std::to_string(kv.second));
    std::sort(v.begin(), v.end());
    std::string r = "ok";
    for (auto& s : v) r += " " + s;
    return r;
  }
};

// ---------------------------------------------------------------- observation
template <typename E>
static std::string endId(const Registry& r, const E& e) {
  // endorsement id -> payload id is not invertible; describe by (endorsed, containing, blockOfProof)
  return r.nameOf(e.endorsedHash) + ">" + r.nameOf(e.containingHash) + "@" + r.nameOf(e.blockOfProof);
}

struct Obs {
  // one line per block / fact; lines sorted => canonical
  std::vector<std::string> lines;
  void add(const std::string& s) { lines.push_back(s); }
  std::string str() const {
    auto l = lines;
    std::sort(l.begin(), l.end());
    std::string r;
    for (auto& s : l) { r += s; r += "\n"; }
    return r;
  }
};

enum ObsMode { FULL = 0, POP = 1 };  // POP: the history-independent projection (C01)

template <typename Index>
static std::string endorsements(const Registry& r, const Index& i) {
  std::vector<std::string> c, by;
  for (auto& kv : i.getContainingEndorsements()) c.push_back(endId(r, *kv.second));
  for (auto* e : i.getEndorsedBy()) by.push_back(endId(r, *e));
  std::sort(c.begin(), c.end());
  std::sort(by.begin(), by.end());
  std::string s = " ce=[";
  for (auto& x : c) s += x + ",";
  s += "] by=[";
  for (auto& x : by) s += x + ",";
  return s + "]";
}

static void observeBtc(const Registry& r, const BlockTree<BtcBlock, BtcChainParams>& t, Obs& o, ObsMode m) {
  for (auto* i : t.getBlocks()) {
    std::string s = "BTC " + r.nameOf(i->getHash()) + " h=" + std::to_string(i->getHeight());
    if (m == FULL) s += " st=" + std::to_string(i->getStatus());
    auto refs = i->getRefs();
    std::sort(refs.begin(), refs.end());
    s += " refs=[";
    for (auto x : refs) s += std::to_string(x) + ",";
    s += "] bop=[";
    std::vector<std::string> b;
    for (auto* e : i->getBlockOfProofEndorsement()) b.push_back(endId(r, *e));
    std::sort(b.begin(), b.end());
    for (auto& x : b) s += x + ",";
    s += "]";
    o.add(s);
  }
  if (m == FULL) {
    std::vector<std::string> tips;
    for (auto* x : t.getTips()) tips.push_back(r.nameOf(x->getHash()));
    std::sort(tips.begin(), tips.end());
    std::string s = "BTC tips";
    for (auto& x : tips) s += " " + x;
    o.add(s);
  }
  o.add("BTC best " + r.nameOf(t.getBestChain().tip()->getHash()));
}

static void observeVbk(const Registry& r, const VbkBlockTree& t, Obs& o, ObsMode m) {
  for (auto* i : t.getBlocks()) {
    std::string s = "VBK " + r.nameOf(i->getHash()) + " h=" + std::to_string(i->getHeight());
    if (m == FULL) s += " st=" + std::to_string(i->getStatus());
    s += " rc=" + std::to_string(i->refCount());
    std::vector<std::string> v;
    for (auto& id : i->template getPayloadIds<VTB>()) {
      auto it = r.names.find("id:" + vh::hex(id.data(), id.size()));
      v.push_back(it == r.names.end() ? "?" : it->second);
    }
    if (m == POP) std::sort(v.begin(), v.end());
    s += " vtbs=[";
    for (auto& x : v) s += x + ",";
    s += "]";
    s += endorsements(r, *i);
    std::vector<std::string> b;
    for (auto* e : i->getBlockOfProofEndorsement()) b.push_back(endId(r, *e));
    std::sort(b.begin(), b.end());
    s += " bop=[";
    for (auto& x : b) s += x + ",";
    s += "]";
    o.add(s);
  }
  if (m == FULL) {
    std::vector<std::string> tips;
    for (auto* x : t.getTips()) tips.push_back(r.nameOf(x->getHash()));
    std::sort(tips.begin(), tips.end());
    std::string s = "VBK tips";
    for (auto& x : tips) s += " " + x;
    o.add(s);
    // the VBK tree's own payload index (VTB id -> containing VBK blocks)
    for (auto& kv : t.getPayloadsIndex().getAll()) {
      auto it = r.names.find("id:" + vh::hex(kv.first.data(), kv.first.size()));
      std::vector<std::string> bs;
      for (auto& h : kv.second) bs.push_back(r.nameOf(h));
      std::sort(bs.begin(), bs.end());
      std::string l = "VBK pidx " + (it == r.names.end() ? "?" + vh::hex(kv.first) : it->second) + " ->";
      for (auto& b : bs) l += " " + b;
      if (!bs.empty()) o.add(l);
    }
  }
  o.add("VBK best " + r.nameOf(t.getBestChain().tip()->getHash()));
}

static std::string plIds(const Registry& r, const BlockIndex<AltBlock>& i) {
  std::string s = " pl=[";
  auto f = [&](const std::vector<uint8_t>& id) {
    auto it = r.names.find("id:" + vh::hex(id.data(), id.size()));
    s += (it == r.names.end() ? "?" : it->second) + ",";
  };
  for (auto& id : i.getPayloadIds<VbkBlock>()) f(id.asVector());
  s += "|";
  for (auto& id : i.getPayloadIds<VTB>()) f(id.asVector());
  s += "|";
  for (auto& id : i.getPayloadIds<ATV>()) f(id.asVector());
  return s + "]";
}

static void observeAlt(const Registry& r, const AltBlockTree& t, Obs& o, ObsMode m) {
  if (m == FULL) {
    for (auto* i : t.getBlocks()) {
      std::string s = "ALT " + r.nameOf(i->getHash()) + " h=" + std::to_string(i->getHeight()) +
                      " st=" + std::to_string(i->getStatus()) + (i->finalized ? " F" : "") + plIds(r, *i) +
                      endorsements(r, *i);
      o.add(s);
    }
    std::vector<std::string> tips;
    for (auto* x : t.getTips()) tips.push_back(r.nameOf(x->getHash()));
    std::sort(tips.begin(), tips.end());
    std::string s = "ALT tips";
    for (auto& x : tips) s += " " + x;
    o.add(s);
    o.add("ALT applied " + std::to_string(t.appliedBlockCount));
    for (auto& kv : t.getPayloadsIndex().getAll()) {
      auto it = r.names.find("id:" + vh::hex(kv.first.data(), kv.first.size()));
      std::vector<std::string> bs;
      for (auto& h : kv.second) bs.push_back(r.nameOf(h));
      std::sort(bs.begin(), bs.end());
      std::string l = "ALT pidx " + (it == r.names.end() ? "?" + vh::hex(kv.first) : it->second) + " ->";
      for (auto& b : bs) l += " " + b;
      if (!bs.empty()) o.add(l);
    }
  } else {
    // only the active chain
    for (auto* i : t.getBestChain()) {
      if (i == nullptr) continue;
      o.add("ALT " + r.nameOf(i->getHash()) + " h=" + std::to_string(i->getHeight()) + plIds(r, *i) +
            endorsements(r, *i));
    }
  }
  o.add("ALT best " + r.nameOf(t.getBestChain().tip()->getHash()));
}

static std::string observe(const Registry& r, const AltBlockTree& t, ObsMode m) {
  Obs o;
  observeAlt(r, t, o, m);
  observeVbk(r, t.vbk(), o, m);
  observeBtc(r, t.btc(), o, m);
  return o.str();
}

// FNV-1a digest of an observation (for compact per-step output)
static std::string digest(const std::string& s) {
  uint64_t h = 1469598103934665603ULL;
  for (unsigned char c : s) { h ^= c; h *= 1099511628211ULL; }
  return vh::hexnum(h);
}

}  // namespace vw

// ---------------------------------------------------------------- session interpreter
namespace vw {

static std::vector<std::string> csv(const std::string& s) {  // "k=a,b,c" -> [a,b,c]
  std::vector<std::string> r;
  auto p = s.find('=');
  std::string v = p == std::string::npos ? s : s.substr(p + 1);
  std::string cur;
  for (char c : v) {
    if (c == ',') { if (!cur.empty()) r.push_back(cur); cur.clear(); }
    else cur.push_back(c);
  }
  if (!cur.empty()) r.push_back(cur);
  return r;
}

// One history = one Session. Script lines (after the case id):
//   begin k=v...                 new registry, instance A bootstrapped
//   alt <a> <parent>             new ALT block in the registry (not shown to any instance)
//   mv <vparent>                 mine a VBK block            -> new id
//   mb <bparent>                 mine a BTC block            -> new id
//   atv <t> <a> <vparent> [hex]  ATV endorsing ALT block     -> id of the VBK block of proof
//   vtb <w> <v> <vparent> <bparent> <lastKnownBtc>           -> "<containing vbk id> <btc block of proof id>"
//   pd <a> ctx=v1,v2 vtbs=w1 atvs=t1    body of ALT block a
//   inst <X>                     new bootstrapped instance X
//   on <X> hdr|body|set|cmp|inv|reval|rm|rmpl|payout <a>
//   on <X> obs full|pop          digest of the observation;  dump full|pop  the observation itself (';'-joined)
//   on <X> save | reload | fin | tip
//   twin <X> <Y>                 fresh instance Y shown only X's active chain;  show <Y> <a>  ancestry of a
struct Session {
  Cfg cfg;
  std::unique_ptr<Params> params;
  std::unique_ptr<Registry> reg;
  std::map<std::string, std::unique_ptr<Instance>> inst;

  virtual ~Session() = default;
  // extension point for property-specific ops on an instance; return "" if not handled
  virtual std::string extra(Instance&, const std::vector<std::string>&) { return ""; }

  void begin(const std::vector<std::string>& t) {
    inst.clear();
    reg.reset();
    params.reset();
    cfg = Cfg();
    cfg.parse(t, 1);
    params.reset(new Params(cfg));
    reg.reset(new Registry(*params));
    inst["A"].reset(new Instance(*params, *reg));
    inst["A"]->bootstrap();
  }

  std::string exec(const std::vector<std::string>& t) {
    if (t.empty()) return "EMPTY";
    const std::string& op = t[0];
    if (op == "begin") { begin(t); return "ok"; }
    if (!reg) return "NO-SESSION";
    if (op == "alt") return reg->newAlt(t[1], t[2]) ? "ok" : "SKIP";
    if (op == "mv") return reg->vbk.count(t[1]) ? reg->mineVbk(t[1]) : "SKIP";
    if (op == "mb") return reg->btc.count(t[1]) ? reg->mineBtc(t[1]) : "SKIP";
    if (op == "atv") {
      if (!reg->alt.count(t[2]) || !reg->vbk.count(t[3]) || reg->atv.count(t[1]) || t[2] == "a0") return "SKIP";
      std::vector<uint8_t> payout = t.size() > 4 ? vh::unhex(t[4]) : std::vector<uint8_t>{1, 2, 3};
      return reg->makeAtv(t[1], t[2], t[3], payout);
    }
    if (op == "vtb") {
      if (!reg->vbk.count(t[2]) || !reg->vbk.count(t[3]) || !reg->btc.count(t[4]) || !reg->btc.count(t[5]) ||
          reg->vtb.count(t[1]))
        return "SKIP";
      return reg->makeVtb(t[1], t[2], t[3], t[4], t[5]);
    }
    if (op == "pd") {
      std::vector<std::string> ctx, vtbs, atvs;
      for (size_t i = 2; i < t.size(); i++) {
        if (t[i].rfind("ctx=", 0) == 0) ctx = csv(t[i]);
        if (t[i].rfind("vtbs=", 0) == 0) vtbs = csv(t[i]);
        if (t[i].rfind("atvs=", 0) == 0) atvs = csv(t[i]);
      }
      for (auto& c : ctx) if (!reg->vbk.count(c)) return "SKIP";
      for (auto& c : vtbs) if (!reg->vtb.count(c)) return "SKIP";
      for (auto& c : atvs) if (!reg->atv.count(c)) return "SKIP";
      return reg->setPd(t[1], ctx, vtbs, atvs) ? "ok" : "SKIP";
    }
    if (op == "inst") {
      inst[t[1]].reset(new Instance(*params, *reg));
      inst[t[1]]->bootstrap();
      return "ok";
    }
    if (op == "twin") {
      // twin <X> <Y>: fresh instance Y that is only ever shown the active chain of X
      auto it = inst.find(t[1]);
      if (it == inst.end()) return "SKIP noinst";
      inst[t[2]].reset(new Instance(*params, *reg));
      Instance& Y = *inst[t[2]];
      Y.bootstrap();
      std::string r = "ok";
      for (auto* i : it->second->tree.getBestChain()) {
        if (i == nullptr || i->isRoot()) continue;
        auto id = reg->nameOf(i->getHash());
        if (Y.idx(id) != nullptr) continue;  // below X's (finalized) root never happens for a fresh Y
        auto h = Y.hdr(id);
        auto b = Y.body(id);
        if (h != "ok" || b != "connected") r = "fail " + id + " " + h + " " + b;
      }
      auto s2 = Y.setState(it->second->tip());
      if (s2 != "true") r = "fail set " + s2;
      return r;
    }
    if (op == "show") {
      // show <Y> <a>: header+body of every block of a's ancestry that Y does not have yet
      auto it = inst.find(t[1]);
      if (it == inst.end() || !reg->alt.count(t[2])) return "SKIP";
      std::string r = "ok";
      for (auto& id : reg->ancestry(t[2])) {
        if (id == "a0") continue;
        auto* i = it->second->idx(id);
        if (i == nullptr) it->second->hdr(id);
        i = it->second->idx(id);
        if (i != nullptr && !i->hasFlags(BLOCK_HAS_PAYLOADS)) it->second->body(id);
      }
      return r;
    }
    if (op == "on") {
      auto it = inst.find(t[1]);
      if (it == inst.end()) return "SKIP noinst";
      Instance& I = *it->second;
      const std::string& c = t[2];
      if (c == "hdr") return I.hdr(t[3]);
      if (c == "body") return I.body(t[3]);
      if (c == "set") return I.setState(t[3]);
      if (c == "cmp") return I.compare(t[3]);
      if (c == "inv") return I.invalidate(t[3]);
      if (c == "reval") return I.revalidate(t[3]);
      if (c == "rm") return I.removeSubtree(t[3]);
      if (c == "rmpl") return I.removePayloads(t[3]);
      if (c == "payout") return I.payout(t[3]);
      if (c == "tip") return I.tip();
      if (c == "obs") return digest(observe(*reg, I.tree, t[3] == "pop" ? POP : FULL));
      if (c == "dump") {
        auto s = observe(*reg, I.tree, t[3] == "pop" ? POP : FULL);
        std::replace(s.begin(), s.end(), '\n', ';');
        std::replace(s.begin(), s.end(), ' ', '_');
        return s;
      }
      if (c == "save") { I.save(); return "ok"; }
      if (c == "fin") { I.tree.finalizeBlocks(); return "ok"; }
      if (c == "reload") {
        auto st = I.storage;
        std::unique_ptr<Instance> n(new Instance(*params, *reg, st));
        std::string err;
        // as PopContext::create does: bootstrap all three trees, then load
        n->bootstrap();
        bool ok = n->load(err);
        if (!ok) return "fail " + err;
        it->second = std::move(n);
        return "ok";
      }
      std::vector<std::string> rest(t.begin() + 2, t.end());
      auto r = extra(I, rest);
      return r.empty() ? "UNKNOWN-OP" : r;
    }
    return "UNKNOWN-OP";
  }
};

}  // namespace vw
