// C12 counting harness: the REAL CountingContext (counting_context.hpp) driven with sequences of real payload
// objects whose estimateSize is chosen by the caller, under caller-chosen limits; the loop body is the one of
// applyPayloadsOrRemoveIfInvalid (mempool_block_tree.cpp) with the verdict of mutator.add given per candidate.
//
//   <id> mk <v|w|a> <target>      build (and cache) a payload of that kind with estimateSize == target
//                                 -> the size, or "none" when no payload of exactly that size can be built
//   <id> cnt <maxvbk> <maxvtb> <maxatv> <maxsize> <kind>:<size>:<valid>,...      (decimal)
//        -> "<verdict>:<need>:<running>,... est=<n> fits=<0|1> n=<vbk>/<vtb>/<atv>"
//        verdict  CountingContext::canFit(candidate) under the given limits
//        need     the smallest mMaxPopDataSize under which canFit(candidate) is true with the count limits lifted
//                 (binary search over the real canFit) = the figure canFitSize compares with the limit
//        running  PopData::estimateSize() of the real PopData kept so far (after this candidate)
//        est/fits/n: PopData::estimateSize() of the result, the conditions of assertPopDataFits, the kept counts
#include <veriblock/pop/blockchain/alt_chain_params.hpp>
#include <veriblock/pop/blockchain/pop/counting_context.hpp>
#include <veriblock/pop/entities/popdata.hpp>

#include <map>

#include "common.hpp"
using namespace altintegration;

static size_t sz(const ATV& p) { return p.estimateSize(); }
static size_t sz(const VTB& p) { return p.estimateSize(); }

static void pad(ATV& p, size_t a, size_t b) {
  p.transaction.publicationData.payoutInfo.assign(a, 0x41);
  p.transaction.publicationData.contextInfo.assign(b, 0x42);
}
static void pad(VTB& p, size_t a, size_t b) {
  p.transaction.bitcoinTransaction.tx.assign(a, 0x43);
  p.transaction.signature.assign(b, 0x44);
}

// estimateSize is strictly increasing in the first padding; it skips a value where a nested length prefix grows, the
// second padding (0..8 bytes) moves those points
template <typename P>
static bool make(size_t target, P& out) {
  for (size_t b = 0; b < 9; b++) {
    P p;
    pad(p, 0, b);
    if (sz(p) > target) return false;
    size_t lo = 0, hi = target + 1;  // sz(lo) <= target
    while (lo < hi) {
      size_t mid = lo + (hi - lo + 1) / 2;
      pad(p, mid, b);
      if (sz(p) <= target) {
        lo = mid;
      } else {
        hi = mid - 1;
      }
    }
    pad(p, lo, b);
    if (sz(p) == target) {
      out = p;
      return true;
    }
  }
  return false;
}

static std::map<size_t, ATV> atvs;
static std::map<size_t, VTB> vtbs;
static VbkBlock the_vbk;

static bool ensure(char k, size_t target) {
  if (k == 'v') return the_vbk.estimateSize() == target;
  if (k == 'a') {
    if (atvs.count(target)) return true;
    ATV p;
    if (!make(target, p)) return false;
    atvs[target] = p;
    return true;
  }
  if (k == 'w') {
    if (vtbs.count(target)) return true;
    VTB p;
    if (!make(target, p)) return false;
    vtbs[target] = p;
    return true;
  }
  return false;
}

struct Limits {
  size_t vbk, vtb, atv;
  uint32_t size;
};
static void set(AltChainParamsRegTest& P, const Limits& l) {
  P.mMaxVbkBlocksInAltBlock = l.vbk;
  P.mMaxVTBsInAltBlock = l.vtb;
  P.mMaxATVsInAltBlock = l.atv;
  P.mMaxPopDataSize = l.size;
}

// smallest size limit accepted by the real canFit for this candidate, count limits lifted; 2^32 if none
template <typename P>
static uint64_t need(AltChainParamsRegTest& params, const CountingContext& c, const P& p, const Limits& real) {
  Limits l{MAX_POPDATA_VBK, MAX_POPDATA_VTB, MAX_POPDATA_ATV, 0xffffffffu};
  set(params, l);
  uint64_t r = 0x100000000ull;
  if (c.canFit(p)) {
    uint64_t lo = 0, hi = 0xffffffffull;  // canFit(hi) holds
    while (lo < hi) {
      uint64_t mid = lo + (hi - lo) / 2;
      params.mMaxPopDataSize = (uint32_t)mid;
      if (c.canFit(p)) {
        hi = mid;
      } else {
        lo = mid + 1;
      }
    }
    r = lo;
  }
  set(params, real);
  return r;
}

template <typename P>
static void one(AltChainParamsRegTest& params, CountingContext& c, const P& p, std::vector<P>& keptv, bool valid,
                const Limits& real, bool& verdict, uint64_t& nd) {
  nd = need(params, c, p, real);
  verdict = c.canFit(p);
  if (verdict && valid) {
    c.update(p);
    keptv.push_back(p);
  }
}

static std::string cnt(const std::vector<std::string>& a) {
  if (a.size() < 4) return "SKIP args";
  Limits real{(size_t)std::stoull(a[0]), (size_t)std::stoull(a[1]), (size_t)std::stoull(a[2]),
              (uint32_t)std::stoull(a[3])};
  if (real.vbk > (size_t)MAX_POPDATA_VBK || real.vtb > (size_t)MAX_POPDATA_VTB || real.atv > (size_t)MAX_POPDATA_ATV ||
      std::stoull(a[3]) > 0xffffffffull)
    return "SKIP limits";
  AltChainParamsRegTest params;
  set(params, real);
  CountingContext c(params);
  PopData pop;
  std::string out;
  std::string cands = a.size() > 4 ? a[4] : "";
  size_t pos = 0;
  while (pos < cands.size()) {
    size_t e = cands.find(',', pos);
    if (e == std::string::npos) e = cands.size();
    std::string item = cands.substr(pos, e - pos);
    pos = e + 1;
    if (item.empty()) continue;
    size_t c1 = item.find(':'), c2 = item.rfind(':');
    if (c1 == std::string::npos || c2 == c1 || c1 != 1) return "SKIP candidate";
    char k = item[0];
    size_t size = (size_t)std::stoull(item.substr(c1 + 1, c2 - c1 - 1));
    bool valid = item.substr(c2 + 1) == "1";
    if (!ensure(k, size)) return "SKIP size";
    bool verdict = false;
    uint64_t nd = 0;
    if (k == 'v') {
      one(params, c, the_vbk, pop.context, valid, real, verdict, nd);
    } else if (k == 'w') {
      one(params, c, vtbs[size], pop.vtbs, valid, real, verdict, nd);
    } else {
      one(params, c, atvs[size], pop.atvs, valid, real, verdict, nd);
    }
    if (!out.empty()) out += ",";
    out += std::string(verdict ? "1" : "0") + ":" + std::to_string(nd) + ":" + std::to_string(pop.estimateSize());
  }
  size_t est = pop.estimateSize();
  bool fits = pop.context.size() <= real.vbk && pop.vtbs.size() <= real.vtb && pop.atvs.size() <= real.atv &&
              est <= real.size;
  return (out.empty() ? std::string("-") : out) + " est=" + std::to_string(est) + " fits=" + (fits ? "1" : "0") +
         " n=" + std::to_string(pop.context.size()) + "/" + std::to_string(pop.vtbs.size()) + "/" +
         std::to_string(pop.atvs.size());
}

int main() {
  return vh::main_loop([](const std::string&, const std::string& op, const std::vector<std::string>& a) -> std::string {
    if (op == "mk" && a.size() == 2) {
      size_t t = (size_t)std::stoull(a[1]);
      return ensure(a[0][0], t) ? std::to_string(t) : std::string("none");
    }
    if (op == "min") {  // the smallest payload of each kind
      ATV x;
      VTB y;
      return "v=" + std::to_string(the_vbk.estimateSize()) + " w=" + std::to_string(y.estimateSize()) +
             " a=" + std::to_string(x.estimateSize());
    }
    if (op == "cnt") return cnt(a);
    return "SKIP op";
  });
}
