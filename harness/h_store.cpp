// C09/C10 harness: World session + storage snapshots (crash model), extended
// dumps (dirty / finalized / root: BlockIndex::isDirty(), ::finalized, getRoot()
// are public) and the twin-instance operations of the finalization check.
//
// extra top-level ops (besides those of world.hpp):
//   snap <X> <S>            S := copy of the storage of instance X (as of now)
//   fromsnap <S> <Y>        Y := fresh instance over a copy of snapshot S, bootstrapped + loadTrees
//   clone <X> <Y>           = snap + fromsnap without a name
// extra instance ops (on <X> ...):
//   xdump [nobop]           full observation + per block D(irty)/F(inal) marks + roots; `nobop` never
//                           dereferences block-of-proof back pointers (they dangle after ALT finalization)
//   dirty                   ids of the dirty blocks per tree  (what the next save will write)
//   adump                   the ALT part of xdump only (input/expected output of the model correspondence)
//   final                   "<root> <highest finalized block on the active chain>" of ALT, VBK, BTC + block counts
//   pair <N> <op> <a>       C09 twin step, see pairOp()
//   paircheck <N>           C09 state comparison of the retained, non-outdated part
//   dangling                known finding dangling-endorsement-backpointers: back pointers (endorsedBy / block of
//                           proof) that point to no live containing endorsement; pointers are only compared
//   mpsubmit ctx=.. atvs=.. vtbs=..   hand payloads to the instance's mempool;  genpop  MemPool::generatePopData()
//   xdump fin               observation for a FINALIZING instance: per-block lines (status, payload ids, endorsements,
//                           refcount/refs, chain work) without tips_/roots/payload indices and without any
//                           block-of-proof back pointer (they dangle once containing blocks are deallocated)
//   guard on|off            direct oracle "finalization never deallocates an unsaved block": while on, before every
//                           operation of this instance the hashes of its dirty blocks (all three trees) are recorded
//                           and after it every one of them must still be in memory (deallocateBlock is the only
//                           function that frees a block and only finalization calls it); saveTrees clears the bits
//   btx <x> <v> <bparent> / vtbx <w> <x> <vparent> <lastKnownBtc>   (registry) a VTB in two steps: the BTC endorsement
//                           transaction is mined into a BTC block now, the VBK pop transaction / containing block later
// bootstrap configuration (keys of `begin`, default 0 = bootstrapWithGenesis): vbk_bootstrap_chain=k /
//   btc_bootstrap_chain=k  the miner first mines v1..vk / b1..bk and EVERY instance of the session (inst, clone,
//   fromsnap, reload) is bootstrapped with bootstrapWithChain(0, [genesis, 1..k]) - the way mainnet/testnet nodes are
//   configured. xdump prints the memory-only chainWork of every VBK/BTC block (rebuilt by loadBlockForward).
// A failed VBK_ASSERT (std::terminate) is answered "ABORT in=<instance>", the session is abandoned and every line
// up to the next `begin` is answered "DEAD" (see main()).
#include "world.hpp"
#include <unistd.h>

using namespace altintegration;
using vw::Instance;

struct StoreSession : public vw::Session {
  std::map<std::string, std::shared_ptr<adaptors::InmemStorageImpl>> snaps;
  std::map<std::string, std::string> lastFinal;  // instance -> id of its last observed final ALT block
  std::string curId;                              // id of the line being executed (for oracle_fail)
  std::string phase = "-";                        // name of the instance currently executing (reported on ABORT)

  // ------------------------------------------------------------------ helpers
  template <typename Tree>
  static const typename Tree::index_t* finalOf(const Tree& t) {
    const typename Tree::index_t* f = nullptr;
    for (auto* i = t.getBestChain().tip(); i != nullptr; i = i->pprev)
      if (i->finalized) { f = i; break; }
    return f;
  }
  std::string altFinalId(Instance& I) {
    auto* f = finalOf(I.tree);
    return f ? reg->nameOf(f->getHash()) : "-";
  }
  // `a` is outdated w.r.t. the final block `fin` (ids) iff fin is not in a's ancestry
  bool outdated(const std::string& fin, const std::string& a) {
    if (fin == "-" ) return false;
    if (!reg->alt.count(a)) return false;
    for (auto& x : reg->ancestry(a)) if (x == fin) return false;
    return true;
  }

  template <typename Index>
  static std::string marks(const Index& i) {
    return std::string(i.isDirty() ? " D" : "") + (i.finalized ? " F" : "");
  }

  template <typename Index>
  std::string ceOnly(const Index& i) {
    std::vector<std::string> c;
    for (auto& kv : i.getContainingEndorsements()) c.push_back(vw::endId(*reg, *kv.second));
    std::sort(c.begin(), c.end());
    std::string s = " ce=[";
    for (auto& x : c) s += x + ",";
    return s + "]";
  }
  template <typename Index>
  std::string byOnly(const Index& i) {
    std::vector<std::string> c;
    for (auto* e : i.getEndorsedBy()) c.push_back(vw::endId(*reg, *e));
    std::sort(c.begin(), c.end());
    std::string s = " by=[";
    for (auto& x : c) s += x + ",";
    return s + "]";
  }
  template <typename Index>
  std::string bopOnly(const Index& i, bool deref, bool omit = false) {
    if (omit) return "";
    if (!deref) return " nbop=" + std::to_string(i.getBlockOfProofEndorsement().size());
    std::vector<std::string> c;
    for (auto* e : i.getBlockOfProofEndorsement()) c.push_back(vw::endId(*reg, *e));
    std::sort(c.begin(), c.end());
    std::string s = " bop=[";
    for (auto& x : c) s += x + ",";
    return s + "]";
  }
  std::string vtbIds(const BlockIndex<VbkBlock>& i) {
    std::string s = " vtbs=[";
    for (auto& id : i.getPayloadIds<VTB>()) {
      auto it = reg->names.find("id:" + vh::hex(id.data(), id.size()));
      s += (it == reg->names.end() ? "?" : it->second) + ",";
    }
    return s + "]";
  }
  template <typename Tree>
  std::string tipsOf(const Tree& t) {
    std::vector<std::string> tips;
    for (auto* x : t.getTips()) tips.push_back(reg->nameOf(x->getHash()));
    std::sort(tips.begin(), tips.end());
    std::string s;
    for (auto& x : tips) s += " " + x;
    return s;
  }

  std::string altLine(const BlockIndex<AltBlock>& i, bool withMarks) {
    return "ALT " + reg->nameOf(i.getHash()) + " h=" + std::to_string(i.getHeight()) + " st=" +
           std::to_string(i.getStatus()) + (withMarks ? marks(i) : "") + vw::plIds(*reg, i) + ceOnly(i) + byOnly(i);
  }
  // memory-only accumulated proof of work (what PoW fork resolution compares), rebuilt on load
  template <typename Index>
  static std::string workOf(const Index& i) {
    auto h = i.chainWork.toHex();
    size_t p = h.find_first_not_of('0');
    return " cw=" + (p == std::string::npos ? std::string("0") : h.substr(p));
  }
  // Status word for the comparison of two RUNNING instances (C09 twins): the validation-level memo
  // BLOCK_CONNECTED (2) .. BLOCK_CAN_BE_APPLIED (4) of a VALID VBK/BTC block that is NOT on the best chain is
  // normalised to 2. BaseBlockTree::doUpdateTips() runs fork resolution over `tips_`, an
  // std::unordered_set<index_t*>: the iteration order follows the addresses of the block indices and differs
  // between any two instances. When the best SP branch is removed (its ALT blocks are unapplied), a stale valid
  // branch that is visited BEFORE the eventual winner is applied once (raiseValidity -> CAN_BE_APPLIED) and then
  // loses; visited after the winner it is compared without being applied and stays CONNECTED. Best chains, flags,
  // payloads and all answers are equal; only this memo differs. Everything else (failed flags, ACTIVE, levels 0/1,
  // every ALT block) stays exact.
  template <typename Index>
  static uint32_t twinStatus(const Index& i) {
    uint32_t st = i.getStatus();
    uint32_t lvl = st & BLOCK_VALID_MASK;
    if (!(st & BLOCK_ACTIVE) && !(st & BLOCK_FAILED_MASK) && lvl >= BLOCK_CONNECTED && lvl <= BLOCK_CAN_BE_APPLIED)
      st = (st & ~(uint32_t)BLOCK_VALID_MASK) | BLOCK_CONNECTED;
    return st;
  }
  std::string vbkLine(const BlockIndex<VbkBlock>& i, bool withMarks, bool deref, bool omitBop = false,
                      bool work = false, bool twin = false) {
    return "VBK " + reg->nameOf(i.getHash()) + " h=" + std::to_string(i.getHeight()) + " st=" +
           std::to_string(twin ? twinStatus(i) : i.getStatus()) + (withMarks ? marks(i) : "") + " rc=" + std::to_string(i.refCount()) +
           vtbIds(i) + ceOnly(i) + byOnly(i) + bopOnly(i, deref, omitBop) + (work ? workOf(i) : "");
  }
  std::string btcLine(const BlockIndex<BtcBlock>& i, bool withMarks, bool deref, bool omitBop = false,
                      bool work = false, bool twin = false) {
    auto refs = i.getRefs();
    std::sort(refs.begin(), refs.end());
    std::string s = "BTC " + reg->nameOf(i.getHash()) + " h=" + std::to_string(i.getHeight()) + " st=" +
                    std::to_string(twin ? twinStatus(i) : i.getStatus()) + (withMarks ? marks(i) : "") + " refs=[";
    for (auto x : refs) s += std::to_string(x) + ",";
    return s + "]" + bopOnly(i, deref, omitBop) + (work ? workOf(i) : "");
  }

  std::string xdump(Instance& I, bool deref, bool altOnly = false, bool finMode = false) {
    vw::Obs o;
    auto& t = I.tree;
    for (auto* i : t.getBlocks()) o.add(altLine(*i, true));
    o.add("ALT tips" + tipsOf(t));
    o.add("ALT applied " + std::to_string(t.appliedBlockCount));
    o.add("ALT root " + reg->nameOf(t.getRoot().getHash()));
    o.add("ALT best " + reg->nameOf(t.getBestChain().tip()->getHash()));
    for (auto& kv : t.getPayloadsIndex().getAll()) {
      auto it = reg->names.find("id:" + vh::hex(kv.first.data(), kv.first.size()));
      std::vector<std::string> bs;
      for (auto& h : kv.second) bs.push_back(reg->nameOf(h));
      std::sort(bs.begin(), bs.end());
      std::string l = "ALT pidx " + (it == reg->names.end() ? "?" + vh::hex(kv.first) : it->second) + " ->";
      for (auto& b : bs) l += " " + b;
      if (!bs.empty()) o.add(l);
    }
    for (auto& kv : t.getFinalizedPayloadsIndex().getAll()) {
      auto it = reg->names.find("id:" + vh::hex(kv.first.data(), kv.first.size()));
      o.add("ALT fpidx " + (it == reg->names.end() ? "?" + vh::hex(kv.first) : it->second) + " -> " +
            reg->nameOf(kv.second));
    }
    if (altOnly) {
      auto s = o.str();
      std::replace(s.begin(), s.end(), '\n', ';');
      std::replace(s.begin(), s.end(), ' ', '_');
      return s;
    }
    for (auto* i : t.vbk().getBlocks()) o.add(vbkLine(*i, true, deref, finMode, true));
    if (!finMode) o.add("VBK tips" + tipsOf(t.vbk()));
    o.add("VBK root " + reg->nameOf(t.vbk().getRoot().getHash()));
    o.add("VBK best " + reg->nameOf(t.vbk().getBestChain().tip()->getHash()));
    for (auto* i : t.btc().getBlocks()) o.add(btcLine(*i, true, deref, finMode, true));
    if (!finMode) o.add("BTC tips" + tipsOf(t.btc()));
    o.add("BTC root " + reg->nameOf(t.btc().getRoot().getHash()));
    o.add("BTC best " + reg->nameOf(t.btc().getBestChain().tip()->getHash()));
    auto s = o.str();
    std::replace(s.begin(), s.end(), '\n', ';');
    std::replace(s.begin(), s.end(), ' ', '_');
    return s;
  }

  template <typename Tree>
  std::string dirtyOf(const Tree& t) {
    std::vector<std::pair<int, std::string>> v;
    for (auto* i : t.getAllBlocks())
      if (i->isDirty()) {
        auto n = reg->nameOf(i->getHash());
        v.push_back({std::stoi(n.substr(1)), n + (i->isDeleted() ? "x" : "")});
      }
    std::sort(v.begin(), v.end());
    std::string s;
    for (auto& x : v) s += (s.empty() ? "" : ",") + x.second;
    return s.empty() ? "-" : s;
  }

  // `hdr` with a local guard. On the unchanged library re-accepting the header of a removed block that
  // carries BLOCK_FAILED_POP restores it at validity level 0 (raiseValidity refuses FAILED_POP blocks) and the
  // next child header then aborts in raiseValidity's ancestor assertion. That is a tree-consistency matter
  // (C07/C08, reported to the lead); the C09/C10 histories stay clear of it.
  // Related exclusion (documented in the evidence): deleteTemporarily() keeps the FAILED_* flags of a removed
  // block in memory, loadBlocksAndTip() skips deleted blocks, so a reloaded instance has forgotten them and
  // accepts the header of a removed invalid block again (the live one answers ALT-bad-chain). The histories
  // therefore never re-add a block that was failed when it was removed (tracked per session, by id, so the
  // live instance and its reloaded twins get the same SKIP).
  std::set<std::string> failedRemoved;
  std::string rmGuarded(Instance& I, const std::string& id) {
    auto* i = I.idx(id);
    if (i != nullptr && !i->isRoot()) {
      std::vector<BlockIndex<AltBlock>*> st{i};
      while (!st.empty()) {
        auto* x = st.back();
        st.pop_back();
        if (x->isFailed()) failedRemoved.insert(reg->nameOf(x->getHash()));
        for (auto* n : x->pnext) st.push_back(n);
      }
    }
    return I.removeSubtree(id);
  }
  std::string hdrGuarded(Instance& I, const std::string& id) {
    auto it = reg->alt.find(id);
    if (it == reg->alt.end()) return "SKIP unknown";
    if (failedRemoved.count(id)) return "SKIP readd-failed";
    auto* par = I.tree.getBlockIndex(it->second.block.previousBlock);
    if (par != nullptr && !par->isValidUpTo(BLOCK_VALID_TREE)) return "SKIP parent-level0";
    return I.hdr(id);
  }

  // ------------------------------------------------------------------ C09 twin step
  // on <F> pair <N> <op> <a>: F is the finalizing instance, N the one that never finalizes.
  //  * a outdated w.r.t. F's final block (does not descend from it):
  //      cmp   -> F must answer 1 (refuse);    set -> outside the documented precondition (SKIP);
  //      other -> executed on F only (the block can never matter again); N is not touched.
  //  * otherwise the op runs on both; the answers must be equal.
  //  afterwards: both active tips equal; every block that was final in F before is still on F's active chain.
  bool belowVbkHorizon(Instance& F, const std::string& a) {
    int root = F.tree.vbk().getRoot().getHeight();
    if (root == 0) return false;
    for (auto& x : reg->ancestry(a)) {
      auto* i = F.idx(x);
      if (i == nullptr || i->hasFlags(BLOCK_ACTIVE)) continue;  // deallocated (final) history or already applied
      auto& info = reg->alt.at(x);
      for (auto& v : info.pd.context)
        if (v.getHeight() < root) return true;
    }
    return false;
  }
  std::string pairOp(Instance& F, const std::string& fname, const std::vector<std::string>& t) {
    if (t.size() < 4) return "BAD";
    auto itN = inst.find(t[1]);
    if (itN == inst.end()) return "SKIP noinst";
    Instance& N = *itN->second;
    const std::string& op = t[2];
    const std::string& a = t[3];
    std::string fin = altFinalId(F);
    bool out = outdated(fin, a);
    std::string res;
    auto run = [&](Instance& I) -> std::string {
      phase = (&I == &F) ? fname : t[1];
      if (op == "hdr") return hdrGuarded(I, a);
      if (op == "body") return I.body(a);
      if (op == "set") return I.setState(a);
      if (op == "cmp") return I.compare(a);
      if (op == "inv") return I.invalidate(a);
      if (op == "reval") return I.revalidate(a);
      if (op == "rm") return rmGuarded(I, a);
      if (op == "rmpl") return I.removePayloads(a);
      if (op == "payout") return I.payout(a);
      return "UNKNOWN-OP";
    };
    if (out) {
      if (op == "cmp") {
        auto r = run(F);
        if (r != "1" && r.rfind("SKIP", 0) != 0)
          vh::oracle_fail(curId, "cmp-accepted-candidate-forking-below-final final=" + fin + " cand=" + a + " result=" + r);
        res = "outdated " + r;
      } else if (op == "set" || op == "payout") {
        auto r = F.setState(a);  // must be refused by the precondition guard (would unapply a final block) or unknown
        if (op == "set" && r.rfind("SKIP", 0) != 0 && r.rfind("false", 0) != 0)
          vh::oracle_fail(curId, "set-below-final-not-guarded final=" + fin + " cand=" + a + " result=" + r);
        res = "outdated skip";
      } else {
        res = "outdated " + run(F);
      }
    } else if ((op == "set" || op == "cmp") && belowVbkHorizon(F, a)) {
      // the candidate's bodies carry VBK context older than F's VBK root (an ALT fork whose VBK knowledge is
      // older than the VBK finalization horizon): not an honest later block under these toy parameters
      res = "SKIP vbk-horizon";
    } else {
      auto rf = run(F);
      // the op would touch a final block of F (invalidate / remove / unapply it): outside the documented
      // precondition for F, so it is not a later operation the twins can be compared on
      auto rn = rf.rfind("SKIP final", 0) == 0 ? rf : run(N);
      if (rf != rn)
        vh::oracle_fail(curId, "twin-answer-differs op=" + op + " " + a + " F=" + rf + " N=" + rn + " final=" + fin);
      res = rf;
    }
    return res + after(F, fname, N);
  }

  std::string after(Instance& F, const std::string& fname, Instance& N) {
    auto tf = F.tip(), tn = N.tip();
    if (tf != tn) vh::oracle_fail(curId, "twin-tip-differs F=" + tf + " N=" + tn);
    // monotonicity: the block that was final before is still on F's active chain
    auto& lf = lastFinal[fname];
    if (!lf.empty() && lf != "-") {
      bool on = false;
      for (auto& x : reg->ancestry(tf)) if (x == lf) on = true;
      if (!on) vh::oracle_fail(curId, "active-chain-left-final-block final=" + lf + " tip=" + tf);
    }
    auto nf = altFinalId(F);
    if (!lf.empty() && lf != "-" && nf != "-") {
      // the final block only moves forward along the chain
      bool desc = false;
      for (auto& x : reg->ancestry(nf)) if (x == lf) desc = true;
      if (!desc) vh::oracle_fail(curId, "final-block-moved-back old=" + lf + " new=" + nf);
    }
    lf = nf;
    return " | tip=" + tf + " fin=" + nf;
  }

  // state comparison of the part F retains and that can still matter:
  //  ALT: blocks of F that descend from F's final block or lie on F's active chain: status, payload ids,
  //       containing endorsements; endorsedBy restricted to endorsements whose containing block F still has
  //  VBK/BTC: blocks of F: status, refcount/refs, VTB ids, containing endorsements, endorsedBy. The block-of-proof
  //       back pointers are NOT compared: they are memory-only, a finalizing instance legitimately holds fewer
  //       (pointers into deallocated containing blocks are dropped once known finding
  //       dangling-endorsement-backpointers is repaired; before the repair they dangle and must not be read)
  // preserved window (property text: "every block within the preserved window ... remains available"): the root of a
  // finalizing tree is never above max(bootstrap, final - preserveBlocksBehindFinal)
  template <typename Tree>
  void windowCheck(const Tree& t, int preserve, const char* name) {
    auto* f = finalOf(t);
    if (f == nullptr) return;
    int root = t.getRoot().getHeight();
    int want = std::max(0, (int)f->getHeight() - preserve);
    if (root > want && !t.getRoot().hasFlags(BLOCK_BOOTSTRAP))
      vh::oracle_fail(curId, std::string("preserved-window-violated tree=") + name + " root=" + std::to_string(root) +
                                 " final=" + std::to_string(f->getHeight()) + " preserve=" + std::to_string(preserve));
  }

  std::string pairCheck(Instance& F, Instance& N) {
    std::string fin = altFinalId(F);
    windowCheck(F.tree, (int)params->alt.preserveBlocksBehindFinal(), "ALT");
    windowCheck(F.tree.vbk(), (int)params->vbk.preserveBlocksBehindFinal(), "VBK");
    int n = 0, bad = 0;
    std::string first;
    auto cmpl = [&](const std::string& lf, const std::string& ln) {
      n++;
      if (lf != ln) {
        bad++;
        if (first.empty()) first = "F:" + lf + " N:" + ln;
      }
    };
    for (auto* i : F.tree.getBlocks()) {
      auto id = reg->nameOf(i->getHash());
      bool onchain = F.tree.getBestChain().contains(i);
      if (!onchain && outdated(fin, id)) continue;
      auto* j = N.idx(id);
      if (j == nullptr) { cmpl(altLine(*i, false), "<missing>"); continue; }
      // endorsedBy in N may contain endorsements from containing blocks F has deallocated: none can exist,
      // because a containing block is a descendant of the endorsed one, hence retained whenever it can matter
      cmpl(altLine(*i, false), altLine(*j, false));
    }
    // the other direction: every block N knows that is not outdated w.r.t. F's final block must still be known to
    // F (N is only ever shown non-outdated blocks, F is shown everything; `rm` runs on both) - finalization may
    // deallocate outdated blocks only
    for (auto* j : N.tree.getBlocks()) {
      auto id = reg->nameOf(j->getHash());
      if (outdated(fin, id)) continue;
      n++;
      if (F.idx(id) == nullptr) {
        bad++;
        if (first.empty()) first = "F:<missing non-outdated block " + id + "> N:" + altLine(*j, false);
      }
    }
    for (auto* i : F.tree.vbk().getBlocks()) {
      auto* j = N.tree.vbk().getBlockIndex(i->getHash());
      if (j == nullptr) { cmpl(vbkLine(*i, false, false, true), "<missing>"); continue; }
      cmpl(vbkLine(*i, false, false, true, false, true), vbkLine(*j, false, false, true, false, true));
    }
    for (auto* i : F.tree.btc().getBlocks()) {
      auto* j = N.tree.btc().getBlockIndex(i->getHash());
      if (j == nullptr) { cmpl(btcLine(*i, false, false, true), "<missing>"); continue; }
      cmpl(btcLine(*i, false, false, true, false, true), btcLine(*j, false, false, true, false, true));
    }
    cmpl("VBK best " + reg->nameOf(F.tree.vbk().getBestChain().tip()->getHash()),
         "VBK best " + reg->nameOf(N.tree.vbk().getBestChain().tip()->getHash()));
    cmpl("BTC best " + reg->nameOf(F.tree.btc().getBestChain().tip()->getHash()),
         "BTC best " + reg->nameOf(N.tree.btc().getBestChain().tip()->getHash()));
    if (bad) {
      std::replace(first.begin(), first.end(), ' ', '_');
      vh::oracle_fail(curId, "twin-state-differs " + std::to_string(bad) + "/" + std::to_string(n) + " first=" + first);
    }
    return "checked " + std::to_string(n) + " bad " + std::to_string(bad);
  }

  // `sdump`: the VBK and BTC trees in the form the C09 stack-finalization correspondence feeds to the model
  // (coq/Store/StackDefs.v): per block name,parent|-,height,dirty,final,payload ids; tips, root, best chain tip,
  // finalized payload index, and for VBK the refs of the BTC best tip (the bound of VbkBlockTree::finalizeBlocks)
  std::string spPayloads(const BlockIndex<VbkBlock>& i) {
    std::string pl;
    for (auto& id : i.getPayloadIds<VTB>()) {
      auto it = reg->names.find("id:" + vh::hex(id.data(), id.size()));
      pl += (pl.empty() ? "" : ".") + (it == reg->names.end() ? std::string("?") : it->second);
    }
    return pl;
  }
  std::string spPayloads(const BlockIndex<BtcBlock>&) { return ""; }
  template <typename Tree>
  std::string spTree(const Tree& t, const char* tag) {
    std::vector<std::string> ls;
    for (auto* i : t.getBlocks()) {
      std::string l = reg->nameOf(i->getHash()) + "," + (i->pprev ? reg->nameOf(i->pprev->getHash()) : std::string("-")) + "," +
                      std::to_string(i->getHeight()) + "," + (i->isDirty() ? "1" : "0") + "," + (i->finalized ? "1" : "0") + ",";
      std::string pl = spPayloads(*i);
      ls.push_back(l + (pl.empty() ? "-" : pl));
    }
    std::sort(ls.begin(), ls.end());
    std::string s = std::string(tag) + "{";
    for (auto& l : ls) s += l + ";";
    s += "}tips{";
    std::vector<std::string> tips;
    for (auto* x : t.getTips()) tips.push_back(reg->nameOf(x->getHash()));
    std::sort(tips.begin(), tips.end());
    for (auto& x : tips) s += x + ";";
    s += "}root{" + reg->nameOf(t.getRoot().getHash()) + "}best{" + reg->nameOf(t.getBestChain().tip()->getHash()) + "}fp{";
    std::vector<std::string> fp;
    for (auto& kv : t.getFinalizedPayloadsIndex().getAll()) {
      auto it = reg->names.find("id:" + vh::hex(kv.first.data(), kv.first.size()));
      fp.push_back((it == reg->names.end() ? std::string("?") : it->second) + ">" + reg->nameOf(kv.second));
    }
    std::sort(fp.begin(), fp.end());
    for (auto& x : fp) s += x + ";";
    return s + "}";
  }
  std::string sdump(Instance& I) {
    std::string s = spTree(I.tree.vbk(), "VBK") + "refs{";
    for (auto x : I.tree.btc().getBestChain().tip()->getRefs()) s += std::to_string(x) + ";";
    s += "}|" + spTree(I.tree.btc(), "BTC");
    s += "|cfg{" + std::to_string(I.tree.vbk().getParams().getMaxReorgBlocks()) + "," +
         std::to_string(I.tree.vbk().getParams().preserveBlocksBehindFinal()) + "," +
         std::to_string(I.tree.btc().getParams().getMaxReorgBlocks()) + "," +
         std::to_string(I.tree.btc().getParams().preserveBlocksBehindFinal()) + "}";
    return s;
  }

  // ------------------------------------------------------------------ dispatch
  std::string extra(Instance& I, const std::vector<std::string>& t) override {
    const std::string& c = t[0];
    if (c == "sdump") return sdump(I);  // VBK + BTC trees (C09 stack-finalization correspondence)
    if (c == "xdump" && t.size() > 1 && t[1] == "fin") return xdump(I, false, false, true);
    if (c == "xdump") return xdump(I, !(t.size() > 1 && t[1] == "nobop"));
    if (c == "adump") return xdump(I, false, true);  // ALT tree only (model correspondence)
    if (c == "dirty")
      return "A:" + dirtyOf(I.tree) + " V:" + dirtyOf(I.tree.vbk()) + " B:" + dirtyOf(I.tree.btc());
    if (c == "final") {
      auto* fv = finalOf(I.tree.vbk());
      auto* fb = finalOf(I.tree.btc());
      return "A " + reg->nameOf(I.tree.getRoot().getHash()) + " " + altFinalId(I) + " V " +
             reg->nameOf(I.tree.vbk().getRoot().getHash()) + " " + (fv ? reg->nameOf(fv->getHash()) : "-") + " B " +
             reg->nameOf(I.tree.btc().getRoot().getHash()) + " " + (fb ? reg->nameOf(fb->getHash()) : "-") +
             " nA=" + std::to_string(I.tree.getBlocks().size()) + " nV=" + std::to_string(I.tree.vbk().getBlocks().size()) +
             " nB=" + std::to_string(I.tree.btc().getBlocks().size());
    }
    if (c == "mpsubmit") {
      // mpsubmit ctx=v1,v2 atvs=t1 vtbs=w1 : hand payloads to the instance's mempool
      std::string r;
      for (size_t i = 1; i < t.size(); i++) {
        for (auto& x : vw::csv(t[i])) {
          ValidationState st;
          bool ok = false;
          if (t[i].rfind("ctx=", 0) == 0 && reg->vbk.count(x)) ok = I.mempool->submit<VbkBlock>(reg->vbk.at(x), true, st).isAccepted();
          if (t[i].rfind("atvs=", 0) == 0 && reg->atv.count(x)) ok = I.mempool->submit<ATV>(reg->atv.at(x), true, st).isAccepted();
          if (t[i].rfind("vtbs=", 0) == 0 && reg->vtb.count(x)) ok = I.mempool->submit<VTB>(reg->vtb.at(x), true, st).isAccepted();
          r += std::string(r.empty() ? "" : " ") + x + (ok ? ":acc" : ":rej");
        }
      }
      return r.empty() ? "none" : r;
    }
    if (c == "genpop") {
      // generatePopData(); reports the final block before/after (F10: the temporary mempool block)
      auto before = altFinalId(I);
      auto tipb = I.tip();
      PopData pd = I.mempool->generatePopData();
      return "ctx=" + std::to_string(pd.context.size()) + " vtbs=" + std::to_string(pd.vtbs.size()) + " atvs=" +
             std::to_string(pd.atvs.size()) + " final " + before + " -> " + altFinalId(I) + " tip " + tipb + " -> " + I.tip();
    }
    if (c == "dangling") {
      // release-build oracle for known finding dangling-endorsement-backpointers: pure pointer comparison, nothing
      // is dereferenced. Every endorsedBy / block-of-proof back pointer of a retained block must point to an
      // endorsement that is still owned by the containing-endorsement map of some block of the protected tree.
      std::set<const void*> liveAlt, liveVbk;
      for (auto* i : I.tree.getAllBlocks())
        for (auto& kv : i->getContainingEndorsements()) liveAlt.insert(kv.second.get());
      for (auto* i : I.tree.vbk().getAllBlocks())
        for (auto& kv : i->getContainingEndorsements()) liveVbk.insert(kv.second.get());
      int altby = 0, vbkbop = 0, vbkby = 0, btcbop = 0;
      for (auto* i : I.tree.getAllBlocks())
        for (auto* e : i->getEndorsedBy()) if (!liveAlt.count(e)) altby++;
      for (auto* i : I.tree.vbk().getAllBlocks()) {
        for (auto* e : i->getBlockOfProofEndorsement()) if (!liveAlt.count(e)) vbkbop++;
        for (auto* e : i->getEndorsedBy()) if (!liveVbk.count(e)) vbkby++;
      }
      for (auto* i : I.tree.btc().getAllBlocks())
        for (auto* e : i->getBlockOfProofEndorsement()) if (!liveVbk.count(e)) btcbop++;
      std::string r = "altby=" + std::to_string(altby) + " vbkbop=" + std::to_string(vbkbop) + " vbkby=" +
                      std::to_string(vbkby) + " btcbop=" + std::to_string(btcbop);
      if (altby + vbkbop + vbkby + btcbop > 0) vh::oracle_fail(curId, "dangling-endorsement-backpointers " + r);
      return r;
    }
    if (c == "pair") {
      std::string fname;
      for (auto& kv : inst) if (kv.second.get() == &I) fname = kv.first;
      return pairOp(I, fname, t);
    }
    if (c == "paircheck") {
      auto itN = inst.find(t[1]);
      if (itN == inst.end()) return "SKIP noinst";
      return pairCheck(I, *itN->second);
    }
    return "";
  }

  // BTC endorsement transactions already mined into a BTC block whose VBK pop transaction does not exist yet
  struct PendingBtx { BtcTx tx; BtcBlock block; std::string endorsed; };
  std::map<std::string, PendingBtx> pendingBtx;

  // ------------------------------------------------------------------ bootstrap configuration
  int vboot = 0, bboot = 0;  // number of blocks after genesis in the VBK / BTC bootstrap chain (0: genesis only)
  void bootInstance(Instance& I) {
    if (bboot > 0) {
      std::vector<BtcBlock> c;
      for (int i = 0; i <= bboot; i++) c.push_back(reg->btc.at("b" + std::to_string(i)));
      I.tree.btc().bootstrapWithChain(0, c);
    } else {
      I.tree.btc().bootstrapWithGenesis(GetRegTestBtcBlock());
    }
    if (vboot > 0) {
      std::vector<VbkBlock> c;
      for (int i = 0; i <= vboot; i++) c.push_back(reg->vbk.at("v" + std::to_string(i)));
      I.tree.vbk().bootstrapWithChain(0, c);
    } else {
      I.tree.vbk().bootstrapWithGenesis(GetRegTestVbkBlock());
    }
    I.tree.bootstrap();
  }
  // `begin` as in vw::Session::begin, plus the bootstrap chains: mined first, so that they get the ids v1..vk / b1..bk
  void beginStore(const std::vector<std::string>& t) {
    inst.clear();
    reg.reset();
    params.reset();
    cfg = vw::Cfg();
    cfg.parse(t, 1);
    params.reset(new vw::Params(cfg));
    reg.reset(new vw::Registry(*params));
    vboot = (int)cfg.get("vbk_bootstrap_chain", 0);
    bboot = (int)cfg.get("btc_bootstrap_chain", 0);
    for (int i = 0; i < vboot; i++) reg->mineVbk("v" + std::to_string(i));
    for (int i = 0; i < bboot; i++) reg->mineBtc("b" + std::to_string(i));
    inst["A"].reset(new Instance(*params, *reg));
    bootInstance(*inst["A"]);
  }

  // ------------------------------------------------------------------ direct oracle: no unsaved block is deallocated
  std::set<std::string> guarded;
  template <typename Tree>
  static void dirtyHashes(const Tree& t, const char* tag, std::vector<std::pair<std::string, std::string>>& out,
                          const vw::Registry& r) {
    for (auto* i : t.getAllBlocks())
      if (i->isDirty()) {
        auto h = i->getHash();
        out.push_back({std::string(tag) + vh::hex(h.data(), h.size()),
                       r.nameOf(h) + "@" + std::to_string(i->getHeight()) + (i->isDeleted() ? "x" : "")});
      }
  }
  template <typename Tree>
  static void allHashes(const Tree& t, const char* tag, std::set<std::string>& out) {
    for (auto* i : t.getAllBlocks()) {
      auto h = i->getHash();
      out.insert(std::string(tag) + vh::hex(h.data(), h.size()));
    }
  }
  std::string guardedExec(const std::string& name, const std::vector<std::string>& t) {
    std::vector<std::pair<std::string, std::string>> before;
    {
      Instance& I = *inst.at(name);
      dirtyHashes(I.tree, "A", before, *reg);
      dirtyHashes(I.tree.vbk(), "V", before, *reg);
      dirtyHashes(I.tree.btc(), "B", before, *reg);
    }
    auto r = dispatch(t);
    auto it = inst.find(name);
    if (it == inst.end() || before.empty()) return r;
    std::set<std::string> now;
    allHashes(it->second->tree, "A", now);
    allHashes(it->second->tree.vbk(), "V", now);
    allHashes(it->second->tree.btc(), "B", now);
    std::string lost;
    int n = 0;
    for (auto& b : before)
      if (!now.count(b.first)) {
        if (n++ < 6) lost += (lost.empty() ? "" : ",") + b.second;
      }
    if (n > 0)
      vh::oracle_fail(curId, "unsaved-block-deallocated n=" + std::to_string(n) + " blocks=" + lost + " op=" +
                                 (t.size() > 3 ? t[2] + ":" + t[3] : t[2]) + " vbkroot=" +
                                 std::to_string(it->second->tree.vbk().getRoot().getHeight()) + " btcroot=" +
                                 std::to_string(it->second->tree.btc().getRoot().getHeight()) + " altroot=" +
                                 std::to_string(it->second->tree.getRoot().getHeight()));
    return r;
  }

  std::string top(const std::vector<std::string>& t) {
    const std::string& op = t[0];
    if (op == "on" && t.size() >= 3) {
      phase = t[1];
      if (t[2] == "guard") {
        if (!inst.count(t[1])) return "SKIP noinst";
        if (t.size() > 3 && t[3] == "off") guarded.erase(t[1]); else guarded.insert(t[1]);
        return "ok";
      }
      static const std::set<std::string> mutating{"hdr", "body", "set", "cmp", "inv", "reval", "rm", "rmpl", "payout", "fin"};
      if (guarded.count(t[1]) && inst.count(t[1]) && mutating.count(t[2])) return guardedExec(t[1], t);
    }
    return dispatch(t);
  }

  std::string dispatch(const std::vector<std::string>& t) {
    const std::string& op = t[0];
    if (op == "begin") {
      snaps.clear(); lastFinal.clear(); failedRemoved.clear(); guarded.clear(); pendingBtx.clear();
      beginStore(t);
      return "ok";
    }
    if (op == "inst" && t.size() >= 2 && reg) {
      inst[t[1]].reset(new Instance(*params, *reg));
      bootInstance(*inst[t[1]]);
      guarded.erase(t[1]);
      return "ok";
    }
    if (op == "snap") {
      auto it = inst.find(t[1]);
      if (it == inst.end()) return "SKIP noinst";
      snaps[t[2]] = std::make_shared<adaptors::InmemStorageImpl>(*it->second->storage);
      return "ok";
    }
    if (op == "fromsnap" || op == "clone") {
      phase = t[2];
      std::shared_ptr<adaptors::InmemStorageImpl> st;
      if (op == "clone") {
        auto it = inst.find(t[1]);
        if (it == inst.end()) return "SKIP noinst";
        st = std::make_shared<adaptors::InmemStorageImpl>(*it->second->storage);
      } else {
        auto it = snaps.find(t[1]);
        if (it == snaps.end()) return "SKIP nosnap";
        st = std::make_shared<adaptors::InmemStorageImpl>(*it->second);
      }
      std::unique_ptr<Instance> n(new Instance(*params, *reg, st));
      bootInstance(*n);
      std::string err;
      if (!n->load(err)) {
        std::replace(err.begin(), err.end(), ' ', '_');
        return "fail " + err;
      }
      inst[t[2]] = std::move(n);
      return "ok";
    }
    if (op == "btx" && t.size() >= 4 && reg) {
      // btx <x> <v> <bparent>: a BTC transaction endorsing VBK block v, mined NOW into a new BTC block on bparent;
      // the VBK pop transaction (and with it the VTB) is created later by `vtbx` -> id of the BTC block of proof
      if (!reg->vbk.count(t[2]) || !reg->btc.count(t[3]) || pendingBtx.count(t[1])) return "SKIP";
      auto tx = reg->miner.createBtcTxEndorsingVbkBlock(reg->vbk.at(t[2]));
      reg->tick();
      auto* bb = reg->miner.mineBtcBlocks(1, *reg->bidx(t[3]), {tx});
      if (bb == nullptr) return "SKIP miner-rejected";
      pendingBtx[t[1]] = PendingBtx{tx, bb->getHeader(), t[2]};
      return reg->regBtc(bb->getHeader());
    }
    if (op == "vtbx" && t.size() >= 5 && reg) {
      // vtbx <w> <x> <vparent> <lastKnownBtc>: VTB w from the BTC transaction x; its containing VBK block is mined
      // now on vparent, its BTC context starts after lastKnownBtc -> id of the containing VBK block
      auto it = pendingBtx.find(t[2]);
      if (it == pendingBtx.end() || !reg->vbk.count(t[3]) || !reg->btc.count(t[4]) || reg->vtb.count(t[1])) return "SKIP";
      auto ptx = reg->miner.createVbkPopTxEndorsingVbkBlock(it->second.block, it->second.tx,
                                                             reg->vbk.at(it->second.endorsed), reg->btc.at(t[4]).getHash());
      reg->tick();
      auto* vb = reg->miner.mineVbkBlocks(1, *reg->vidx(t[3]), std::vector<VbkPopTx>{ptx});
      if (vb == nullptr) return "SKIP miner-rejected";
      auto v = reg->miner.createVTB(vb->getHeader(), ptx);
      reg->vtb[t[1]] = v;
      auto wid = v.getId();
      reg->names["id:" + vh::hex(wid.data(), wid.size())] = t[1];
      reg->sweep();
      return reg->regVbk(vb->getHeader());
    }
    if (op == "drop") { inst.erase(t[1]); guarded.erase(t[1]); return "ok"; }
    if (op == "on" && t.size() >= 3 && t[2] == "reload") {
      // as PopContext::create does: bootstrap all three trees (same bootstrap configuration), then load
      auto it = inst.find(t[1]);
      if (it == inst.end()) return "SKIP noinst";
      std::unique_ptr<Instance> n(new Instance(*params, *reg, it->second->storage));
      bootInstance(*n);
      std::string err;
      if (!n->load(err)) return "fail " + err;
      it->second = std::move(n);
      return "ok";
    }
    if (op == "on" && t.size() >= 4 && t[2] == "hdr") {
      auto it = inst.find(t[1]);
      if (it == inst.end()) return "SKIP noinst";
      return hdrGuarded(*it->second, t[3]);
    }
    if (op == "on" && t.size() >= 4 && t[2] == "rm") {
      auto it = inst.find(t[1]);
      if (it == inst.end()) return "SKIP noinst";
      return rmGuarded(*it->second, t[3]);
    }
    return exec(t);
  }
};

struct ErrLogger : public altintegration::Logger {
  void log(altintegration::LogLevel, const std::string& m) override { fprintf(stderr, "%s\n", m.c_str()); }
};

// VBK_ASSERT ends in std::terminate(). To keep one process per check (MockMiner start-up costs seconds) the
// terminate handler jumps back into the line loop: the line is answered "ABORT in=<instance>", the session is
// leaked (its trees are in an undefined state) and every line up to the next `begin` is answered "DEAD".
#include <csetjmp>
#include <exception>
static std::jmp_buf g_env;
static volatile bool g_armed = false;
static void onTerminate() {
  if (g_armed) std::longjmp(g_env, 1);
  std::abort();
}

int main() {
  const char* lv = getenv("VERIF_LOG");  // debugging aid: VERIF_LOG=debug prints the library log to stderr
  if (lv) altintegration::SetLogger<ErrLogger>(altintegration::StringToLevel(lv));
  else altintegration::SetLogger<altintegration::Logger>(altintegration::LogLevel::off);
  altintegration::setMockTime(1700000000);
  std::set_terminate(onTerminate);
  StoreSession* s = new StoreSession();
  bool dead = false;
  std::ios::sync_with_stdio(false);
  std::string line;
  while (std::getline(std::cin, line)) {
    auto t = vh::split(line);
    if (t.size() < 2) continue;
    std::string id = t[0];
    std::vector<std::string> a(t.begin() + 1, t.end());
    std::string r;
    if (dead && a[0] != "begin") {
      std::cout << id << " DEAD\n";
      continue;
    }
    if (dead) {
      s = new StoreSession();  // the old one is leaked on purpose
      dead = false;
    }
    s->curId = id;
    s->phase = "-";
    if (setjmp(g_env) == 0) {
      g_armed = true;
      try {
        r = s->top(a);
      } catch (const std::exception& e) {
        r = std::string("THROW ") + typeid(e).name();
      } catch (...) {
        r = "THROW unknown";
      }
      g_armed = false;
    } else {
      g_armed = false;
      r = "ABORT in=" + s->phase;
      dead = true;
    }
    std::cout << id << " " << r << "\n";
  }
  std::cout.flush();
  _exit(0);  // skip destructors of leaked / live sessions
}
