// C07 — structural invariants of the three block trees, checked through public getters only.
//   std::vector<std::string> vw::check_invariants(const Registry&, const AltBlockTree&)
// returns one text per violated invariant (empty = all hold). Header-only; include after world.hpp.
//
// Invariants (T = any of the ALT / VBK / BTC trees; "block" = every entry of getAllBlocks(), i.e. including
// temporarily deleted ones, unless "live" = getBlocks() is said):
//  S1 root        exactly one block without pprev; it is getBestChain().first() and is not deleted
//  S2 links       b.pprev->pnext contains b, every c in b.pnext has c.pprev == b, height(b) = height(pprev)+1
//  S3 deleted     a deleted block has only deleted children, validity level UNKNOWN, no ACTIVE / HAS_PAYLOADS
//  V1 valid-up    isValid(b)  =>  isValid(b.pprev)             (a block is valid only if all its ancestors are)
//  V2 levels      validityLevel(b) <= validityLevel(b.pprev)   (=> a connected block has only connected ancestors);
//                 a live ALT block at level >= CONNECTED that is not the root has HAS_PAYLOADS
//  V3 excl        not (level == CAN_BE_APPLIED and FAILED_POP)
//  F1 failed-down isFailed(b.pprev)  =>  b has BLOCK_FAILED_CHILD   (every descendant of an invalid block is failed; the root
//                 never carries it). The converse is NOT an invariant of the code: removeSubtree drops FAILED_POP of the
//                 removed blocks but keeps FAILED_CHILD of their descendants (stale until a revalidation passes over it)
//  T1 tips        getTips() = { live b | canBeATip(b) and no child canBeATip }  with canBeATip = !deleted && isValid(validTipLevel),
//                 validTipLevel = CONNECTED (ALT) / VALID_TREE (VBK, BTC).  Weakened to "getTips() is a subset" once a
//                 non-root block is finalized (finalizeBlockImpl drops outdated tips that still exist)
//  C1 chain       getBestChain(): first() = root, consecutive entries are parent/child, tip() is a live block, every
//                 entry is live and !isFailed; appliedBlockCount == blocksCount()
//  C2 applied     ALT, VBK: b has BLOCK_ACTIVE <=> b is on the best chain, and every block of it is isValid(CONNECTED) (ALT);
//                 BTC: only the root (bootstrap) carries BLOCK_ACTIVE
//  P1 index->     ALT (VbkBlock/VTB/ATV ids) and VBK (VTB ids): every (pid -> h) of getPayloadsIndex() names a live block h
//                 whose id lists contain pid (entries with an empty set are ignored; a finalized block may stay listed)
//  P2 ->index     every live non-finalized block b and every pid of its id lists: getPayloadsIndex().find(pid) contains b
//  R1 refs        VBK / BTC trees of the ALT tree (only modified through the ALT tree): live b => refCount(b) > 0
//                 (bootstrap blocks hold the reference of the genesis), deleted b => refCount(b) == 0
#pragma once
#include <veriblock/pop/blockchain/alt_block_tree.hpp>

namespace vw {
using namespace altintegration;

namespace inv_detail {

template <typename Index>
inline std::string nm(const Index& i) {
  auto h = i.getHash();
  return std::to_string(i.getHeight()) + ":" + vh::hex(h.data(), std::min<size_t>(h.size(), 6));
}

struct Out {
  std::vector<std::string>& v;
  std::string tree;
  size_t cap;
  void operator()(const std::string& code, const std::string& text) {
    if (v.size() < cap) v.push_back(tree + " " + code + " " + text);
  }
};

template <typename Tree>
inline void structural(const Tree& t, const std::string& name, bool hasActiveFlags, bool isAlt, std::vector<std::string>& res) {
  using index_t = typename Tree::index_t;
  using addon_t = typename index_t::addon_t;
  Out bad{res, name, res.size() + 12};
  auto all = t.getAllBlocks();
  auto live = t.getBlocks();
  const auto& chain = t.getBestChain();
  std::set<const index_t*> liveSet(live.begin(), live.end());
  std::set<const index_t*> allSet(all.begin(), all.end());

  // S1
  const index_t* root = nullptr;
  size_t roots = 0;
  for (auto* b : all)
    if (b->pprev == nullptr) { roots++; root = b; }
  if (roots != 1) bad("S1", "number of blocks without pprev = " + std::to_string(roots));
  if (root != nullptr && chain.first() != root) bad("S1", "best chain does not start at the root");
  if (root != nullptr && root->isDeleted()) bad("S1", "root is deleted");
  bool finalizedBeyondRoot = false;

  for (auto* b : all) {
    if (b->finalized && b->pprev != nullptr) finalizedBeyondRoot = true;
    // S2
    if (b->pprev != nullptr) {
      if (!allSet.count(b->pprev)) bad("S2", nm(*b) + " pprev is not a block of the tree");
      else {
        if (b->pprev->pnext.count(const_cast<index_t*>(b)) == 0) bad("S2", nm(*b) + " missing from pprev->pnext");
        if (b->getHeight() != b->pprev->getHeight() + 1) bad("S2", nm(*b) + " height does not follow parent");
      }
    }
    for (auto* c : b->pnext) {
      if (!allSet.count(c)) bad("S2", nm(*b) + " has a pnext entry that is not a block of the tree");
      else if (c->pprev != b) bad("S2", nm(*b) + " pnext entry with another pprev");
    }
    // S3
    if (b->isDeleted()) {
      if (liveSet.count(b)) bad("S3", nm(*b) + " deleted block returned by getBlocks");
      for (auto* c : b->pnext)
        if (!c->isDeleted()) bad("S3", nm(*b) + " deleted block with live child " + nm(*c));
      if ((b->getStatus() & BLOCK_VALID_MASK) != 0) bad("S3", nm(*b) + " deleted block with a validity level");
      if (b->hasFlags(BLOCK_ACTIVE) || b->hasFlags(BLOCK_HAS_PAYLOADS)) bad("S3", nm(*b) + " deleted block ACTIVE/HAS_PAYLOADS");
    } else if (!liveSet.count(b)) {
      bad("S3", nm(*b) + " live block missing from getBlocks");
    }
    uint32_t lvl = b->getStatus() & BLOCK_VALID_MASK;
    // V3
    if (lvl == BLOCK_CAN_BE_APPLIED && b->hasFlags(BLOCK_FAILED_POP)) { bad("V3", nm(*b) + " CAN_BE_APPLIED and FAILED_POP"); continue; }
    if (lvl > BLOCK_CAN_BE_APPLIED) { bad("V3", nm(*b) + " unknown validity level"); continue; }
    if (b->pprev != nullptr && allSet.count(b->pprev)) {
      auto* p = b->pprev;
      uint32_t plvl = p->getStatus() & BLOCK_VALID_MASK;
      // V1
      if (b->isValid() && !p->isValid()) bad("V1", nm(*b) + " valid but parent " + nm(*p) + " is not");
      // V2
      if (lvl > plvl) bad("V2", nm(*b) + " level " + std::to_string(lvl) + " above parent level " + std::to_string(plvl));
      // F1
      if (p->isFailed() && !b->hasFlags(BLOCK_FAILED_CHILD)) bad("F1", nm(*b) + " lacks FAILED_CHILD below failed " + nm(*p));
    } else if (b->pprev == nullptr) {
      if (b->hasFlags(BLOCK_FAILED_CHILD)) bad("F1", "root has FAILED_CHILD");
    }
    if (isAlt && !b->isDeleted() && b->pprev != nullptr && lvl >= BLOCK_CONNECTED && !b->hasFlags(BLOCK_HAS_PAYLOADS))
      bad("V2", nm(*b) + " connected without HAS_PAYLOADS");
  }

  // T1
  {
    std::set<const index_t*> spec;
    for (auto* b : live) {
      if (!b->canBeATip()) continue;
      bool childCan = false;
      for (auto* c : b->pnext)
        if (c->canBeATip()) childCan = true;
      if (!childCan) spec.insert(b);
    }
    std::set<const index_t*> tips;
    for (auto* x : t.getTips()) tips.insert(x);
    for (auto* x : tips)
      if (!spec.count(x))
        bad("T1", std::string(allSet.count(x) ? nm(*x) : std::string("<dangling>")) + " in tips but not a usable block without usable child");
    if (!finalizedBeyondRoot)
      for (auto* x : spec)
        if (!tips.count(x)) bad("T1", nm(*x) + " usable block without usable child is missing from tips");
    (void)addon_t::validTipLevel;
  }

  // C1
  {
    auto* tip = chain.tip();
    if (tip == nullptr) bad("C1", "no best chain tip");
    else {
      if (!liveSet.count(tip)) bad("C1", "best chain tip is not a live block");
      const index_t* prev = nullptr;
      size_t n = 0;
      for (auto* x : chain) {
        n++;
        if (x == nullptr) { bad("C1", "hole in the best chain"); break; }
        if (!liveSet.count(x)) { bad("C1", "best chain entry is not a live block"); break; }
        if (prev != nullptr && x->pprev != prev) bad("C1", nm(*x) + " best chain entry does not follow its predecessor");
        if (x->isFailed()) bad("C1", nm(*x) + " failed block on the best chain");
        if (isAlt && !x->isValid(BLOCK_CONNECTED)) bad("C2", nm(*x) + " unconnected block on the best chain");
        if (hasActiveFlags && !x->hasFlags(BLOCK_ACTIVE)) bad("C2", nm(*x) + " best chain block without BLOCK_ACTIVE");
        prev = x;
      }
      if (prev != tip) bad("C1", "best chain does not end at tip()");
      if (t.appliedBlockCount != chain.blocksCount())
        bad("C1", "appliedBlockCount " + std::to_string(t.appliedBlockCount) + " != |best chain| " + std::to_string(chain.blocksCount()));
    }
    // C2
    for (auto* b : all) {
      if (!b->hasFlags(BLOCK_ACTIVE)) continue;
      if (hasActiveFlags) {
        if (!chain.contains(b)) bad("C2", nm(*b) + " has BLOCK_ACTIVE off the best chain");
      } else if (b->pprev != nullptr && !b->hasFlags(BLOCK_BOOTSTRAP)) {
        bad("C2", nm(*b) + " has BLOCK_ACTIVE in a tree that never applies blocks");
      }
    }
  }
}

template <typename Tree>
inline void refs(const Tree& t, const std::string& name, std::vector<std::string>& res) {
  Out bad{res, name, res.size() + 6};
  for (auto* b : t.getAllBlocks()) {
    if (b->isDeleted()) {
      if (b->refCount() != 0) bad("R1", nm(*b) + " deleted block with refCount " + std::to_string(b->refCount()));
    } else if (b->refCount() == 0) {
      bad("R1", nm(*b) + " live block that nothing references");
    }
  }
}

template <typename Tree, typename IdsOf>
inline void payloadIndex(const Tree& t, const std::string& name, IdsOf&& idsOf, std::vector<std::string>& res) {
  using index_t = typename Tree::index_t;
  Out bad{res, name, res.size() + 6};
  const auto& idx = t.getPayloadsIndex().getAll();
  // P1
  for (auto& kv : idx) {
    for (auto& h : kv.second) {
      const index_t* b = t.getBlockIndex(h);
      if (b == nullptr) { bad("P1", "payload " + vh::hex(kv.first).substr(0, 12) + " indexed in a block that does not exist"); continue; }
      auto ids = idsOf(*b);
      if (std::find(ids.begin(), ids.end(), kv.first) == ids.end())
        bad("P1", "payload " + vh::hex(kv.first).substr(0, 12) + " indexed in " + nm(*b) + " which does not contain it");
    }
  }
  // P2
  for (auto* b : t.getBlocks()) {
    if (b->finalized) continue;
    for (auto& pid : idsOf(*b)) {
      auto it = idx.find(pid);
      if (it == idx.end() || it->second.count(b->getHash()) == 0)
        bad("P2", "payload " + vh::hex(pid).substr(0, 12) + " of " + nm(*b) + " missing from the payload index");
    }
  }
}

}  // namespace inv_detail

// a tree that never applies blocks through a state machine (BlockTree<BtcBlock>)
template <typename Tree>
inline std::vector<std::string> check_pow_invariants(const Tree& t, const std::string& name) {
  std::vector<std::string> res;
  inv_detail::structural(t, name, /*hasActiveFlags=*/false, /*isAlt=*/false, res);
  return res;
}

inline std::vector<std::string> check_invariants(const Registry&, const AltBlockTree& t) {
  std::vector<std::string> res;
  inv_detail::structural(t, "ALT", true, true, res);
  inv_detail::structural(t.vbk(), "VBK", true, false, res);
  inv_detail::structural(t.btc(), "BTC", false, false, res);
  inv_detail::payloadIndex(
      t, "ALT",
      [](const BlockIndex<AltBlock>& b) {
        std::vector<std::vector<uint8_t>> r;
        for (auto& x : b.getPayloadIds<VbkBlock>()) r.push_back(x.asVector());
        for (auto& x : b.getPayloadIds<VTB>()) r.push_back(x.asVector());
        for (auto& x : b.getPayloadIds<ATV>()) r.push_back(x.asVector());
        return r;
      },
      res);
  inv_detail::payloadIndex(
      t.vbk(), "VBK",
      [](const BlockIndex<VbkBlock>& b) {
        std::vector<std::vector<uint8_t>> r;
        for (auto& x : b.getPayloadIds<VTB>()) r.push_back(x.asVector());
        return r;
      },
      res);
  inv_detail::refs(t.vbk(), "VBK", res);
  inv_detail::refs(t.btc(), "BTC", res);
  return res;
}

}  // namespace vw
