// C18 harness: ArithUint256 operations, compact codec, text codecs, address.
// Each op prints the canonical observation of the real code; for ops that have a
// direct oracle (round trips, a/b*b+r, ...) the oracle is evaluated on the
// implementation and failures are printed as "!<id> <text>".
#include <veriblock/pop/arith_uint256.hpp>
#include <veriblock/pop/base58.hpp>
#include <veriblock/pop/base59.hpp>
#include <veriblock/pop/entities/address.hpp>
#include <veriblock/pop/hashutil.hpp>
#include <veriblock/pop/strutil.hpp>
#include <veriblock/pop/validation_state.hpp>

#include "common.hpp"
using namespace altintegration;

static ArithUint256 u256_of_hex(const std::string& s) {
  // s: canonical hex number, at most 64 digits
  std::string p = std::string(64 - s.size(), '0') + s;
  auto be = vh::unhex(p);
  std::vector<uint8_t> le(be.rbegin(), be.rend());
  return ArithUint256(le);
}
static std::string num(const ArithUint256& a) { return vh::hexnum_le(a.data(), a.size()); }

// ---------------------------------------------------------------------------
// C port of the PROVED compact specification (coq/Arith/CompactSpec.v
// fromBits_spec, coq/Arith/CompactDefs.v toBits) on an independent 4x64-bit
// representation. Trusted glue: validated against the extracted Coq model on
// every pfrombits/ptobits case of the quick stream; used for the 2^32 sweep.
// ---------------------------------------------------------------------------
struct W256 {
  uint64_t w[4];
};
static W256 w_zero() { return W256{{0, 0, 0, 0}}; }
static W256 w_shl(const W256& a, unsigned k) {  // a * 2^k mod 2^256
  W256 r = w_zero();
  if (k >= 256) return r;
  unsigned q = k / 64, s = k % 64;
  for (int i = 3; i >= 0; i--) {
    if (i < (int)q) break;
    uint64_t v = a.w[i - q] << s;
    if (s != 0 && i - (int)q - 1 >= 0) v |= a.w[i - q - 1] >> (64 - s);
    r.w[i] = v;
  }
  return r;
}
static W256 w_shr(const W256& a, unsigned k) {  // a / 2^k
  W256 r = w_zero();
  if (k >= 256) return r;
  unsigned q = k / 64, s = k % 64;
  for (unsigned i = 0; i + q < 4; i++) {
    uint64_t v = a.w[i + q] >> s;
    if (s != 0 && i + q + 1 < 4) v |= a.w[i + q + 1] << (64 - s);
    r.w[i] = v;
  }
  return r;
}
static unsigned w_bits(const W256& a) {
  for (int i = 3; i >= 0; i--)
    if (a.w[i] != 0) return 64 * i + (64 - __builtin_clzll(a.w[i]));
  return 0;
}
static bool w_eq_impl(const W256& a, const ArithUint256& b) {
  for (int i = 0; i < 32; i++)
    if ((uint8_t)(a.w[i / 8] >> (8 * (i % 8))) != b.data()[i]) return false;
  return true;
}
static std::string w_num(const W256& a) {
  uint8_t le[32];
  for (int i = 0; i < 32; i++) le[i] = (uint8_t)(a.w[i / 8] >> (8 * (i % 8)));
  return vh::hexnum_le(le, 32);
}
static W256 w_of_hex(const std::string& s) {
  std::string p = std::string(64 - s.size(), '0') + s;
  auto be = vh::unhex(p);
  W256 r = w_zero();
  for (int i = 0; i < 32; i++) r.w[i / 8] |= (uint64_t)be[31 - i] << (8 * (i % 8));
  return r;
}
// fromBits_spec: c = s*2^24 + sg*2^23 + m
static void port_frombits(uint32_t c, W256& t, bool& neg, bool& ovf) {
  unsigned s = c >> 24, sg = (c >> 23) & 1;
  uint32_t m = c & 0x7fffffu;
  uint32_t w = s <= 3 ? (m >> (8 * (3 - s))) : m;
  W256 mm = W256{{m, 0, 0, 0}};
  t = s <= 3 ? W256{{w, 0, 0, 0}} : w_shl(mm, 8 * (s - 3));
  neg = (w != 0) && sg == 1;
  // 2^256 <= m * 2^(8(s-3))  <=>  bitlength(m) + 8(s-3) > 256   (m > 0)
  ovf = (w != 0) && s > 3 && (w_bits(mm) + 8 * (s - 3) > 256);
}
// toBits of CompactDefs.v on the value
static uint32_t port_tobits(const W256& v, bool negative) {
  unsigned nSize = (w_bits(v) + 7) / 8;
  uint32_t nCompact;
  if (nSize <= 3) {
    nCompact = (uint32_t)((uint64_t)(uint32_t)v.w[0] << (8 * (3 - nSize)));
  } else {
    nCompact = (uint32_t)w_shr(v, 8 * (nSize - 3)).w[0];
  }
  if (nCompact & 0x00800000u) {
    nCompact >>= 8;
    nSize++;
  }
  nCompact |= nSize << 24;
  if (negative && (nCompact & 0x007fffffu)) nCompact |= 0x00800000u;
  return nCompact;
}

static std::string str_of(const std::string& hexarg) {
  auto v = vh::unhex(hexarg);
  return std::string(v.begin(), v.end());
}
static std::string hexs(const std::string& s) {
  return s.empty() ? std::string("-") : vh::hex((const uint8_t*)s.data(), s.size());
}
static bool has_space(const std::string& s) {
  for (char c : s) if (IsSpace(c)) return true;
  return false;
}

static std::string handle(const std::string& id, const std::string& op, const std::vector<std::string>& a) {
  if (op == "frombits" || op == "frombits_b") {
    bool neg = false, ovf = false;
    auto t = ArithUint256::fromBits((uint32_t)vh::parse_hex64(a[0]), &neg, &ovf);
    return num(t) + " " + (neg ? "1" : "0") + " " + (ovf ? "1" : "0");
  }
  if (op == "tobits" || op == "tobits_b") {
    return vh::hexnum(u256_of_hex(a[0]).toBits(a[1] == "1"));
  }
  if (op == "add") return num(u256_of_hex(a[0]) + u256_of_hex(a[1]));
  if (op == "sub") return num(u256_of_hex(a[0]) - u256_of_hex(a[1]));
  if (op == "mul") return num(u256_of_hex(a[0]) * u256_of_hex(a[1]));
  if (op == "div") {
    ArithUint256 x = u256_of_hex(a[0]), y = u256_of_hex(a[1]);
    ArithUint256 q;
    try {
      q = x / y;
    } catch (const uint_error&) {
      return "THROW";
    }
    // direct oracle: x = q*y + r with r < y
    ArithUint256 r = x - q * y;
    if (!(r < y) || !(q * y + r == x) || (q * y > x)) vh::oracle_fail(id, "div: x != q*y + r with r < y");
    return num(q);
  }
  if (op == "mul32") return num(u256_of_hex(a[0]) * (uint32_t)vh::parse_hex64(a[1]));
  if (op == "shl" || op == "shl_g") {
    ArithUint256 x = u256_of_hex(a[0]);
    x <<= (unsigned int)vh::parse_hex64(a[1]);
    return num(x);
  }
  if (op == "shr" || op == "shr_g") {
    ArithUint256 x = u256_of_hex(a[0]);
    x >>= (unsigned int)vh::parse_hex64(a[1]);
    return num(x);
  }
  if (op == "not") return num(~u256_of_hex(a[0]));
  if (op == "neg") return num(-u256_of_hex(a[0]));
  if (op == "inc") { ArithUint256 x = u256_of_hex(a[0]); ++x; return num(x); }
  if (op == "dec") { ArithUint256 x = u256_of_hex(a[0]); --x; return num(x); }
  if (op == "cmp") return vh::hexnum_s(u256_of_hex(a[0]).compareTo(u256_of_hex(a[1])));
  if (op == "bits" || op == "bits_g") return vh::hexnum(u256_of_hex(a[0]).bits());
  if (op == "low64") return vh::hexnum(u256_of_hex(a[0]).getLow64());
  if (op == "ofu64") return num(ArithUint256((uint64_t)vh::parse_hex64(a[0])));
  if (op == "pfrombits") {
    W256 t;
    bool neg, ovf;
    port_frombits((uint32_t)vh::parse_hex64(a[0]), t, neg, ovf);
    return w_num(t) + " " + (neg ? "1" : "0") + " " + (ovf ? "1" : "0");
  }
  if (op == "ptobits") return vh::hexnum(port_tobits(w_of_hex(a[0]), a[1] == "1"));
  if (op == "sweep") {
    // every compact value in [lo, hi): library vs the C port of the proved spec
    uint64_t lo = vh::parse_hex64(a[0]), hi = vh::parse_hex64(a[1]);
    uint64_t n = 0;
    for (uint64_t cc = lo; cc < hi; cc++) {
      uint32_t c = (uint32_t)cc;
      bool neg = false, ovf = false, pneg, povf;
      ArithUint256 t = ArithUint256::fromBits(c, &neg, &ovf);
      W256 pt;
      port_frombits(c, pt, pneg, povf);
      if (neg != pneg || ovf != povf || !w_eq_impl(pt, t)) return "SWEEP-MISMATCH " + vh::hexnum(c) + " fromBits";
      uint32_t e0 = t.toBits(false), e1 = t.toBits(true);
      if (e0 != port_tobits(pt, false) || e1 != port_tobits(pt, true))
        return "SWEEP-MISMATCH " + vh::hexnum(c) + " toBits(fromBits(c))";
      // canonical positive values re-encode to themselves (theorem C18_compact_roundtrip)
      uint32_t s = c >> 24, m = c & 0xffffffu;
      if (s >= 3 && s <= 33 && m >= 0x8000 && m < 0x800000 && (m < 0x10000 || s <= 32) && e0 != c)
        return "SWEEP-MISMATCH " + vh::hexnum(c) + " canonical round trip";
      n++;
    }
    return "SWEEP-OK " + vh::hexnum(n);
  }
  // ---- text codecs ----
  if (op == "hexstr") {
    auto b = vh::unhex(a[0]);
    std::string t = HexStr(b);
    if (ParseHex(t) != b) vh::oracle_fail(id, "ParseHex(HexStr(b)) != b");
    if (!b.empty() && !IsHex(t)) vh::oracle_fail(id, "IsHex(HexStr(b)) is false");
    return hexs(t);
  }
  if (op == "parsehex") return vh::hex(ParseHex(str_of(a[0])));
  if (op == "ishex") return IsHex(str_of(a[0])) ? "1" : "0";
  if (op == "b58enc") {
    auto b = vh::unhex(a[0]);
    std::string t = EncodeBase58(b);
    std::vector<uint8_t> back;
    ValidationState st;
    if (!DecodeBase58(t, back, st) || back != b) vh::oracle_fail(id, "DecodeBase58(EncodeBase58(b)) != b");
    return "OK " + hexs(t);
  }
  if (op == "b58dec") {
    std::string t = str_of(a[0]);
    std::vector<uint8_t> out;
    ValidationState st;
    if (!DecodeBase58(t, out, st)) return "INVALID";
    if (!has_space(t) && EncodeBase58(out) != t) vh::oracle_fail(id, "accepted base58 text does not re-encode to itself");
    return "OK " + vh::hex(out);
  }
  if (op == "b59enc") {
    auto b = vh::unhex(a[0]);
    std::string t = EncodeBase59(b);
    std::vector<uint8_t> back;
    ValidationState st;
    if (!DecodeBase59(t, back, st) || back != b) vh::oracle_fail(id, "DecodeBase59(EncodeBase59(b)) != b");
    return "OK " + hexs(t);
  }
  if (op == "b59dec") {
    std::string t = str_of(a[0]);
    std::vector<uint8_t> out;
    ValidationState st;
    if (!DecodeBase59(t, out, st)) return "INVALID";
    if (EncodeBase59(out) != t) vh::oracle_fail(id, "accepted base59 text does not re-encode to itself");
    return "OK " + vh::hex(out);
  }
  if (op == "sha") {
    auto b = vh::unhex(a[0]);
    return vh::hex(sha256(b).asVector());
  }
  if (op == "addrpk") {
    auto k = vh::unhex(a[0]);
    Address ad = Address::fromPublicKey(k);
    bool derived = ad.isDerivedFromPublicKey(k);
    Address back;
    ValidationState st;
    std::string backs;
    if (back.fromString(ad.toString(), st)) {
      backs = "OK " + vh::hexnum((uint64_t)back.getType()) + " " + hexs(back.toString());
      if (!(back == ad) || back.getType() != ad.getType()) vh::oracle_fail(id, "fromString(toString(a)) != a");
    } else {
      backs = "INVALID";
      vh::oracle_fail(id, "fromString(toString(fromPublicKey(k))) rejected");
    }
    if (!derived) vh::oracle_fail(id, "isDerivedFromPublicKey(fromPublicKey(k), k) is false");
    return "OK " + vh::hexnum((uint64_t)ad.getType()) + " " + hexs(ad.toString()) + " derived=" + (derived ? "1" : "0") +
           " back=" + backs;
  }
  if (op == "addrstr") {
    std::string t = str_of(a[0]);
    Address ad;
    ValidationState st;
    if (!ad.fromString(t, st)) return "INVALID";
    if (ad.toString() != t) vh::oracle_fail(id, "toString(fromString(s)) != s");
    {
      // an accepted standard text consists of base58 characters only; an accepted multisig text is base59 and its
      // first 29 characters are base58
      std::vector<uint8_t> tmp;
      ValidationState s2, s3;
      if (ad.getType() == AddressType::STANDARD) {
        if (has_space(t) || !DecodeBase58(t, tmp, s2)) vh::oracle_fail(id, "accepted STANDARD address text is not base58");
      } else {
        std::string head = t.substr(0, t.size() - 1);
        if (has_space(t) || !DecodeBase59(t, tmp, s2) || !DecodeBase58(head, tmp, s3))
          vh::oracle_fail(id, "accepted MULTISIG address text is not base59 / its first 29 characters are not base58");
      }
    }
    return "OK " + vh::hexnum((uint64_t)ad.getType()) + " " + hexs(ad.toString());
  }
  return "UNKNOWN-OP";
}

int main() { return vh::main_loop(handle); }
