// C18 harness: ArithUint256 operations, compact codec, text codecs, address.
// Each op prints the canonical observation of the real code; for ops that have a
// direct oracle (round trips, a/b*b+r, ...) the oracle is evaluated on the
// implementation and failures are printed as "!<id> <text>".
#include <veriblock/pop/arith_uint256.hpp>
#include <veriblock/pop/base58.hpp>
#include <veriblock/pop/base59.hpp>
#include <veriblock/pop/entities/address.hpp>
#include <veriblock/pop/hashutil.hpp>
#include <veriblock/pop/strutil.hpp>
#include <veriblock/pop/validation_state.hpp>

#include "common.hpp"
using namespace altintegration;

static ArithUint256 u256_of_hex(const std::string& s) {
  // s: canonical hex number, at most 64 digits
  std::string p = std::string(64 - s.size(), '0') + s;
  auto be = vh::unhex(p);
  std::vector<uint8_t> le(be.rbegin(), be.rend());
  return ArithUint256(le);
}
static std::string num(const ArithUint256& a) { return vh::hexnum_le(a.data(), a.size()); }

static std::string str_of(const std::string& hexarg) {
  auto v = vh::unhex(hexarg);
  return std::string(v.begin(), v.end());
}
static std::string hexs(const std::string& s) {
  return s.empty() ? std::string("-") : vh::hex((const uint8_t*)s.data(), s.size());
}
static bool has_space(const std::string& s) {
  for (char c : s) if (IsSpace(c)) return true;
  return false;
}

static std::string handle(const std::string& id, const std::string& op, const std::vector<std::string>& a) {
  if (op == "frombits" || op == "frombits_b") {
    bool neg = false, ovf = false;
    auto t = ArithUint256::fromBits((uint32_t)vh::parse_hex64(a[0]), &neg, &ovf);
    return num(t) + " " + (neg ? "1" : "0") + " " + (ovf ? "1" : "0");
  }
  if (op == "tobits" || op == "tobits_b") {
    return vh::hexnum(u256_of_hex(a[0]).toBits(a[1] == "1"));
  }
  if (op == "add") return num(u256_of_hex(a[0]) + u256_of_hex(a[1]));
  if (op == "sub") return num(u256_of_hex(a[0]) - u256_of_hex(a[1]));
  if (op == "mul") return num(u256_of_hex(a[0]) * u256_of_hex(a[1]));
  if (op == "div") {
    ArithUint256 x = u256_of_hex(a[0]), y = u256_of_hex(a[1]);
    ArithUint256 q;
    try {
      q = x / y;
    } catch (const uint_error&) {
      return "THROW";
    }
    // direct oracle: x = q*y + r with r < y
    ArithUint256 r = x - q * y;
    if (!(r < y) || !(q * y + r == x) || (q * y > x)) vh::oracle_fail(id, "div: x != q*y + r with r < y");
    return num(q);
  }
  if (op == "mul32") return num(u256_of_hex(a[0]) * (uint32_t)vh::parse_hex64(a[1]));
  if (op == "shl") {
    ArithUint256 x = u256_of_hex(a[0]);
    x <<= (unsigned int)vh::parse_hex64(a[1]);
    return num(x);
  }
  if (op == "shr") {
    ArithUint256 x = u256_of_hex(a[0]);
    x >>= (unsigned int)vh::parse_hex64(a[1]);
    return num(x);
  }
  if (op == "not") return num(~u256_of_hex(a[0]));
  if (op == "neg") return num(-u256_of_hex(a[0]));
  if (op == "inc") { ArithUint256 x = u256_of_hex(a[0]); ++x; return num(x); }
  if (op == "dec") { ArithUint256 x = u256_of_hex(a[0]); --x; return num(x); }
  if (op == "cmp") return vh::hexnum_s(u256_of_hex(a[0]).compareTo(u256_of_hex(a[1])));
  if (op == "bits") return vh::hexnum(u256_of_hex(a[0]).bits());
  if (op == "low64") return vh::hexnum(u256_of_hex(a[0]).getLow64());
  if (op == "ofu64") return num(ArithUint256((uint64_t)vh::parse_hex64(a[0])));
  // ---- text codecs ----
  if (op == "hexstr") {
    auto b = vh::unhex(a[0]);
    std::string t = HexStr(b);
    if (ParseHex(t) != b) vh::oracle_fail(id, "ParseHex(HexStr(b)) != b");
    if (!b.empty() && !IsHex(t)) vh::oracle_fail(id, "IsHex(HexStr(b)) is false");
    return hexs(t);
  }
  if (op == "parsehex") return vh::hex(ParseHex(str_of(a[0])));
  if (op == "ishex") return IsHex(str_of(a[0])) ? "1" : "0";
  if (op == "b58enc") {
    auto b = vh::unhex(a[0]);
    std::string t = EncodeBase58(b);
    std::vector<uint8_t> back;
    ValidationState st;
    if (!DecodeBase58(t, back, st) || back != b) vh::oracle_fail(id, "DecodeBase58(EncodeBase58(b)) != b");
    return "OK " + hexs(t);
  }
  if (op == "b58dec") {
    std::string t = str_of(a[0]);
    std::vector<uint8_t> out;
    ValidationState st;
    if (!DecodeBase58(t, out, st)) return "INVALID";
    if (!has_space(t) && EncodeBase58(out) != t) vh::oracle_fail(id, "accepted base58 text does not re-encode to itself");
    return "OK " + vh::hex(out);
  }
  if (op == "b59enc") {
    auto b = vh::unhex(a[0]);
    std::string t = EncodeBase59(b);
    std::vector<uint8_t> back;
    ValidationState st;
    if (!DecodeBase59(t, back, st) || back != b) vh::oracle_fail(id, "DecodeBase59(EncodeBase59(b)) != b");
    return "OK " + hexs(t);
  }
  if (op == "b59dec") {
    std::string t = str_of(a[0]);
    std::vector<uint8_t> out;
    ValidationState st;
    if (!DecodeBase59(t, out, st)) return "INVALID";
    if (EncodeBase59(out) != t) vh::oracle_fail(id, "accepted base59 text does not re-encode to itself");
    return "OK " + vh::hex(out);
  }
  if (op == "sha") {
    auto b = vh::unhex(a[0]);
    return vh::hex(sha256(b).asVector());
  }
  if (op == "addrpk") {
    auto k = vh::unhex(a[0]);
    Address ad = Address::fromPublicKey(k);
    bool derived = ad.isDerivedFromPublicKey(k);
    Address back;
    ValidationState st;
    std::string backs;
    if (back.fromString(ad.toString(), st)) {
      backs = "OK " + vh::hexnum((uint64_t)back.getType()) + " " + hexs(back.toString());
      if (!(back == ad) || back.getType() != ad.getType()) vh::oracle_fail(id, "fromString(toString(a)) != a");
    } else {
      backs = "INVALID";
      vh::oracle_fail(id, "fromString(toString(fromPublicKey(k))) rejected");
    }
    if (!derived) vh::oracle_fail(id, "isDerivedFromPublicKey(fromPublicKey(k), k) is false");
    return "OK " + vh::hexnum((uint64_t)ad.getType()) + " " + hexs(ad.toString()) + " derived=" + (derived ? "1" : "0") +
           " back=" + backs;
  }
  if (op == "addrstr") {
    std::string t = str_of(a[0]);
    Address ad;
    ValidationState st;
    if (!ad.fromString(t, st)) return "INVALID";
    if (ad.toString() != t) vh::oracle_fail(id, "toString(fromString(s)) != s");
    return "OK " + vh::hexnum((uint64_t)ad.getType()) + " " + hexs(ad.toString());
  }
  return "UNKNOWN-OP";
}

int main() { return vh::main_loop(handle); }
