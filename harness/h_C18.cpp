// C18 harness: ArithUint256 compact codec (more ops are added by the C18 plugin owner)
#include <veriblock/pop/arith_uint256.hpp>

#include "common.hpp"
using namespace altintegration;

static ArithUint256 u256_of_hex(const std::string& s) {
  // s: canonical hex number, at most 64 digits
  std::string p = std::string(64 - s.size(), '0') + s;
  auto be = vh::unhex(p);
  std::vector<uint8_t> le(be.rbegin(), be.rend());
  return ArithUint256(le);
}
static std::string num(const ArithUint256& a) { return vh::hexnum_le(a.data(), a.size()); }

int main() {
  return vh::main_loop([](const std::string& id, const std::string& op, const std::vector<std::string>& a) -> std::string {
    if (op == "frombits") {
      bool neg = false, ovf = false;
      auto t = ArithUint256::fromBits((uint32_t)vh::parse_hex64(a[0]), &neg, &ovf);
      return num(t) + " " + (neg ? "1" : "0") + " " + (ovf ? "1" : "0");
    }
    if (op == "tobits") {
      return vh::hexnum(u256_of_hex(a[0]).toBits(a[1] == "1"));
    }
    return "UNKNOWN-OP";
  });
}
