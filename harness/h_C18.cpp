// C18 harness: ArithUint256 operations, compact codec, text codecs, address.
// Each op prints the canonical observation of the real code; for ops that have a
// direct oracle (round trips, a/b*b+r, ...) the oracle is evaluated on the
// implementation and failures are printed as "!<id> <text>".
#include <veriblock/pop/arith_uint256.hpp>

#include "common.hpp"
using namespace altintegration;

static ArithUint256 u256_of_hex(const std::string& s) {
  // s: canonical hex number, at most 64 digits
  std::string p = std::string(64 - s.size(), '0') + s;
  auto be = vh::unhex(p);
  std::vector<uint8_t> le(be.rbegin(), be.rend());
  return ArithUint256(le);
}
static std::string num(const ArithUint256& a) { return vh::hexnum_le(a.data(), a.size()); }

static std::string handle(const std::string& id, const std::string& op, const std::vector<std::string>& a) {
  if (op == "frombits" || op == "frombits_b") {
    bool neg = false, ovf = false;
    auto t = ArithUint256::fromBits((uint32_t)vh::parse_hex64(a[0]), &neg, &ovf);
    return num(t) + " " + (neg ? "1" : "0") + " " + (ovf ? "1" : "0");
  }
  if (op == "tobits" || op == "tobits_b") {
    return vh::hexnum(u256_of_hex(a[0]).toBits(a[1] == "1"));
  }
  if (op == "add") return num(u256_of_hex(a[0]) + u256_of_hex(a[1]));
  if (op == "sub") return num(u256_of_hex(a[0]) - u256_of_hex(a[1]));
  if (op == "mul") return num(u256_of_hex(a[0]) * u256_of_hex(a[1]));
  if (op == "div") {
    ArithUint256 x = u256_of_hex(a[0]), y = u256_of_hex(a[1]);
    ArithUint256 q;
    try {
      q = x / y;
    } catch (const uint_error&) {
      return "THROW";
    }
    // direct oracle: x = q*y + r with r < y
    ArithUint256 r = x - q * y;
    if (!(r < y) || !(q * y + r == x) || (q * y > x)) vh::oracle_fail(id, "div: x != q*y + r with r < y");
    return num(q);
  }
  if (op == "mul32") return num(u256_of_hex(a[0]) * (uint32_t)vh::parse_hex64(a[1]));
  if (op == "shl") {
    ArithUint256 x = u256_of_hex(a[0]);
    x <<= (unsigned int)vh::parse_hex64(a[1]);
    return num(x);
  }
  if (op == "shr") {
    ArithUint256 x = u256_of_hex(a[0]);
    x >>= (unsigned int)vh::parse_hex64(a[1]);
    return num(x);
  }
  if (op == "not") return num(~u256_of_hex(a[0]));
  if (op == "neg") return num(-u256_of_hex(a[0]));
  if (op == "inc") { ArithUint256 x = u256_of_hex(a[0]); ++x; return num(x); }
  if (op == "dec") { ArithUint256 x = u256_of_hex(a[0]); --x; return num(x); }
  if (op == "cmp") return vh::hexnum_s(u256_of_hex(a[0]).compareTo(u256_of_hex(a[1])));
  if (op == "bits") return vh::hexnum(u256_of_hex(a[0]).bits());
  if (op == "low64") return vh::hexnum(u256_of_hex(a[0]).getLow64());
  if (op == "ofu64") return num(ArithUint256((uint64_t)vh::parse_hex64(a[0])));
  return "UNKNOWN-OP";
}

int main() { return vh::main_loop(handle); }
