// C05 harness: stateless validation of the rebuilt library.
//  (a) embedding ops on byte strings: containsSplit / checkBitcoinTransactionForPoPData
//  (b) whole-payload ops on MockMiner-built ATV/VTB/VbkBlock/PopData and their mutations
#include <veriblock/pop/stateless_validation.hpp>
#include <veriblock/pop/entities/vbkpoptx.hpp>
#include <veriblock/pop/entities/address.hpp>
#include <veriblock/pop/serde.hpp>

#include <algorithm>
#include "common.hpp"
using namespace altintegration;
typedef std::vector<uint8_t> bytes;

// ---------------------------------------------------------------------------
// independent embedding checker, written from the property text / wire format:
// "genuinely embeds the 80 bytes contiguously or as a well-formed split"
// ---------------------------------------------------------------------------
static bool oracle_contiguous(const bytes& data, const bytes& tx) {
  return std::search(tx.begin(), tx.end(), data.begin(), data.end()) != tx.end();
}
// chunk table at magic offset p: descriptor byte, then a big-endian bit field
static bool oracle_split_at(const bytes& data, const bytes& tx, size_t p) {
  if (p + 5 >= tx.size()) return false;
  if (tx[p] != 0x92 || tx[p + 1] != 0x7a || tx[p + 2] != 0x59) return false;
  unsigned d = tx[p + 3];
  unsigned n = d >> 4, o = 4 + 4 * ((d >> 2) & 1) + 8 * ((d >> 3) & 1), s = 4 + (d & 1) + 2 * ((d >> 1) & 1);
  if (n == 0) return data.empty();
  size_t bitlen = n * o + (n - 1) * s, nbytes = bitlen / 8 + 1, waste = nbytes * 8 - bitlen;
  if (p + 4 + nbytes > tx.size()) return false;
  const uint8_t* tb = tx.data() + p + 4;
  auto field = [&](size_t from, size_t len) -> uint64_t {
    uint64_t v = 0;
    for (size_t j = 0; j < len; j++) {
      size_t k = from + j;
      if ((tb[nbytes - 1 - k / 8] >> (k % 8)) & 1) v |= (uint64_t)1 << j;
    }
    return v;
  };
  bytes got;
  size_t pos = 0;
  for (size_t c = n; c-- > 0;) {
    size_t base = waste + c * (o + s);
    uint64_t off = field(base, o);
    uint64_t len;
    if (c == 0) {
      if (got.size() > data.size()) return false;
      len = data.size() - got.size();
    } else {
      len = field(base - s, s);
    }
    if (off > tx.size() - pos) return false;
    pos += off;
    if (len > tx.size() - pos) return false;
    got.insert(got.end(), tx.begin() + pos, tx.begin() + pos + len);
    pos += len;
  }
  return got == data;
}
static bool oracle_split(const bytes& data, const bytes& tx) {
  for (size_t p = 0; p < tx.size(); p++)
    if (oracle_split_at(data, tx, p)) return true;
  return false;
}

static std::string split_reason(const ValidationState& st) {
  std::string p = st.GetPath();
  if (p.find("bad-descriptor-bytes") != std::string::npos) return "1";
  if (p.find("bad-section-offset") != std::string::npos) return "2";
  if (p.find("bad-section-length") != std::string::npos) return "3";
  if (p.find("bad-magic") != std::string::npos) return "4";
  if (p.find("bad-descriptor") != std::string::npos) return "5";
  return "0";
}

static const char* PUBKEY =
    "3056301006072a8648ce3d020106052b8104000a034200042fca63a20cb5208c2a55ff5099"
    "ca1966b7f52e687600784d1de062c1dd9c8a5fe55b2ba5d906c703d37cbd02ecd9c97a8061"
    "10fa05d9014a102a0513dd354ec5";
static Address the_address() { bytes pk = vh::unhex(PUBKEY); return Address::fromPublicKey(pk); }

#include "h_stateless_payload.inc"

int main() {
  return vh::main_loop([](const std::string& id, const std::string& op, const std::vector<std::string>& a) -> std::string {
    if (op == "addr") {  // the 15 address bytes that end every publication of this harness
      WriteStream w;
      the_address().getPopBytes(w);
      return vh::hex(w.data());
    }
    if (op == "split") {  // containsSplit(data, tx) alone
      bytes data = vh::unhex(a[0]), tx = vh::unhex(a[1]);
      ValidationState st;
      bool r = containsSplit(data, tx, st);
      if (r && !oracle_split(data, tx)) vh::oracle_fail(id, "containsSplit accepted but no well-formed split of the data exists");
      return r ? "1" : "0 " + split_reason(st);
    }
    if (op == "embed" || op == "embedh") {  // checkBitcoinTransactionForPoPData on a real VbkPopTx
      bytes data = vh::unhex(a[0]), tx = vh::unhex(a[1]);
      if (data.size() != 80) return "BAD-DATA-SIZE";
      VbkPopTx ptx;
      bytes hdr(data.begin(), data.begin() + 65);
      ValidationState ds;
      ReadStream rs(hdr);
      if (!DeserializeFromRaw(rs, ptx.publishedBlock, ds)) return "BAD-HEADER";
      ptx.address = the_address();
      WriteStream w;
      ptx.publishedBlock.toRaw(w);
      ptx.address.getPopBytes(w);
      if (w.data() != data) return "BAD-SUFFIX";
      ptx.bitcoinTransaction = BtcTx(tx);
      ValidationState st;
      bool r = checkBitcoinTransactionForPoPData(ptx, st);
      bool orc = oracle_contiguous(data, tx) || oracle_split(data, tx);
      if (r && !orc) vh::oracle_fail(id, "accepted a Bitcoin transaction that embeds the publication data neither contiguously nor as a well-formed split");
      if (!r && op == "embedh") vh::oracle_fail(id, "honest embedding rejected: " + st.GetPath());
      return r ? "1" : "0 " + split_reason(st);
    }
    std::string out;
    if (payload_op(id, op, a, out)) return out;
    return "UNKNOWN-OP";
  });
}
