// C04 / C19 harness: the World interpreter (world.hpp) plus
//   * `on X audit`      INDEPENDENT re-check (written from the property text, not through the
//                       command code) of every payload body on X's active chain + validity flags
//   * `on X verdict a`  setState(a) with the first failing block and the error kind of the failing
//                       command mapped to a small enum (correspondence with the Coq rule model)
//   * `on X xatv ...`   ATV whose PublicationData carries tampered context info (wrong height / keystone)
//   * `on X valid a`    validity of a and its known descendants
//   * `on X stateless a`, `on X endorsed t a e`, mempool delivery (`mpsub`, `mpgen`)
//   * `decl ...`        declarations for the model driver only (answered "ok")
// Every answer line is flushed; SIGABRT prints "!<id> ABORT" so that the culprit history is known.
#include <signal.h>
#include <unistd.h>

#include <cstring>
#include <algorithm>
#include <map>
#include <memory>
#include <set>
#include <sstream>
#include <string>
#include <vector>
#include <unordered_map>
#include <unordered_set>
#include <functional>
#include <future>
#include <mutex>
#include <thread>
#include <iostream>
// the MockMiner is test equipment: its private block miner / merkle-tree store are needed to build a VBK
// block carrying a pop tx WITHOUT the miner's own stateful validation (for deliberately invalid VTBs)
#define private public
#include <veriblock/pop/mock_miner.hpp>
#undef private
#include <veriblock/pop/pop_stateless_validator.hpp>
#include <veriblock/pop/crypto/secp256k1.hpp>
#include <veriblock/pop/strutil.hpp>
#include <veriblock/pop/stateless_validation.hpp>

#include "world.hpp"

using namespace altintegration;
using vw::Instance;
using vw::Registry;

static char g_cur[64] = "?";
static void on_abort(int) {
  char buf[128];
  int n = snprintf(buf, sizeof buf, "\n!%s ABORT\n", g_cur);
  if (n > 0) { ssize_t w = write(1, buf, (size_t)n); (void)w; }
  _exit(3);
}

// ------------------------------------------------------------------ error kinds
static std::string lastComponent(const std::string& path) {
  auto p = path.rfind('+');
  return p == std::string::npos ? path : path.substr(p + 1);
}
static bool has(const std::string& s, const char* x) { return s.find(x) != std::string::npos; }
// ValidationState path of a failed setState -> small enum shared with the model
static std::string kindOf(const std::string& path) {
  if (has(path, "ALT-marked-invalid")) return "marked";
  if (has(path, "-duplicate")) return "dup";
  if (has(path, "bad-sf-contextinfo")) return "sfdecode";
  if (has(path, "bad-sf-endorsed")) return "sfendorsed";
  if (has(path, "bad-sf-context")) return "sfcontext";
  if (has(path, "ALT-no-containing")) return "nocontaining";
  if (has(path, "ALT-no-endorsed-block")) return "noendorsed";
  if (has(path, "ALT-block-differs")) return "differs";
  if (has(path, "ALT-expired")) return "expired";
  if (has(path, "ALT-block-of-proof-not-found")) return "nobop";
  if (has(path, "VBK-bad-containing")) return "vtbcontaining";
  if (has(path, "VBK-invalid-poptxs-amount")) return "vtbmany";
  // "too early" vs "not found" depends on which VBK fork is active at that moment; the validity does not
  if (has(path, "block-referenced-too-early")) return "btcctx";
  if (has(path, "VBK-btc-context-does-not-connect")) return "btcctx";
  if (has(path, "VBK-no-endorsed-block")) return "vnoendorsed";
  if (has(path, "VBK-block-differs")) return "vdiffers";
  if (has(path, "VBK-expired")) return "vexpired";
  if (has(path, "VBK-block-of-proof-not-found")) return "vnobop";
  if (has(path, "BTC-bad-prev-block")) return "btcprev";
  if (has(path, "VBK-bad-prev-block")) return "vbkprev";
  if (has(path, "VBK-bad-chain") || has(path, "VBK-invalid-containing-block")) return "vtbchain";
  if (has(path, "btc-time-too-old") || has(path, "btc-time-too-new")) return "btctime";
  if (has(path, "vbk-time-too-old") || has(path, "vbk-time-too-new")) return "vbktime";
  if (has(path, "contextually-check-block")) return "ctxhdr";
  return "other:" + path;
}

// previous keystone height, written from the protocol description (not from keystone_util.cpp):
// the n-th previous keystone of a block at height h is the keystone at or below h-2, minus n periods, floor 0
static long prevKeystoneHeight(long h, long ki, long n) {
  if (h <= 1 + n * ki) return 0;
  long k = ((h - 2) / ki) * ki - n * ki;
  return k < 0 ? 0 : k;
}


// ------------------------------------------------------------------ C19: publication data produced by the LIBRARY
// An altchain whose header really commits to the top-level merkle root, as the contract of
// AltChainParams::checkBlockHeader says: header bytes = raw AltBlock ++ 32-byte root, where the altchain computed
// root = CalculateTopLevelMerkleRoot(txRoot, PopData of that block, previous block index, params).
struct RootAlt : public AltChainParams {
  AltBlock getBootstrapBlock() const noexcept override {
    AltBlock b;
    b.hash = std::vector<uint8_t>(32, 1);
    b.previousBlock = std::vector<uint8_t>(32, 0);
    b.height = 0;
    b.timestamp = 0;
    return b;
  }
  int64_t getIdentifier() const noexcept override { return 77; }
  static bool split(const std::vector<uint8_t>& bytes, AltBlock& b, std::vector<uint8_t>& root) {
    if (bytes.size() < 32) return false;
    std::vector<uint8_t> head(bytes.begin(), bytes.end() - 32);
    root.assign(bytes.end() - 32, bytes.end());
    ValidationState st;
    return DeserializeFromRaw<AltBlock>(head, b, st);
  }
  std::vector<uint8_t> getHash(const std::vector<uint8_t>& bytes) const noexcept override {
    AltBlock b;
    std::vector<uint8_t> r;
    if (!split(bytes, b, r)) return std::vector<uint8_t>(32, 0xEE);
    return b.getHash();
  }
  bool checkBlockHeader(const std::vector<uint8_t>& bytes, const std::vector<uint8_t>& root,
                        ValidationState& state) const noexcept override {
    AltBlock b;
    std::vector<uint8_t> committed;
    if (!split(bytes, b, committed)) return state.Invalid("bad-header");
    if (committed != root) return state.Invalid("root-mismatch");
    return true;
  }
};

// pubdata <nblocks> <which endorsed> <nvtb in endorsed> <natv in endorsed> <via mempool 0|1>
// every block's body comes from the mempool / MockMiner; every publication data from GeneratePublicationData.
static std::string pubdataScenario(const std::vector<std::string>& a) {
  if (a.size() < 5) return "SKIP args";
  int nblocks = std::stoi(a[0]), nvtb = std::stoi(a[2]), natv = std::stoi(a[3]);
  bool viaMempool = a[4] == "1";
  RootAlt alt;
  alt.mEndorsementSettlementInterval = 10;
  alt.mPreserveBlocksBehindFinal = 10;
  alt.mPopPayoutsParams->mPopPayoutDelay = 10;
  VbkChainParamsRegTest vbk;
  BtcChainParamsRegTest btc;
  setMockTime(1700000000);
  adaptors::InmemStorageImpl storage;
  adaptors::PayloadsStorageImpl payloads(storage);
  adaptors::BlockReaderImpl blocks(storage, alt);
  AltBlockTree tree(alt, vbk, btc, payloads, blocks);
  tree.btc().bootstrapWithGenesis(GetRegTestBtcBlock());
  tree.vbk().bootstrapWithGenesis(GetRegTestVbkBlock());
  tree.bootstrap();
  MemPool mempool(tree);
  MockMiner miner(alt, vbk, btc);
  std::vector<uint8_t> txRoot(32, 0x42);
  std::map<std::vector<uint8_t>, std::vector<uint8_t>> headerOf;  // hash -> header bytes (raw ++ committed root)
  std::map<std::vector<uint8_t>, PopData> bodyOf;
  std::vector<AltBlock> chain{alt.getBootstrapBlock()};
  uint32_t now = 1700000000;
  int payoutN = 0;

  // honest endorsement of chain[idx], produced by the library
  auto endorse = [&](size_t idx, PopData& into, std::string& err) -> bool {
    const AltBlock& e = chain[idx];
    PublicationData pub;
    std::vector<uint8_t> payout{0xAB, (uint8_t)(++payoutN)};
    if (!GeneratePublicationData(headerOf.at(e.getHash()), txRoot, bodyOf.at(e.getHash()), payout, tree, pub)) {
      err = "GeneratePublicationData does not know the endorsed block";
      return false;
    }
    auto tx = miner.createVbkTxEndorsingAltBlock(pub);
    setMockTime(++now);
    auto* blk = miner.mineVbkBlocks(1, std::vector<VbkTx>{tx});
    PopData pd = miner.createPopDataEndorsingAltBlock(blk->getHeader(), tx, tree.vbk().getBestChain().tip()->getHash());
    ValidationState st;
    if (!checkATV(pd.atvs.at(0), st, alt, vbk)) {
      err = "stateless check of the honest ATV fails: " + st.GetPath();
      return false;
    }
    for (auto& b : pd.context) into.context.push_back(b);
    for (auto& v : pd.vtbs) into.vtbs.push_back(v);
    into.atvs.push_back(pd.atvs.at(0));
    return true;
  };
  auto dedup = [](PopData& pd) {
    std::set<std::vector<uint8_t>> seen;
    std::vector<VbkBlock> c;
    for (auto& b : pd.context) if (seen.insert(b.getId().asVector()).second) c.push_back(b);
    pd.context = c;
    std::set<std::vector<uint8_t>> sv;
    std::vector<VTB> v;
    for (auto& w : pd.vtbs) if (sv.insert(w.getId().asVector()).second) v.push_back(w);
    pd.vtbs = v;
  };

  std::string err;
  for (int k = 1; k <= nblocks; k++) {
    const AltBlock& prev = chain.back();
    AltBlock nb;
    nb.hash = std::vector<uint8_t>(32, (uint8_t)(0x10 + k));
    nb.previousBlock = prev.getHash();
    nb.height = prev.height + 1;
    nb.timestamp = prev.timestamp + 1;
    PopData pd;
    // endorsements of earlier blocks (never the bootstrap block), VTBs
    int wantAtv = (k >= 2) ? (k == std::stoi(a[1]) ? natv : 1) : 0;
    int wantVtb = (k == std::stoi(a[1])) ? nvtb : 0;
    for (int j = 0; j < wantVtb; j++) {
      setMockTime(++now);
      auto* tipv = miner.vbk().getBestChain().tip();
      auto vtb = miner.endorseVbkBlock(tipv->getHeader(), tree.btc().getBestChain().tip()->getHash());
      pd.vtbs.push_back(vtb);
      // connecting VBK context for the containing block
      auto* w = miner.vbk().getBlockIndex(vtb.containingBlock.getHash());
      std::vector<VbkBlock> ctx;
      for (; w != nullptr && tree.vbk().getBlockIndex(w->getHash()) == nullptr; w = w->pprev) ctx.push_back(w->getHeader());
      std::reverse(ctx.begin(), ctx.end());
      for (auto& b : ctx) pd.context.push_back(b);
    }
    for (int j = 0; j < wantAtv; j++) {
      size_t E = (size_t)std::stoi(a[1]);
      size_t idx = (j == 0 && (size_t)k > E && E >= 1) ? E : 1 + (size_t)((k + j) % (int)(chain.size() - 1));
      if (!endorse(idx, pd, err)) return "fail block " + std::to_string(k) + ": " + err;
    }
    dedup(pd);
    std::sort(pd.context.begin(), pd.context.end(), [](const VbkBlock& x, const VbkBlock& y) { return x.getHeight() < y.getHeight(); });
    ValidationState st;
    if (viaMempool) {
      for (auto& b : pd.context) { auto r = mempool.submit<VbkBlock>(b, true, st); (void)r; }
      for (auto& v : pd.vtbs) { auto r = mempool.submit<VTB>(v, true, st); (void)r; }
      for (auto& t : pd.atvs) {
        auto r = mempool.submit<ATV>(t, true, st);
        if (!r.isAccepted()) return "fail block " + std::to_string(k) + ": mempool refuses an honest ATV: " + st.GetPath();
      }
      PopData gen = mempool.generatePopData();
      if (gen.atvs.size() != pd.atvs.size()) return "fail block " + std::to_string(k) + ": generatePopData returned " + std::to_string(gen.atvs.size()) + " of " + std::to_string(pd.atvs.size()) + " honest ATVs";
      pd = gen;
    }
    // the altchain commits to the top-level root of this body in the header
    auto root = CalculateTopLevelMerkleRoot(txRoot, pd, tree.getBlockIndex(prev.getHash()), alt);
    auto hdr = nb.toRaw();
    hdr.insert(hdr.end(), root.begin(), root.end());
    headerOf[nb.getHash()] = hdr;
    bodyOf[nb.getHash()] = pd;
    if (!tree.acceptBlockHeader(nb, st)) return "fail block " + std::to_string(k) + ": header " + st.GetPath();
    {
      PopValidator val(vbk, btc, alt, 1);
      if (!checkPopData(val, pd, st)) return "fail block " + std::to_string(k) + ": stateless " + st.GetPath();
    }
    auto* idx = tree.getBlockIndex(nb.getHash());
    tree.acceptBlock(*idx, pd, st);
    if (!tree.setState(*idx, st)) return "fail block " + std::to_string(k) + ": setState " + st.GetPath();
    for (auto& t : pd.atvs) {
      bool found = false;
      for (auto& kv : idx->getContainingEndorsements()) if (kv.second->id == AltEndorsement::getId(t)) found = true;
      if (!found) return "fail block " + std::to_string(k) + ": endorsement not recorded";
    }
    mempool.removeAll(pd);
    chain.push_back(nb);
  }
  headerOf[alt.getBootstrapBlock().getHash()] = {};
  return "ok";
}

struct RulesSession : public vw::Session {
  std::string cur;  // id of the current case (for oracle lines)

  void fail(const std::string& what) { vh::oracle_fail(cur, what); }

  // ---------------------------------------------------------------- helpers on the registry
  std::map<std::string, std::string> xpar;  // parent of VBK headers that the miner's own tree refused
  std::string vparent(const std::string& v) {
    auto x = xpar.find(v);
    if (x != xpar.end()) return x->second;
    if (!reg->vbk.count(v)) return "";
    auto* i = reg->vidx(v);
    if (i == nullptr || i->pprev == nullptr) return "";
    return reg->nameOf(i->pprev->getHash());
  }
  // VBK minimum timestamp for a child of `par`, written from the rule: the lower median of the timestamps of the
  // (up to) 20 blocks ending at the parent
  long vbkMinTimestamp(const std::string& par) {
    std::vector<long> ts;
    std::string c = par;
    while (!c.empty() && reg->vbk.count(c) && ts.size() < 20) {
      ts.push_back((long)reg->vbk.at(c).getTimestamp());
      c = vparent(c);
    }
    if (ts.empty()) return 0;
    std::sort(ts.begin(), ts.end());
    return ts[(ts.size() - 1) / 2];
  }
  std::string bparentOf(const std::string& b) {
    if (!reg->btc.count(b)) return "";
    const auto& h = reg->btc.at(b);
    if (h.getPreviousBlock() == uint256()) return "";
    auto n = reg->nameOf(h.getPreviousBlock());
    return reg->btc.count(n) ? n : "";
  }
  // BTC median time past (of up to 11 blocks ending at the parent), written from the rule
  std::string btcTimeWrong(const std::string& b) {
    std::string par = bparentOf(b);
    if (par.empty()) return "";
    std::vector<long> ts;
    std::string c = par;
    while (!c.empty() && ts.size() < 11) { ts.push_back((long)reg->btc.at(c).getTimestamp()); c = bparentOf(c); }
    std::sort(ts.begin(), ts.end());
    long m = ts[ts.size() / 2], t = (long)reg->btc.at(b).getTimestamp();
    if (t < m) return "timestamp " + std::to_string(t) + " below the median time past " + std::to_string(m);
    long lim = (long)reg->now + (long)params->btc.maxFutureBlockTime();
    if (t > lim) return "timestamp " + std::to_string(t) + " too far in the future";
    return "";
  }
  // "" if the header v may be added on top of its parent (time rules), else what is wrong
  std::string vbkTimeWrong(const std::string& v) {
    std::string par = vparent(v);
    if (par.empty() || !reg->vbk.count(v)) return "";
    long t = (long)reg->vbk.at(v).getTimestamp();
    long m = vbkMinTimestamp(par);
    if (t < m) return "timestamp " + std::to_string(t) + " below the minimum " + std::to_string(m);
    long lim = (long)reg->now + (long)params->vbk.maxFutureBlockTime();
    if (t > lim) return "timestamp " + std::to_string(t) + " too far in the future (limit now " + std::to_string(lim) + ")";
    return "";
  }
  int vheight(const std::string& v) { return reg->vbk.at(v).getHeight(); }
  bool vIsAncestor(const std::string& anc, const std::string& of) {
    std::string c = of;
    int guard = 0;
    while (!c.empty() && guard++ < 100000) {
      if (c == anc) return true;
      if (!reg->vbk.count(c)) return false;
      c = vparent(c);
    }
    return false;
  }

  // ---------------------------------------------------------------- audit
  // Independent re-check of the active chain of I. Works on ids + the registry's bodies; simulates only
  // "what the chain has made known so far" (VBK blocks, BTC blocks with the VBK heights referencing them).
  std::string audit(Instance& I) {
    auto& tree = I.tree;
    std::string tipId = I.tip();
    if (!reg->alt.count(tipId)) return "SKIP tip-unregistered";
    auto chain = reg->ancestry(tipId);
    const long settle = (long)params->alt.getEndorsementSettlementInterval();
    const long vsettle = (long)params->vbk.getEndorsementSettlementInterval();
    const long ki = (long)params->alt.getKeystoneInterval();
    std::set<std::string> vknown{"v0"};
    // BTC block -> VBK blocks (ids) whose applied VTBs reference it ("" = bootstrap)
    std::map<std::string, std::set<std::string>> brefs;
    brefs["b0"].insert("");
    std::set<std::string> seen;
    std::map<std::string, int> vtbCount;
    int nfail = 0, natv = 0, nvtb = 0, nctx = 0;
    auto bad = [&](const std::string& blk, const std::string& what) {
      nfail++;
      fail("audit " + blk + ": " + what);
    };
    std::map<std::string, int> posInChain;
    for (size_t k = 0; k < chain.size(); k++) posInChain[chain[k]] = (int)k;

    for (size_t k = 1; k < chain.size(); k++) {
      const std::string& id = chain[k];
      const auto& info = reg->alt.at(id);
      auto* idx = I.idx(id);
      // (blocks below a finalized root may be deallocated; those that exist must be valid and active)
      if (idx != nullptr) {
        if (!idx->isValid()) bad(id, "block on the active chain is marked invalid");
        if (!idx->hasFlags(BLOCK_ACTIVE)) bad(id, "block on the active chain is not ACTIVE");
      }
      if (!info.hasPd) continue;
      const PopData& pd = info.pd;
      auto dup = [&](const std::string& pid, const std::string& what) {
        if (!seen.insert(pid).second) bad(id, "payload id occurs twice in the chain: " + what);
      };
      // --- VBK context: every header connects to a block the chain already knows
      for (const auto& vb : pd.context) {
        nctx++;
        std::string v = reg->nameOf(vb.getHash());
        dup("V" + vh::hex(vb.getId().asVector()), v);
        if (!reg->vbk.count(v)) { bad(id, "unregistered VBK context block " + v); continue; }
        if (!vknown.count(v)) {
          if (!vknown.count(vparent(v))) bad(id, "VBK context block " + v + " does not connect (parent " + vparent(v) + " unknown)");
          auto tw = vbkTimeWrong(v);
          if (!tw.empty()) bad(id, "VBK context block " + v + " violates the contextual header rules: " + tw);
          vknown.insert(v);
        }
        if (tree.vbk().getBlockIndex(vb.getHash()) == nullptr) bad(id, "VBK context block " + v + " not in the VBK tree");
      }
      // --- VTBs
      for (const auto& w : pd.vtbs) {
        nvtb++;
        auto wid = w.getId();
        std::string wn = "W" + vh::hex(wid.asVector());
        dup(wn, "vtb");
        std::string cont = reg->nameOf(w.containingBlock.getHash());
        std::string endo = reg->nameOf(w.transaction.publishedBlock.getHash());
        if (!vknown.count(cont)) { bad(id, "VTB containing VBK block " + cont + " unknown to the chain"); continue; }
        auto* ci = tree.vbk().getBlockIndex(w.containingBlock.getHash());
        if (ci == nullptr) { bad(id, "VTB containing VBK block " + cont + " not in the VBK tree"); continue; }
        if (!ci->isValid()) bad(id, "VTB containing VBK block " + cont + " is invalid");
        if (!vknown.count(endo)) bad(id, "VTB endorses VBK block " + endo + " unknown to the chain");
        else if (!vIsAncestor(endo, cont)) bad(id, "VTB endorses " + endo + " which is not an ancestor of the containing " + cont);
        else if (vheight(cont) - vheight(endo) > vsettle) bad(id, "VTB expired: " + endo + " in " + cont);
        if (++vtbCount[cont] > (int)MAX_VBKPOPTX_PER_VBK_BLOCK) bad(id, "too many VTBs in VBK block " + cont);
        const auto& tx = w.transaction;
        const BtcBlock& first = tx.blockOfProofContext.empty() ? tx.blockOfProof : tx.blockOfProofContext.front();
        std::string conn = first.getPreviousBlock() != uint256() ? reg->nameOf(first.getPreviousBlock())
                                                                   : reg->nameOf(first.getHash());
        // "already referenced at or below that VBK height": by a VTB of this chain contained in the containing
        // VBK block itself or in one of its VBK ancestors (or bootstrap)
        auto it = brefs.find(conn);
        if (it == brefs.end()) bad(id, "VTB BTC context does not connect: " + conn + " not referenced by the chain");
        else {
          bool okref = false;
          for (auto& c2 : it->second)
            if (c2.empty() || vIsAncestor(c2, cont)) okref = true;
          if (!okref) bad(id, "VTB BTC context connects to " + conn + " which is not referenced at or below VBK block " + cont);
        }
        // the BTC context must itself be a chain
        std::string prev = conn;
        std::vector<BtcBlock> bl = tx.blockOfProofContext;
        bl.push_back(tx.blockOfProof);
        for (auto& b : bl) {
          std::string bn = reg->nameOf(b.getHash());
          std::string bp = b.getPreviousBlock() != uint256() ? reg->nameOf(b.getPreviousBlock()) : bn;
          if (!brefs.count(bp) && bp != bn) bad(id, "BTC block " + bn + " of a VTB does not connect (" + bp + ")");
          auto bw = btcTimeWrong(bn);
          if (!bw.empty()) bad(id, "BTC block " + bn + " of a VTB violates the contextual header rules: " + bw);
          brefs[bn].insert(cont);
        }
      }
      // --- ATVs
      for (const auto& a : pd.atvs) {
        natv++;
        dup("T" + vh::hex(a.getId().asVector()), "atv");
        const auto& pub = a.transaction.publicationData;
        AltBlock eb;
        ValidationState st;
        if (!DeserializeFromRaw<AltBlock>(pub.header, eb, st)) { bad(id, "ATV endorsed header does not parse"); continue; }
        std::string e = reg->nameOf(eb.getHash());
        if (!reg->alt.count(e)) { bad(id, "ATV endorses an unregistered block"); continue; }
        if (I.idx(e) == nullptr && !(posInChain.count(e))) bad(id, "ATV endorses block " + e + " unknown to the instance");
        auto pit = posInChain.find(e);
        if (pit == posInChain.end() || pit->second >= (int)k) { bad(id, "ATV endorses " + e + " which is not an ancestor of " + id); continue; }
        long eh = reg->alt.at(e).block.height, chh = info.block.height;
        if (chh - eh > settle) bad(id, "ATV expired: endorsed " + e + " h=" + std::to_string(eh) + " containing h=" + std::to_string(chh));
        // context info
        AuthenticatedContextInfoContainer c;
        ValidationState st2;
        if (!DeserializeFromVbkEncoding(pub.contextInfo, c, st2)) { bad(id, "ATV context info does not parse"); continue; }
        if ((long)c.ctx.height != eh) bad(id, "ATV context height " + std::to_string(c.ctx.height) + " != endorsed height " + std::to_string(eh));
        long k1 = prevKeystoneHeight(eh, ki, 0), k2 = prevKeystoneHeight(eh, ki, 1);
        // ancestors of e at those heights (registry ancestry: index = height since bootstrap height is 0)
        auto ea = reg->ancestry(e);
        std::vector<uint8_t> h1 = reg->alt.at(ea.at((size_t)k1)).block.getHash();
        std::vector<uint8_t> h2 = reg->alt.at(ea.at((size_t)k2)).block.getHash();
        if (c.ctx.keystones.firstPreviousKeystone != h1) bad(id, "ATV first previous keystone is not " + ea.at((size_t)k1));
        if (c.ctx.keystones.secondPreviousKeystone != h2) bad(id, "ATV second previous keystone is not " + ea.at((size_t)k2));
        // block of proof
        std::string bop = reg->nameOf(a.blockOfProof.getHash());
        if (!vknown.count(bop)) {
          if (!reg->vbk.count(bop) || !vknown.count(vparent(bop))) bad(id, "ATV block of proof " + bop + " does not connect to the chain's VBK blocks");
          auto tw = vbkTimeWrong(bop);
          if (!tw.empty()) bad(id, "ATV block of proof " + bop + " violates the contextual header rules: " + tw);
          vknown.insert(bop);
        }
        if (tree.vbk().getBlockIndex(a.blockOfProof.getHash()) == nullptr) bad(id, "ATV block of proof " + bop + " not in the VBK tree");
      }
    }
    // --- validity flags: a failed block has only invalid descendants; the active chain is valid
    int nflag = 0;
    for (auto* b : tree.getBlocks()) {
      bool anc_failed = false;
      for (auto* w = b->pprev; w != nullptr; w = w->pprev)
        if (w->hasFlags(BLOCK_FAILED_POP) || w->hasFlags(BLOCK_FAILED_BLOCK) || w->hasFlags(BLOCK_FAILED_CHILD)) { anc_failed = true; break; }
      if (anc_failed) {
        nflag++;
        if (b->isValid()) bad(reg->nameOf(b->getHash()), "descendant of a failed block is reported valid");
        if (tree.getBestChain().contains(b)) bad(reg->nameOf(b->getHash()), "descendant of a failed block is on the active chain");
      }
    }
    return std::string(nfail ? "FAIL" : "ok") + " blocks=" + std::to_string(chain.size() - 1) + " atv=" + std::to_string(natv) +
           " vtb=" + std::to_string(nvtb) + " ctx=" + std::to_string(nctx) + " underfailed=" + std::to_string(nflag);
  }

  // ---------------------------------------------------------------- verdict
  std::map<std::string, std::string> failKind;  // "<inst>/<block>" -> kind observed when it failed
  std::string verdict(Instance& I, const std::string& iname, const std::string& id) {
    auto* i = I.idx(id);
    if (i == nullptr) return "SKIP unknown";
    if (!i->isConnected()) return "SKIP unconnected";
    auto* fork = findFork(I.tree.getBestChain(), (const BlockIndex<AltBlock>*)i);
    if (fork == nullptr) return "SKIP nofork";
    for (auto* w = I.tree.getBestChain().tip(); w != fork; w = w->pprev)
      if (w->finalized) return "SKIP final-unapply";
    ValidationState st;
    bool ok = I.tree.setState(*i, st);
    if (ok) return "true";
    // first block of root..id carrying FAILED_POP / FAILED_BLOCK
    std::vector<BlockIndex<AltBlock>*> path;
    for (auto* w = i; w != nullptr; w = w->pprev) path.push_back(w);
    std::string fb = "?";
    for (auto it = path.rbegin(); it != path.rend(); ++it)
      if ((*it)->hasFlags(BLOCK_FAILED_POP) || (*it)->hasFlags(BLOCK_FAILED_BLOCK)) { fb = reg->nameOf((*it)->getHash()); break; }
    std::string kind = kindOf(st.GetPath());
    std::string key = iname + "/" + fb;
    if (kind != "marked") failKind[key] = kind;
    else if (failKind.count(key)) kind = failKind[key];
    return "false " + fb + " " + kind;
  }

  // ---------------------------------------------------------------- custom (tampered) ATV
  // xatv <t> <endorsed> <vparent> <payouthex> <dh> <k1> <k2>    k: "=" keep | "none" | alt id
  std::string xatv(const std::vector<std::string>& t) {
    if (t.size() < 8) return "SKIP args";
    auto& R = *reg;
    if (!R.alt.count(t[2]) || !R.vbk.count(t[3]) || R.atv.count(t[1]) || t[2] == "a0") return "SKIP";
    const auto& e = R.alt.at(t[2]);
    PublicationData pub;
    pub.payoutInfo = vh::unhex(t[4]);
    pub.identifier = R.p.alt.getIdentifier();
    pub.header = e.block.toRaw();
    const auto* prev = R.ref.getBlockIndex(e.block.previousBlock);
    auto c = AuthenticatedContextInfoContainer::createFromPrevious(uint256(), prev, R.p.alt);
    c.ctx.height += (int32_t)std::stol(t[5]);
    auto ks = [&](const std::string& s, std::vector<uint8_t>& dst) {
      if (s == "=") return;
      if (s == "none") { dst.clear(); return; }
      if (R.alt.count(s)) dst = R.alt.at(s).block.getHash();
    };
    ks(t[6], c.ctx.keystones.firstPreviousKeystone);
    ks(t[7], c.ctx.keystones.secondPreviousKeystone);
    pub.contextInfo = SerializeToVbkEncoding(c);
    auto tx = R.miner.createVbkTxEndorsingAltBlock(pub);
    R.tick();
    auto* blk = R.miner.mineVbkBlocks(1, *R.vidx(t[3]), std::vector<VbkTx>{tx});
    if (blk == nullptr) return "SKIP miner-rejected";
    auto a = R.miner.createATV(blk->getHeader(), tx);
    R.atv[t[1]] = a;
    R.atvEndorsed[t[1]] = t[2];
    auto aid = a.getId();
    R.names["id:" + vh::hex(aid.data(), aid.size())] = t[1];
    return R.regVbk(blk->getHeader());
  }

  // endorse <t> <a> <vparent> <lastKnownVbk> <payouthex>: an endorsement whose connecting context is produced by the
  // LIBRARY's miner (MockMiner::createPopDataEndorsingAltBlock -> getBlocks) from a "last known VBK block" -> bop id
  std::map<std::string, PopData> libpd;
  std::string endorse(const std::vector<std::string>& t) {
    if (t.size() < 6) return "SKIP args";
    auto& R = *reg;
    if (!R.alt.count(t[2]) || !R.vbk.count(t[3]) || !R.vbk.count(t[4]) || R.atv.count(t[1]) || t[2] == "a0") return "SKIP";
    if (R.vidx(t[3]) == nullptr || R.vidx(t[4]) == nullptr) return "SKIP not-in-miner-tree";
    const auto& e = R.alt.at(t[2]);
    PublicationData pub;
    pub.payoutInfo = vh::unhex(t[5]);
    pub.identifier = R.p.alt.getIdentifier();
    pub.header = e.block.toRaw();
    const auto* prev = R.ref.getBlockIndex(e.block.previousBlock);
    pub.contextInfo = SerializeToVbkEncoding(AuthenticatedContextInfoContainer::createFromPrevious(uint256(), prev, R.p.alt));
    auto tx = R.miner.createVbkTxEndorsingAltBlock(pub);
    R.tick();
    auto* blk = R.miner.mineVbkBlocks(1, *R.vidx(t[3]), std::vector<VbkTx>{tx});
    if (blk == nullptr) return "SKIP miner-rejected";
    PopData pd = R.miner.createPopDataEndorsingAltBlock(blk->getHeader(), tx, R.vbk.at(t[4]).getHash());
    libpd[t[1]] = pd;
    R.atv[t[1]] = pd.atvs.at(0);
    R.atvEndorsed[t[1]] = t[2];
    auto aid = pd.atvs.at(0).getId();
    R.names["id:" + vh::hex(aid.data(), aid.size())] = t[1];
    for (auto& w : pd.vtbs) {  // VTBs the miner attached to the context blocks keep their registry names
      auto wid = w.getId();
      (void)wid;
    }
    return R.regVbk(blk->getHeader());
  }
  // mpsubpd <t>: everything of that library-made PopData is submitted to the mempool -> status of the ATV
  std::string mpsubpd(Instance& I, const std::string& t) {
    auto it = libpd.find(t);
    if (it == libpd.end()) return "SKIP";
    ValidationState st;
    for (auto& b : it->second.context) { ValidationState s1; auto r = I.mempool->submit<VbkBlock>(b, true, s1); (void)r; }
    for (auto& v : it->second.vtbs) { ValidationState s1; auto r = I.mempool->submit<VTB>(v, true, s1); (void)r; }
    auto r = I.mempool->submit<ATV>(it->second.atvs.at(0), true, st);
    const char* names[] = {"valid", "failed-stateful", "failed-stateless"};
    return std::string(names[(int)r.status]) + " ctx=" + std::to_string(it->second.context.size()) + (st.IsValid() ? "" : (" " + st.GetPath()));
  }

  // vts <vparent> <timestamp>: a VBK header with a CHOSEN timestamp on top of a registry block (nonce re-mined). The
  // miner's own tree gets it when it accepts it; a header it refuses is still registered (body material for a
  // contextually invalid ALT block) -> new id
  std::string vAncestorAt(const std::string& v, int h) {
    std::string c = v;
    while (!c.empty() && reg->vbk.count(c) && reg->vbk.at(c).getHeight() > h) c = vparent(c);
    return (!c.empty() && reg->vbk.count(c) && reg->vbk.at(c).getHeight() == h) ? c : "";
  }
  std::string vts(const std::vector<std::string>& t) {
    if (t.size() < 3) return "SKIP args";
    auto& R = *reg;
    if (!R.vbk.count(t[1])) return "SKIP";
    // the header is assembled by hand from the parent's header (as Miner::getBlockTemplate does), so that it does not
    // depend on what the miner's own tree thinks of the parent
    const VbkBlock& ph = R.vbk.at(t[1]);
    R.tick();
    VbkBlock block;
    block.setVersion(ph.getVersion());
    block.setPreviousBlock(ph.getHash().template trimLE<VBK_PREVIOUS_BLOCK_HASH_SIZE>());
    uint128 mr;
    for (auto& x : mr) x = (uint8_t)(rand() & 0xff);
    block.setMerkleRoot(mr);
    int ph_h = ph.getHeight();
    block.setHeight(ph_h + 1);
    int ki = (int)R.p.vbk.getKeystoneInterval();
    int diff = ph_h % ki;
    if (diff == 0) diff += ki;
    if (diff <= ph_h) {
      auto k = vAncestorAt(t[1], ph_h - diff);
      if (k.empty()) return "SKIP keystone";
      block.setPreviousKeystone(R.vbk.at(k).getHash().template trimLE<VBK_PREVIOUS_KEYSTONE_HASH_SIZE>());
    }
    diff += ki;
    if (diff <= ph_h) {
      auto k = vAncestorAt(t[1], ph_h - diff);
      if (k.empty()) return "SKIP keystone";
      block.setSecondPreviousKeystone(R.vbk.at(k).getHash().template trimLE<VBK_PREVIOUS_KEYSTONE_HASH_SIZE>());
    }
    block.setTimestamp((uint32_t)std::stoul(t[2]));
    block.setDifficulty(ph.getDifficulty());
    block.setNonce(0);
    R.miner.vbk_miner_.createBlock(block);
    if ((uint32_t)block.getTimestamp() != (uint32_t)std::stoul(t[2])) return "SKIP nonce-exhausted";
    ValidationState st;
    std::string id = R.regVbk(block);
    xpar[id] = t[1];
    if (R.miner.vbk_tree_.getBlockIndex(ph.getHash()) != nullptr && R.miner.vbk_tree_.acceptBlockHeader(block, st)) {
      auto* bi = R.miner.vbk_tree_.getBlockIndex(block.getHash());
      bi->addRef(0);
    }
    return id;
  }
  // bts <bparent> <timestamp>: BTC header with a chosen timestamp (must be admissible: it enters the miner's tree)
  std::string bts(const std::vector<std::string>& t) {
    if (t.size() < 3) return "SKIP args";
    auto& R = *reg;
    if (!R.btc.count(t[1])) return "SKIP";
    R.tick();
    BtcBlock bb = R.miner.btc_miner_.createNextBlock(*R.bidx(t[1]));
    bb.setTimestamp((uint32_t)std::stoul(t[2]));
    bb.setNonce(0);
    R.miner.btc_miner_.createBlock(bb);
    ValidationState st;
    if (!R.miner.btc_tree_.acceptBlockHeader(bb, st)) return "SKIP miner-rejected " + st.GetPath();
    R.miner.btc_tree_.getBlockIndex(bb.getHash())->addRef(0);
    return R.regBtc(bb);
  }
  std::string btsof(const std::string& b) {
    if (!reg->btc.count(b)) return "SKIP";
    return std::to_string(reg->btc.at(b).getTimestamp());
  }
  // xvtbts <w> <endorsed v> <vparent> <bparent> <lastKnownBtc> <timestamp>: a VTB whose BTC block of proof carries a
  // chosen timestamp (possibly inadmissible: then the miner's trees do not get it) -> "<vbk id> <btc id>"
  std::string xvtbts(const std::vector<std::string>& t) {
    if (t.size() < 7) return "SKIP args";
    auto& R = *reg;
    if (!R.vbk.count(t[2]) || !R.vbk.count(t[3]) || !R.btc.count(t[4]) || !R.btc.count(t[5]) || R.vtb.count(t[1])) return "SKIP";
    const auto& eb = R.vbk.at(t[2]);
    auto tx = R.miner.createBtcTxEndorsingVbkBlock(eb);
    std::vector<BtcTx> btxs{tx};
    BtcMerkleTree mt(hashAll(btxs));
    auto* pb = R.bidx(t[4]);
    if (pb == nullptr) return "SKIP";
    R.tick();
    BtcBlock bb = R.miner.btc_miner_.createNextBlock(*pb, mt.getMerkleRoot());
    bb.setTimestamp((uint32_t)std::stoul(t[6]));
    bb.setNonce(0);
    R.miner.btc_miner_.createBlock(bb);
    ValidationState st;
    if (R.miner.btc_tree_.acceptBlockHeader(bb, st)) {
      R.miner.btc_tree_.getBlockIndex(bb.getHash())->addRef(0);
      R.miner.btc_merkle_trees_.insert({bb.getHash(), mt});
    }
    static const auto priv = ParseHex(
        "303e020100301006072a8648ce3d020106052b8104000a0427302502010104203abf83fa47"
        "0423d4788a760ef6b7aae1dacf98784b0646057a0adca24e522acb");
    static const auto pub = ParseHex(
        "3056301006072a8648ce3d020106052b8104000a034200042fca63a20cb5208c2a55ff5099"
        "ca1966b7f52e687600784d1de062c1dd9c8a5fe55b2ba5d906c703d37cbd02ecd9c97a8061"
        "10fa05d9014a102a0513dd354ec5");
    VbkPopTx ptx;
    ptx.networkOrType.networkType = R.p.vbk.getTransactionMagicByte();
    ptx.networkOrType.typeId = (uint8_t)TxType::VBK_POP_TX;
    ptx.address = Address::fromPublicKey(pub);
    ptx.publishedBlock = eb;
    ptx.blockOfProof = bb;
    ptx.publicKey = pub;
    ptx.bitcoinTransaction = tx;
    ptx.merklePath = mt.getMerklePath(tx.getHash());
    {
      auto last = R.btc.at(t[5]).getHash();
      std::vector<BtcBlock> ctx;
      for (auto* w = pb; w != nullptr && w->getHash() != last; w = w->pprev) ctx.push_back(w->getHeader());
      std::reverse(ctx.begin(), ctx.end());
      ptx.blockOfProofContext = ctx;
    }
    auto ptxHash = ptx.getHash();
    ptx.signature = secp256k1::sign(ptxHash, secp256k1::privateKeyFromVbk(priv));
    std::vector<VbkPopTx> txs{ptx};
    VbkMerkleTree merkleTree({}, hashAll(txs));
    const auto& merkleRoot = merkleTree.getMerkleRoot().template trim<VBK_MERKLE_ROOT_HASH_SIZE>();
    VbkBlock block = R.miner.vbk_miner_.createNextBlock(*R.vidx(t[3]), merkleRoot);
    if (!R.miner.vbk_tree_.acceptBlockHeader(block, st)) return "SKIP header " + st.GetPath();
    R.miner.vbk_tree_.getBlockIndex(block.getHash())->addRef(0);
    R.miner.vbk_merkle_trees_.insert({block.getHash(), merkleTree});
    auto v = R.miner.createVTB(block, ptx);
    R.vtb[t[1]] = v;
    auto wid = v.getId();
    R.names["id:" + vh::hex(wid.data(), wid.size())] = t[1];
    return R.regVbk(block) + " " + R.regBtc(bb);
  }

  std::string vtsof(const std::string& v) {
    if (!reg->vbk.count(v)) return "SKIP";
    return std::to_string(reg->vbk.at(v).getTimestamp());
  }

  // atvn <vparent> <t:endorsed:payouthex>...: several honest ATVs (different endorsers = different payout infos, equal
  // fees) whose VBK transactions are mined into ONE VBK block -> id of that block
  std::string atvn(const std::vector<std::string>& t) {
    if (t.size() < 3) return "SKIP args";
    auto& R = *reg;
    if (!R.vbk.count(t[1])) return "SKIP";
    std::vector<VbkTx> txs;
    std::vector<std::pair<std::string, std::string>> ids;
    for (size_t k = 2; k < t.size(); k++) {
      auto p1 = t[k].find(':');
      auto p2 = t[k].find(':', p1 + 1);
      if (p1 == std::string::npos || p2 == std::string::npos) return "SKIP args";
      std::string tid = t[k].substr(0, p1), e = t[k].substr(p1 + 1, p2 - p1 - 1), pay = t[k].substr(p2 + 1);
      if (!R.alt.count(e) || e == "a0" || R.atv.count(tid)) return "SKIP";
      const auto& eb = R.alt.at(e);
      PublicationData pub;
      pub.payoutInfo = vh::unhex(pay);
      pub.identifier = R.p.alt.getIdentifier();
      pub.header = eb.block.toRaw();
      const auto* prev = R.ref.getBlockIndex(eb.block.previousBlock);
      pub.contextInfo = SerializeToVbkEncoding(AuthenticatedContextInfoContainer::createFromPrevious(uint256(), prev, R.p.alt));
      txs.push_back(R.miner.createVbkTxEndorsingAltBlock(pub));
      ids.emplace_back(tid, e);
    }
    R.tick();
    auto* blk = R.miner.mineVbkBlocks(1, *R.vidx(t[1]), txs);
    if (blk == nullptr) return "SKIP miner-rejected";
    for (size_t k = 0; k < txs.size(); k++) {
      auto a = R.miner.createATV(blk->getHeader(), txs[k]);
      R.atv[ids[k].first] = a;
      R.atvEndorsed[ids[k].first] = ids[k].second;
      auto aid = a.getId();
      R.names["id:" + vh::hex(aid.data(), aid.size())] = ids[k].first;
    }
    return R.regVbk(blk->getHeader());
  }

  // xvtb <w> <endorsed v> <vparent> <bparent> <lastKnownBtc>: like `vtb`, but the containing VBK block is built
  // without the miner applying the VTB to its own tree (so the VTB may be contextually invalid)
  std::string xvtb(const std::vector<std::string>& t) {
    if (t.size() < 6) return "SKIP args";
    auto& R = *reg;
    if (!R.vbk.count(t[2]) || !R.vbk.count(t[3]) || !R.btc.count(t[4]) || !R.btc.count(t[5]) || R.vtb.count(t[1])) return "SKIP";
    const auto& eb = R.vbk.at(t[2]);
    auto btctx = R.miner.createBtcTxEndorsingVbkBlock(eb);
    R.tick();
    auto* bb = R.miner.mineBtcBlocks(1, *R.bidx(t[4]), {btctx});
    auto ptx = R.miner.createVbkPopTxEndorsingVbkBlock(bb->getHeader(), btctx, eb, R.btc.at(t[5]).getHash());
    std::vector<VbkPopTx> txs{ptx};
    VbkMerkleTree merkleTree({}, hashAll(txs));
    const auto& merkleRoot = merkleTree.getMerkleRoot().template trim<VBK_MERKLE_ROOT_HASH_SIZE>();
    VbkBlock block = R.miner.vbk_miner_.createNextBlock(*R.vidx(t[3]), merkleRoot);
    ValidationState st;
    if (!R.miner.vbk_tree_.acceptBlockHeader(block, st)) return "SKIP header " + st.GetPath();
    auto* bi = R.miner.vbk_tree_.getBlockIndex(block.getHash());
    bi->addRef(0);
    R.miner.vbk_merkle_trees_.insert({block.getHash(), merkleTree});
    auto v = R.miner.createVTB(block, ptx);
    R.vtb[t[1]] = v;
    auto wid = v.getId();
    R.names["id:" + vh::hex(wid.data(), wid.size())] = t[1];
    R.sweep();
    return R.regVbk(block) + " " + R.regBtc(bb->getHeader());
  }

  // vtb2 <w1> <w2> <e1> <e2> <vparent> <bparent> <lastKnownBtc>: two honest VTBs in ONE containing VBK block; the
  // second one's BTC context starts right after the first one's block of proof. -> "<vbk id> <btc id 1> <btc id 2>"
  std::string vtb2(const std::vector<std::string>& t) {
    if (t.size() < 8) return "SKIP args";
    auto& R = *reg;
    if (!R.vbk.count(t[3]) || !R.vbk.count(t[4]) || !R.vbk.count(t[5]) || !R.btc.count(t[6]) || !R.btc.count(t[7]) ||
        R.vtb.count(t[1]) || R.vtb.count(t[2]))
      return "SKIP";
    const auto& e1 = R.vbk.at(t[3]);
    const auto& e2 = R.vbk.at(t[4]);
    auto tx1 = R.miner.createBtcTxEndorsingVbkBlock(e1);
    R.tick();
    auto* bb1 = R.miner.mineBtcBlocks(1, *R.bidx(t[6]), {tx1});
    auto tx2 = R.miner.createBtcTxEndorsingVbkBlock(e2);
    auto* bb2 = R.miner.mineBtcBlocks(1, *bb1, {tx2});
    auto p1 = R.miner.createVbkPopTxEndorsingVbkBlock(bb1->getHeader(), tx1, e1, R.btc.at(t[7]).getHash());
    auto p2 = R.miner.createVbkPopTxEndorsingVbkBlock(bb2->getHeader(), tx2, e2, bb1->getHeader().getHash());
    auto* vb = R.miner.mineVbkBlocks(1, *R.vidx(t[5]), std::vector<VbkPopTx>{p1, p2});
    if (vb == nullptr) return "SKIP miner-refused";
    auto reg1 = [&](const std::string& id, const VTB& v) {
      R.vtb[id] = v;
      auto wid = v.getId();
      R.names["id:" + vh::hex(wid.data(), wid.size())] = id;
    };
    reg1(t[1], R.miner.createVTB(vb->getHeader(), p1));
    reg1(t[2], R.miner.createVTB(vb->getHeader(), p2));
    auto v = R.regVbk(vb->getHeader());
    auto b1 = R.regBtc(bb1->getHeader());
    auto b2 = R.regBtc(bb2->getHeader());
    R.sweep();
    return v + " " + b1 + " " + b2;
  }

  // canonical description of a registered payload (ids), compared with what the generator declared to the model
  std::string atvinfo(const std::string& t) {
    if (!reg->atv.count(t)) return "SKIP";
    const ATV& a = reg->atv.at(t);
    const auto& pub = a.transaction.publicationData;
    AltBlock eb;
    ValidationState st;
    if (!DeserializeFromRaw<AltBlock>(pub.header, eb, st)) return "badheader";
    AuthenticatedContextInfoContainer c;
    if (!DeserializeFromVbkEncoding(pub.contextInfo, c, st)) return reg->nameOf(eb.getHash()) + " " + reg->nameOf(a.blockOfProof.getHash()) + " undecodable";
    auto nm = [&](const std::vector<uint8_t>& h) { return h.empty() ? std::string("-") : reg->nameOf(h); };
    return reg->nameOf(eb.getHash()) + " " + reg->nameOf(a.blockOfProof.getHash()) + " " + vh::hexnum_s(c.ctx.height) + " " +
           nm(c.ctx.keystones.firstPreviousKeystone) + " " + nm(c.ctx.keystones.secondPreviousKeystone);
  }
  std::string vtbinfo(const std::string& w) {
    if (!reg->vtb.count(w)) return "SKIP";
    const VTB& v = reg->vtb.at(w);
    const auto& tx = v.transaction;
    const BtcBlock& first = tx.blockOfProofContext.empty() ? tx.blockOfProof : tx.blockOfProofContext.front();
    std::string conn = first.getPreviousBlock() != uint256() ? reg->nameOf(first.getPreviousBlock()) : reg->nameOf(first.getHash());
    std::string r = reg->nameOf(tx.publishedBlock.getHash()) + " " + reg->nameOf(v.containingBlock.getHash()) + " " + conn + " ";
    for (auto& b : tx.blockOfProofContext) {
      if (b.getPreviousBlock() == uint256()) continue;  // a context that starts at genesis: genesis is known anyway
      r += reg->nameOf(b.getHash()) + ",";
    }
    r += reg->nameOf(tx.blockOfProof.getHash());
    return r;
  }

  // cmpx <a>: comparePopScore(tip, a) + whether the comparator's "no keystone boundary crossed" shortcut applies
  std::string cmpx(Instance& I, const std::string& id) {
    auto* i = I.idx(id);
    auto* t = I.tree.getBestChain().tip();
    std::string nk = "";
    if (i != nullptr && i->isConnected() && i->isValid() && !I.tree.getBestChain().contains(i)) {
      auto* fork = findFork(I.tree.getBestChain(), (const BlockIndex<AltBlock>*)i);
      long ki = (long)params->alt.getKeystoneInterval();
      if (fork != nullptr && i->getAncestor(t->getHeight()) != t) {
        bool ca = fork->getHeight() / ki < t->getHeight() / ki;
        bool cb = fork->getHeight() / ki < i->getHeight() / ki;
        nk = (!ca && !cb) ? " nk" : " k";
      }
    }
    auto r = I.compare(id);
    return r + nk;
  }

  std::string validOf(Instance& I, const std::string& id) {
    auto* i = I.idx(id);
    if (i == nullptr) return "unknown";
    int dv = 0, dn = 0;
    std::vector<BlockIndex<AltBlock>*> st(i->pnext.begin(), i->pnext.end());
    while (!st.empty()) {
      auto* b = st.back();
      st.pop_back();
      dn++;
      if (b->isValid()) dv++;
      for (auto* n : b->pnext) st.push_back(n);
    }
    bool act = I.tree.getBestChain().contains(i);
    return std::string(i->isValid() ? "v" : "i") + (act ? " active" : " off") + " desc=" + std::to_string(dn) + " descvalid=" + std::to_string(dv);
  }

  std::string stateless(const std::string& id) {
    auto it = reg->alt.find(id);
    if (it == reg->alt.end()) return "SKIP";
    const PopData& pd = it->second.pd;
    ValidationState st;
    for (auto& a : pd.atvs)
      if (!checkATV(a, st, params->alt, params->vbk)) return "fail atv " + st.GetPath();
    for (auto& w : pd.vtbs)
      if (!checkVTB(w, st, params->btc, params->vbk)) return "fail vtb " + st.GetPath();
    for (auto& b : pd.context)
      if (!checkBlock(b, st, params->vbk)) return "fail vbk " + st.GetPath();
    PopValidator val(params->vbk, params->btc, params->alt, 1);
    if (!checkPopData(val, pd, st)) return "fail popdata " + st.GetPath();
    return "ok";
  }

  // endorsed <t> <containing>: the endorsement of ATV t is recorded in containing/endorsedBy/blockOfProof lists
  std::string endorsedOp(Instance& I, const std::string& t, const std::string& cont) {
    if (!reg->atv.count(t) || !reg->atvEndorsed.count(t)) return "SKIP";
    const ATV& a = reg->atv.at(t);
    auto* c = I.idx(cont);
    auto* e = I.idx(reg->atvEndorsed.at(t));
    if (c == nullptr || e == nullptr) return "SKIP unknown";
    auto eid = AltEndorsement::getId(a);
    bool inC = false, inE = false, inB = false;
    for (auto& kv : c->getContainingEndorsements()) if (kv.second->id == eid) inC = true;
    for (auto* x : e->getEndorsedBy()) if (x->id == eid && x->containingHash == c->getHash()) inE = true;
    auto* bop = I.tree.vbk().getBlockIndex(a.blockOfProof.getHash());
    if (bop != nullptr)
      for (auto* x : bop->getBlockOfProofEndorsement()) if (x->id == eid && x->containingHash == c->getHash()) inB = true;
    return std::string(inC ? "1" : "0") + (inE ? "1" : "0") + (inB ? "1" : "0");
  }

  // paid <t> <tip>: is the payout info of ATV t rewarded in the payout computed on top of <tip>, and is the ATV's
  // block of proof on the VBK best chain (only those count)?  -> "<1|0> <bopactive|bopfork>"
  std::string paid(Instance& I, const std::string& t, const std::string& tipId) {
    if (!reg->atv.count(t)) return "SKIP";
    auto* i = I.idx(tipId);
    if (i == nullptr || i != I.tree.getBestChain().tip()) return "SKIP nottip";
    const ATV& a = reg->atv.at(t);
    DefaultPopRewardsCalculator calc(I.tree);
    PopPayouts out;
    ValidationState st;
    if (!calc.getPopPayout(i->getHash(), out, st)) return "fail " + st.GetPath();
    bool p = false;
    for (auto& kv : out.payouts)
      if (kv.first == a.transaction.publicationData.payoutInfo && kv.second > 0) p = true;
    auto* bop = I.tree.vbk().getBlockIndex(a.blockOfProof.getHash());
    bool act = bop != nullptr && I.tree.vbk().getBestChain().contains(bop);
    return std::string(p ? "1" : "0") + (act ? " bopactive" : " bopfork");
  }

  // mempool: mpsub atv|vtb|vbk <id>  -> status ; mpgen <a> : body of registry block a := generatePopData()
  std::string mpsub(Instance& I, const std::string& kind, const std::string& id) {
    ValidationState st;
    MemPool::SubmitResult r;
    if (kind == "atv") { if (!reg->atv.count(id)) return "SKIP"; r = I.mempool->submit<ATV>(reg->atv.at(id), true, st); }
    else if (kind == "vtb") { if (!reg->vtb.count(id)) return "SKIP"; r = I.mempool->submit<VTB>(reg->vtb.at(id), true, st); }
    else if (kind == "vbk") { if (!reg->vbk.count(id)) return "SKIP"; r = I.mempool->submit<VbkBlock>(reg->vbk.at(id), true, st); }
    else return "SKIP";
    const char* names[] = {"valid", "failed-stateful", "failed-stateless"};
    return std::string(names[(int)r.status]) + (st.IsValid() ? "" : (" " + st.GetPath()));
  }
  std::string mpgen(Instance& I, const std::string& a) {
    auto it = reg->alt.find(a);
    if (it == reg->alt.end()) return "SKIP";
    PopData pd = I.mempool->generatePopData();
    it->second.pd = pd;
    it->second.hasPd = true;
    std::string r = "ctx=";
    for (auto& b : pd.context) r += reg->nameOf(b.getHash()) + ",";
    r += " vtbs=";
    for (auto& w : pd.vtbs) { auto x = w.getId(); auto n = reg->names.find("id:" + vh::hex(x.data(), x.size())); r += (n == reg->names.end() ? "?" : n->second) + ","; }
    r += " atvs=";
    for (auto& t : pd.atvs) { auto x = t.getId(); auto n = reg->names.find("id:" + vh::hex(x.data(), x.size())); r += (n == reg->names.end() ? "?" : n->second) + ","; }
    return r;
  }


  // frtable: the altchain's fork resolution score table (read from the params object)
  std::string frtable() {
    std::string r;
    for (auto x : params->alt.getForkResolutionLookUpTable()) r += (r.empty() ? "" : ",") + std::to_string(x);
    return r;
  }

  // payscen <hE> <d> <third>: "an accepted honest endorsement counts in payouts". d is given relative to the size n of
  // relativeScoreLookupTable() READ FROM THE PARAMS OBJECT: 0 | 1 | n-2 | n-1 | n. Block a<hE> gets endorsement t1
  // (earliest publication), t2 whose VBK block of proof is exactly d above t1's, optionally t3 (third = mid | one |
  // same | -) in between; all blocks of proof on one VBK line (= best chain), all ATVs in block a<hE+1>. The chain is
  // extended to height hE + payoutDelay - 1, getPopPayout is taken there. Oracle: every endorsement is accepted, and its
  // payout info is paid > 0 iff the table weight at its distance is non-zero (distance >= n: weight 0).
  std::string payscen(Instance& I, const std::vector<std::string>& t) {
    if (t.size() < 4) return "SKIP args";
    auto& R = *reg;
    const auto& table = params->alt.getPayoutParams().relativeScoreLookupTable();
    const int n = (int)table.size();
    if (n < 3) return "SKIP table";
    int hE = std::stoi(t[1]);
    const std::string& sym = t[2];
    int d = sym == "0" ? 0 : sym == "1" ? 1 : sym == "n-2" ? n - 2 : sym == "n-1" ? n - 1 : sym == "n" ? n : -1;
    if (d < 0 || hE < 1) return "SKIP args";
    long delay = params->alt.getPayoutParams().getPopPayoutDelay();
    int total = hE + (int)delay - 1;
    std::string prev = "a0";
    for (int k = 1; k <= total; k++) {
      std::string id = "a" + std::to_string(k);
      if (!R.newAlt(id, prev)) return "SKIP alt";
      R.setPd(id, {}, {}, {});
      prev = id;
    }
    std::string E = "a" + std::to_string(hE), C = "a" + std::to_string(hE + 1);
    std::vector<std::pair<int, std::string>> ends{{0, "t1"}, {d, "t2"}};
    if (t[3] == "mid") ends.push_back({d / 2, "t3"});
    if (t[3] == "one") ends.push_back({std::min(1, d), "t3"});
    if (t[3] == "same") ends.push_back({d, "t3"});
    std::sort(ends.begin(), ends.end());
    std::string vtip = R.nameOf(R.miner.vbk().getBestChain().tip()->getHash());
    std::map<std::string, int> distOf;
    std::map<std::string, std::string> bopOf;
    int last = -1;
    std::string lastBop = vtip;
    size_t k = 0;
    while (k < ends.size()) {
      int g = ends[k].first;
      std::vector<std::string> call{"atvn", ""};
      for (; k < ends.size() && ends[k].first == g; k++) {
        const std::string& tid = ends[k].second;
        call.push_back(tid + ":" + E + ":ee0" + tid.substr(1));
        distOf[tid] = g;
      }
      // filler VBK blocks so that this block of proof lands exactly g above the first one
      int fill = last < 0 ? 0 : g - last - 1;
      for (int f = 0; f < fill; f++) {
        lastBop = R.mineVbk(lastBop);
        if (lastBop.rfind("SKIP", 0) == 0) return "SKIP miner";
      }
      call[1] = lastBop;
      std::string bop = atvn(call);
      if (bop.rfind("SKIP", 0) == 0) return "SKIP atvn " + bop;
      for (size_t j = 2; j < call.size(); j++) bopOf[call[j].substr(0, call[j].find(':'))] = bop;
      lastBop = bop;
      last = g;
    }
    int h1 = R.vbk.at(bopOf["t1"]).getHeight();
    for (auto& kv : distOf)
      if (R.vbk.at(bopOf[kv.first]).getHeight() - h1 != kv.second) return "SKIP distance";
    std::vector<std::string> atvs;
    for (auto& e : ends) atvs.push_back(e.second);
    R.setPd(C, R.vbkPathFrom({"v0"}, lastBop), {}, atvs);
    for (int j = 1; j <= total; j++) {
      std::string id = "a" + std::to_string(j);
      if (I.hdr(id) != "ok") return "fail hdr " + id;
      auto b = I.body(id);
      if (b != "connected") return "fail honest body " + id + ": " + b;
    }
    auto st = I.setState(prev);
    if (st != "true") return "fail honest endorsements refused: " + st;
    for (auto& tid : atvs) {
      auto e = endorsedOp(I, tid, C);
      if (e != "111") return "fail endorsement " + tid + " not recorded: " + e;
      auto* bi = I.tree.vbk().getBlockIndex(R.vbk.at(bopOf[tid]).getHash());
      if (bi == nullptr || !I.tree.vbk().getBestChain().contains(bi)) return "SKIP bop-not-on-best-chain";
    }
    DefaultPopRewardsCalculator calc(I.tree);
    PopPayouts out;
    ValidationState vs;
    if (!calc.getPopPayout(I.idx(prev)->getHash(), out, vs)) return "fail getPopPayout " + vs.GetPath();
    bool bad = false;
    std::string r = " n=" + std::to_string(n) + " d=" + std::to_string(d);
    for (auto& tid : atvs) {
      int dist = distOf[tid];
      double w = dist < n ? table[(size_t)dist] : 0.0;
      int64_t paidAmount = 0;
      const auto& pi = R.atv.at(tid).transaction.publicationData.payoutInfo;
      for (auto& kv : out.payouts)
        if (kv.first == pi) paidAmount = (int64_t)kv.second;
      r += " " + tid + "@" + std::to_string(dist) + "=" + std::to_string(paidAmount);
      if (w > 0.0 && paidAmount <= 0) {
        fail("payout: honest endorsement " + tid + " accepted on the active chain, block of proof on the VBK best chain " +
             std::to_string(dist) + " blocks after the earliest publication (table weight " + std::to_string(w) + "), is paid nothing");
        bad = true;
      }
      if (w == 0.0 && paidAmount > 0) {
        fail("payout: endorsement " + tid + " at distance " + std::to_string(dist) + " beyond the table is paid");
        bad = true;
      }
    }
    return std::string(bad ? "fail" : "ok") + r;
  }

  std::string curInst;
  std::string extra(Instance& I, const std::vector<std::string>& t) override {
    const std::string& c = t[0];
    if (c == "audit") return audit(I);
    if (c == "verdict" && t.size() > 1) return verdict(I, curInst, t[1]);
    if (c == "xatv") return xatv(t);
    if (c == "xvtb") return xvtb(t);
    if (c == "atvn") return atvn(t);
    if (c == "vts") return vts(t);
    if (c == "endorse") return endorse(t);
    if (c == "mpsubpd" && t.size() > 1) return mpsubpd(I, t[1]);
    if (c == "bts") return bts(t);
    if (c == "xvtbts") return xvtbts(t);
    if (c == "btsof" && t.size() > 1) return btsof(t[1]);
    if (c == "vtsof" && t.size() > 1) return vtsof(t[1]);
    if (c == "vtw" && t.size() > 1) { auto r = vbkTimeWrong(t[1]); return r.empty() ? "fine" : r; }
    if (c == "btw" && t.size() > 1) { auto r = btcTimeWrong(t[1]); return r.empty() ? "fine" : r; }
    if (c == "vtb2") return vtb2(t);
    if (c == "atvinfo" && t.size() > 1) return atvinfo(t[1]);
    if (c == "vtbinfo" && t.size() > 1) return vtbinfo(t[1]);
    if (c == "valid" && t.size() > 1) return validOf(I, t[1]);
    if (c == "cmpx" && t.size() > 1) return cmpx(I, t[1]);
    if (c == "stateless" && t.size() > 1) return stateless(t[1]);
    if (c == "endorsed" && t.size() > 2) return endorsedOp(I, t[1], t[2]);
    if (c == "paid" && t.size() > 2) return paid(I, t[1], t[2]);
    if (c == "mpsub" && t.size() > 2) return mpsub(I, t[1], t[2]);
    if (c == "mpgen" && t.size() > 1) return mpgen(I, t[1]);
    if (c == "payscen") return payscen(I, t);
    if (c == "frtable") return frtable();
    return "";
  }
};

int main() {
  altintegration::SetLogger<altintegration::Logger>(altintegration::LogLevel::off);
  altintegration::setMockTime(1700000000);
  signal(SIGABRT, on_abort);
  std::ios::sync_with_stdio(false);
  RulesSession s;
  std::string line;
  while (std::getline(std::cin, line)) {
    auto t = vh::split(line);
    if (t.size() < 2) continue;
    strncpy(g_cur, t[0].c_str(), sizeof g_cur - 1);
    g_cur[sizeof g_cur - 1] = 0;
    s.cur = t[0];
    std::vector<std::string> a(t.begin() + 1, t.end());
    std::string r;
    try {
      if (a[0] == "decl") r = "ok";
      else if (a[0] == "pubdata") r = pubdataScenario(std::vector<std::string>(a.begin() + 1, a.end()));
      else {
        if (a[0] == "begin") { s.failKind.clear(); s.xpar.clear(); s.libpd.clear(); }
        if (a[0] == "on" && a.size() > 1) s.curInst = a[1];
        // `set` = `verdict` (same call, the failing block and kind are remembered)
        if (a[0] == "on" && a.size() > 3 && a[2] == "set") a[2] = "verdict";
        r = s.exec(a);
      }
    } catch (const std::exception& e) {
      r = std::string("THROW ") + typeid(e).name() + " " + e.what();
      vh::oracle_fail(t[0], "exception escaped: " + r);
    } catch (...) {
      r = "THROW unknown";
      vh::oracle_fail(t[0], "exception escaped");
    }
    std::cout << t[0] << " " << r << std::endl;
  }
  return 0;
}
