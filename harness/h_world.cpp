// generic World interpreter (smoke tests and shared use): every line "<id> <op...>"
#include "world.hpp"
int main() {
  altintegration::SetLogger<altintegration::Logger>(altintegration::LogLevel::off);
  altintegration::setMockTime(1700000000);
  vw::Session s;
  return vh::main_loop([&](const std::string& id, const std::string& op, const std::vector<std::string>& a) {
    std::vector<std::string> t{op};
    t.insert(t.end(), a.begin(), a.end());
    return s.exec(t);
  });
}
