"""Shared machinery of the /verif checks (see DESIGN.md section 4).

Every property plugin (props/Cnn.py) gets a Ctx and uses it to
  * rebuild the library from the repo's *current working tree* (hooks on),
  * regenerate coq/Gen/*.v from the repo's current sources,
  * build the Coq development (full .vo, never -vos) and collect, per theorem
    of Properties_Cnn.v, the `Print Assumptions` output,
  * build the extracted OCaml model driver and the C++ harness,
  * run model and implementation on the same inputs and diff canonical lines,
  * report violations / known findings, and write evidence/Cnn.json.
"""
import fcntl
import hashlib
import json
import os
import re
import shutil
import subprocess
import sys
import time

VERIF = os.path.dirname(os.path.dirname(os.path.abspath(__file__)))
REPO = os.environ.get("VERIF_REPO", "/repo")
GUARD = "VERIBLOCK_ALT_INTEGRATION_CPP_VERIF"
NCPU = os.cpu_count() or 4


def _tag():
    """build dirs are per repo path so that a scratch copy of the repo
    (VERIF_REPO=...) never pollutes the build of /repo itself"""
    if os.path.realpath(REPO) == "/repo":
        return ""
    return "-" + hashlib.sha1(os.path.realpath(REPO).encode()).hexdigest()[:8]


BUILD = os.path.join(VERIF, "build" + _tag())
SCRATCH = _tag() != ""
# a scratch repo (mutant) gets its own copy of the Coq tree (coq/Gen is
# regenerated from the repo under test) and its own evidence/replay dirs, so
# that runs against /repo itself are never disturbed
COQ = os.path.join(BUILD, "coq") if SCRATCH else os.path.join(VERIF, "coq")
OUT = BUILD if SCRATCH else VERIF
_synced = [False]


def sync_coq():
    if SCRATCH and not _synced[0]:
        os.makedirs(COQ, exist_ok=True)
        sh(["rsync", "-a", "--delete", "--exclude", "Gen/", os.path.join(VERIF, "coq") + "/", COQ + "/"], check=True)
        sh(["rsync", "-a", "--ignore-existing", os.path.join(VERIF, "coq", "Gen") + "/", os.path.join(COQ, "Gen") + "/"])
        _synced[0] = True


# --------------------------------------------------------------------------
# deterministic randomness: one SplitMix64 state per run
# --------------------------------------------------------------------------
class Rng:
    M = (1 << 64) - 1

    def __init__(self, seed):
        self.s = seed & self.M

    def next(self):
        self.s = (self.s + 0x9E3779B97F4A7C15) & self.M
        z = self.s
        z = ((z ^ (z >> 30)) * 0xBF58476D1CE4E5B9) & self.M
        z = ((z ^ (z >> 27)) * 0x94D049BB133111EB) & self.M
        return z ^ (z >> 31)

    def below(self, n):
        return self.next() % n if n > 0 else 0

    def range(self, lo, hi):
        """inclusive"""
        return lo + self.below(hi - lo + 1)

    def choice(self, xs):
        return xs[self.below(len(xs))]

    def chance(self, num, den):
        return self.below(den) < num

    def bytes(self, n):
        out = bytearray()
        while len(out) < n:
            out += self.next().to_bytes(8, "little")
        return bytes(out[:n])

    def bits(self, n):
        if n <= 0:
            return 0
        v = 0
        got = 0
        while got < n:
            v = (v << 64) | self.next()
            got += 64
        return v >> (got - n)

    def shuffle(self, xs):
        for i in range(len(xs) - 1, 0, -1):
            j = self.below(i + 1)
            xs[i], xs[j] = xs[j], xs[i]

    def fork(self):
        return Rng(self.next())


# --------------------------------------------------------------------------
def sh(cmd, timeout=None, cwd=None, env=None, stdin=None, check=False):
    """run a command, return (rc, stdout, stderr); rc=124 on timeout"""
    e = dict(os.environ)
    if env:
        e.update(env)
    try:
        p = subprocess.run(cmd, cwd=cwd, env=e, input=stdin, timeout=timeout,
                           stdout=subprocess.PIPE, stderr=subprocess.PIPE,
                           shell=isinstance(cmd, str))
        rc, out, err = p.returncode, p.stdout, p.stderr
    except subprocess.TimeoutExpired as t:
        rc, out, err = 124, t.stdout or b"", t.stderr or b""
    out = out.decode("utf-8", "replace") if isinstance(out, bytes) else out
    err = err.decode("utf-8", "replace") if isinstance(err, bytes) else err
    if check and rc != 0:
        raise RuntimeError("command failed (%d): %s\n%s\n%s" % (rc, cmd, out[-4000:], err[-4000:]))
    return rc, out, err


class Lock:
    def __init__(self, name):
        os.makedirs(BUILD, exist_ok=True)
        self.path = os.path.join(BUILD, "." + name + ".lock")

    def __enter__(self):
        self.f = open(self.path, "w")
        fcntl.flock(self.f, fcntl.LOCK_EX)
        return self

    def __exit__(self, *a):
        fcntl.flock(self.f, fcntl.LOCK_UN)
        self.f.close()


# --------------------------------------------------------------------------
# library + harness build
# --------------------------------------------------------------------------
VARIANTS = {
    # name: (cmake build type, extra compile flags, extra link flags)
    "rel": ("Release", "-O1 -g0 -UNDEBUG", ""),
    "asan": ("Debug", "-O0 -g1 -fno-inline -fno-omit-frame-pointer -fsanitize=address,undefined "
             "-fno-sanitize=vptr,alignment,shift-base -fno-sanitize-recover=undefined",
             "-fsanitize=address,undefined"),
    "tsan": ("Debug", "-O1 -g1 -fno-omit-frame-pointer -fsanitize=thread", "-fsanitize=thread"),
    # what a Release build of the library really is: NDEBUG defined, so VBK_ASSERT_MSG_DEBUG and assert() expand to
    # nothing while VBK_ASSERT / VBK_ASSERT_MSG stay active (used where the property is about a guard that must
    # survive in production builds)
    "ndebug": ("Release", "-O1 -g0 -DNDEBUG", ""),
}


def lib_dir(variant):
    return os.path.join(BUILD, "lib-" + variant)


def lib_path(variant):
    return os.path.join(lib_dir(variant), "lib", "libveriblock-pop-cpp.a")


def build_lib(variant="rel", log=None):
    """(re)build the library from REPO's working tree with the hook guard on.
    Returns (ok, text)."""
    bt, cflags, _ = VARIANTS[variant]
    d = lib_dir(variant)
    with Lock("lib-" + variant):
        stamp = os.path.join(d, ".verif-flags")
        if os.path.exists(stamp) and open(stamp).read() != bt + cflags:
            shutil.rmtree(d, ignore_errors=True)
        if not os.path.exists(os.path.join(d, "build.ninja")):
            os.makedirs(d, exist_ok=True)
            open(stamp, "w").write(bt + cflags)
            flags = "-D%s %s" % (GUARD, cflags)
            rc, out, err = sh(["cmake", "-G", "Ninja", "-S", REPO, "-B", d,
                               "-DTESTING=OFF", "-DWITH_BACKWARD=OFF", "-DWERROR=OFF",
                               "-DCMAKE_BUILD_TYPE=" + bt,
                               "-DCMAKE_CXX_FLAGS=" + flags, "-DCMAKE_C_FLAGS=" + cflags,
                               "-DCMAKE_CXX_FLAGS_RELEASE=", "-DCMAKE_CXX_FLAGS_DEBUG=",
                               "-DCMAKE_C_FLAGS_RELEASE=", "-DCMAKE_C_FLAGS_DEBUG="],
                              timeout=600, env={"CCACHE_DISABLE": "1"})
            if rc != 0:
                return False, out + err
        rc, out, err = sh(["ninja", "-C", d, "veriblock-pop-cpp"], timeout=3000,
                          env={"CCACHE_DISABLE": "1"})
        return rc == 0, out + err


def build_harness(names, variant="rel"):
    """compile harness/<name>.cpp against the freshly built library; ninja with
    depfiles, so header edits in the repo trigger a rebuild. Returns
    (ok, {name: path}, text)."""
    ok, text = build_lib(variant)
    if not ok:
        return False, {}, text
    _, cflags, lflags = VARIANTS[variant]
    d = os.path.join(BUILD, "h-" + variant)
    os.makedirs(d, exist_ok=True)
    hdir = os.path.join(VERIF, "harness")
    allnames = sorted(f[:-4] for f in os.listdir(hdir) if f.startswith("h_") and f.endswith(".cpp"))
    lib = lib_path(variant)
    lines = [
        "cxxflags = -std=c++14 -D%s %s -I%s/include -I%s -w" % (GUARD, cflags, REPO, hdir),
        "rule cxx",
        "  command = g++ $cxxflags -MMD -MF $out.d -c $in -o $out",
        "  depfile = $out.d",
        "  deps = gcc",
        "rule link",
        "  command = g++ %s -o $out $in %s -lpthread" % (lflags, lib),
    ]
    for n in allnames:
        lines.append("build obj/%s.o: cxx %s/%s.cpp" % (n, hdir, n))
        lines.append("build bin/%s: link obj/%s.o | %s" % (n, n, lib))
    txt = "\n".join(lines) + "\n"
    with Lock("h-" + variant):
        p = os.path.join(d, "build.ninja")
        if not os.path.exists(p) or open(p).read() != txt:
            open(p, "w").write(txt)
        rc, out, err = sh(["ninja", "-C", d] + ["bin/" + n for n in names], timeout=3000)
    paths = {n: os.path.join(d, "bin", n) for n in names}
    return rc == 0, paths, text + out + err


# --------------------------------------------------------------------------
# generators from source
# --------------------------------------------------------------------------
def regenerate():
    """re-run every tools/gen_*.py; each writes its coq/Gen/*.v only when the
    content changed (keeps make incremental). Returns list of (name, ok, text)."""
    res = []
    sync_coq()
    tdir = os.path.join(VERIF, "tools")
    with Lock("coq"):
        for f in sorted(os.listdir(tdir)):
            if f.startswith("gen_") and f.endswith(".py"):
                rc, out, err = sh([sys.executable, os.path.join(tdir, f), REPO, os.path.join(COQ, "Gen")],
                                  timeout=300)
                res.append((f, rc == 0, out + err))
    return res


def write_if_changed(path, text):
    os.makedirs(os.path.dirname(path), exist_ok=True)
    if os.path.exists(path) and open(path).read() == text:
        return False
    open(path, "w").write(text)
    return True


# --------------------------------------------------------------------------
# Coq
# --------------------------------------------------------------------------
HYGIENE = re.compile(r"\b(Admitted|admit|Axiom|Axioms|Parameter|Parameters|Conjecture|Hypothesis|Variable|Variables|Hypotheses)\b|Unset Guard|bypass_check|type-in-type|impredicative-set|Admit Obligations|Unset Universe Checking|Unset Positivity")


def coq_project():
    """regenerate _CoqProject + Makefile from the .v files present"""
    files = []
    for root, _, fs in os.walk(COQ):
        for f in fs:
            if f.endswith(".v"):
                files.append(os.path.relpath(os.path.join(root, f), COQ))
    files.sort()
    txt = "-Q . VB\n-arg -w -arg -all\n" + "\n".join(files) + "\n"
    changed = write_if_changed(os.path.join(COQ, "_CoqProject"), txt)
    if changed or not os.path.exists(os.path.join(COQ, "Makefile")):
        sh(["coq_makefile", "-f", "_CoqProject", "-o", "Makefile"], cwd=COQ, check=True)


def strip_comments(src):
    out = []
    depth = 0
    i = 0
    n = len(src)
    instr = False
    while i < n:
        c = src[i]
        if depth == 0 and c == '"':
            instr = not instr
            out.append(c)
            i += 1
            continue
        if not instr and src.startswith("(*", i):
            depth += 1
            i += 2
            continue
        if not instr and depth > 0 and src.startswith("*)", i):
            depth -= 1
            i += 2
            continue
        if depth == 0:
            out.append(c)
        i += 1
    return "".join(out)


def hygiene(files):
    """forbidden vernacular anywhere in the given .v files (comments stripped).
    Variable/Hypothesis are allowed only inside a Section."""
    bad = []
    for f in files:
        src = strip_comments(open(f).read())
        depth = 0
        for ln, line in enumerate(src.split("\n"), 1):
            if re.match(r"\s*Section\b", line):
                depth += 1
            if re.match(r"\s*End\b", line) and depth > 0:
                depth -= 1
            for m in HYGIENE.finditer(line):
                w = m.group(0)
                if w in ("Variable", "Variables", "Hypothesis", "Hypotheses") and depth > 0:
                    continue
                if w in ("Parameter", "Parameters") and False:
                    continue
                bad.append("%s:%d: %s" % (os.path.relpath(f, VERIF), ln, line.strip()[:120]))
    return bad


def coq_deps(vfile):
    """transitive .v dependencies of a file inside coq/ (via coqdep)"""
    rc, out, _ = sh("coqdep -Q . VB -sort %s 2>/dev/null" % vfile, cwd=COQ)
    fs = [x for x in out.split() if x.endswith(".v")]
    return [os.path.join(COQ, x.lstrip("./")) for x in fs]


def coq_build(targets, timeout=3000):
    """make -k the given .vo targets (relative to coq/). Returns
    (ok, failed_targets, log)."""
    sync_coq()
    with Lock("coq"):
        coq_project()
        rc, out, err = sh(["make", "-k", "-j%d" % NCPU] + targets, cwd=COQ, timeout=timeout,
                          env={"TIMED": ""})
    log = out + err
    failed = [t for t in targets if not os.path.exists(os.path.join(COQ, t)) or
              os.path.getmtime(os.path.join(COQ, t)) < os.path.getmtime(os.path.join(COQ, t[:-1]))]
    return rc == 0 and not failed, failed, log


def theorems_of(vfile):
    src = strip_comments(open(vfile).read())
    return re.findall(r"^\s*(?:Theorem|Corollary)\s+([A-Za-z0-9_']+)", src, re.M)


def assumptions_of(prop_vfile):
    """re-run coqc on the Properties file alone (dependencies are compiled) to
    capture the output of each `Print Assumptions`. Returns {thm: text}."""
    rel = os.path.relpath(prop_vfile, COQ)
    rc, out, err = sh(["coqc", "-Q", ".", "VB", "-w", "-all", rel], cwd=COQ, timeout=1200)
    thms = theorems_of(prop_vfile)
    src = strip_comments(open(prop_vfile).read())
    order = re.findall(r"Print\s+Assumptions\s+([A-Za-z0-9_'.]+)\s*\.", src)
    chunks = []
    cur = None
    for line in out.split("\n"):
        if line.startswith("Closed under the global context") or line.startswith("Axioms:"):
            if cur is not None:
                chunks.append("\n".join(cur))
            cur = [line]
        elif cur is not None:
            if line.strip() == "" and cur and cur[0].startswith("Closed"):
                chunks.append("\n".join(cur))
                cur = None
            else:
                cur.append(line)
    if cur is not None:
        chunks.append("\n".join(cur))
    res = {}
    for i, name in enumerate(order):
        res[name] = chunks[i].strip() if i < len(chunks) else "<no output>"
    return rc == 0, thms, res, out + err


# --------------------------------------------------------------------------
# extraction / OCaml model drivers
# --------------------------------------------------------------------------
def build_model(name):
    """ocaml/<name>/ contains driver.ml; coq/Extract_<name>.v extracts to
    <name>_model.ml(i) in coq/ (cwd of coqc). Build bin build/ocaml/<name>.
    Returns (ok, path, text)."""
    d = os.path.join(BUILD, "ocaml", name)
    os.makedirs(d, exist_ok=True)
    ok, failed, log = coq_build(["Extract_%s.vo" % name])
    if not ok:
        return False, None, log
    ml = os.path.join(COQ, "%s_model.ml" % name)
    mli = os.path.join(COQ, "%s_model.mli" % name)
    drv = os.path.join(VERIF, "ocaml", "%s_driver.ml" % name)
    out = os.path.join(d, name)
    with Lock("ocaml-" + name):
        srcs = [mli, ml, drv, os.path.join(VERIF, "ocaml", "prelude.ml")]
        if os.path.exists(out) and all(os.path.getmtime(out) >= os.path.getmtime(s) for s in srcs):
            return True, out, ""
        shutil.copy(mli, d)
        shutil.copy(ml, d)
        pre = open(os.path.join(VERIF, "ocaml", "prelude.ml")).read()
        with open(os.path.join(d, "%s_driver.ml" % name), "w") as f:
            f.write("open %s_model\n" % name + pre + "\n" + open(drv).read())
        rc, o, e = sh(["ocamlfind", "ocamlopt", "-O2", "-w", "-a", "-package", "str", "-linkpkg",
                       "%s_model.mli" % name, "%s_model.ml" % name, "%s_driver.ml" % name, "-o", name],
                      cwd=d, timeout=900)
        if rc != 0:
            rc, o, e = sh(["ocamlfind", "ocamlopt", "-w", "-a", "-package", "str", "-linkpkg",
                           "%s_model.mli" % name, "%s_model.ml" % name, "%s_driver.ml" % name, "-o", name],
                          cwd=d, timeout=900)
    return rc == 0, out, log + o + e


# --------------------------------------------------------------------------
# known findings
# --------------------------------------------------------------------------
def load_findings():
    """known_findings.txt: `finding: property=Cnn key=<key> <text>` and
    `fixed: property=Cnn <commit> <text>`; only `finding:` lines suppress."""
    res = []
    p = os.path.join(VERIF, "known_findings.txt")
    if os.path.exists(p):
        for line in open(p):
            m = re.match(r"finding:\s+property=(\S+)\s+key=(\S+)\s+(.*)", line.strip())
            if m:
                res.append((m.group(1), m.group(2), m.group(3)))
    return res


# --------------------------------------------------------------------------
class Ctx:
    def __init__(self, pid, tier, seed):
        self.pid = pid
        self.tier = tier
        self.seed = seed
        self.rng = Rng(seed ^ int(hashlib.sha1(pid.encode()).hexdigest()[:12], 16))
        self.t0 = time.time()
        self.violations = []       # (replay_path, suffix)
        self.known_hits = []
        self.findings = [f for f in load_findings() if f[0] == pid]
        self.cov = {
            "obligations": 0, "discharged": 0, "checker_cmd": "", "trusted_base": [],
            "evaluations": 0, "distinct_nontrivial": 0, "rule": "", "samples": [],
            "disagreements_checked": 0, "traces_validated_against_impl": 0,
            "broken_obligations": [], "assumptions_per_theorem": {},
        }
        self.assumptions = []
        self.work = os.path.join(BUILD, "work", pid + "-" + tier + "-%d" % os.getpid())
        os.makedirs(self.work, exist_ok=True)
        self.broken = []           # names of theorems / correspondences that no longer check

    # ---- proofs ----
    def prove(self, extra_targets=()):
        """regenerate Gen/*, build Properties_<pid>.vo (+extras) with make -k,
        collect assumptions, hygiene; fills coverage. Returns True iff all
        obligations are discharged."""
        # the repo's cmake configure step generates include/veriblock/pop/ct_params.hpp in the source tree
        # (a fresh worktree lacks it): make sure the library is configured before the generators read the headers
        build_lib("rel")
        gen = regenerate()
        for name, ok, text in gen:
            if not ok:
                self.broken.append("gen:" + name + ": " + text.strip()[-300:])
        prop = "Properties_%s.v" % self.pid
        pv = os.path.join(COQ, prop)
        targets = [prop + "o"] + list(extra_targets)
        ok, failed, log = coq_build(targets)
        open(os.path.join(self.work, "coq.log"), "w").write(log)
        thms = theorems_of(pv)
        self.cov["obligations"] = len(thms) + len(gen)
        self.cov["checker_cmd"] = ("cd coq && coq_makefile -f _CoqProject -o Makefile && make -k -j%d %s "
                                   "&& coqc -Q . VB %s  (Print Assumptions per theorem); coqc 8.16.1"
                                   % (NCPU, " ".join(targets), prop))
        discharged = sum(1 for _, g, _ in gen if g)
        if ok:
            aok, thms2, ass, alog = assumptions_of(pv)
            self.cov["assumptions_per_theorem"] = ass
            if aok:
                discharged += len(thms)
            else:
                self.broken.append("theorem-file:" + prop)
            axioms = set()
            for t, a in ass.items():
                if not a.startswith("Closed under the global context"):
                    for l in a.split("\n")[1:]:
                        m = re.match(r"^([A-Za-z0-9_.']+)\s*:", l)
                        if m:
                            axioms.add(m.group(1))
            self.axioms = sorted(axioms)
        else:
            # which theorem(s)? name the first failing file and error
            err = re.findall(r'File "([^"]+)", line (\d+).*?\n(Error:.*?)(?:\n\n|\nmake|\Z)', log, re.S)
            for f, ln, e in err[:5]:
                self.broken.append("coq:%s:%s: %s" % (f, ln, " ".join(e.split())[:300]))
            if not err:
                self.broken.append("coq-build-failed: " + ",".join(failed))
            self.axioms = []
        if ok and self.tier == "thorough" and os.environ.get("VERIF_NO_COQCHK") is None:
            # independent re-check of the compiled closure + axiom listing
            rc, out, err = sh(["coqchk", "-o", "-silent", "-Q", ".", "VB", "VB." + prop[:-2]], cwd=COQ, timeout=3600)
            self.cov["coqchk"] = {"rc": rc, "tail": (out + err)[-1500:]}
            self.cov["obligations"] += 1
            if rc == 0:
                discharged += 1
            else:
                self.broken.append("coqchk:" + prop)
        deps = coq_deps(prop) if os.path.exists(pv) else []
        bad = hygiene([d for d in deps if os.path.exists(d)])
        if bad:
            self.broken.append("hygiene: " + "; ".join(bad[:5]))
            discharged = 0
        self.cov["discharged"] = discharged
        self.cov["broken_obligations"] = list(self.broken)
        self.cov["theorems"] = thms
        return not self.broken

    # ---- reporting ----
    def replay_path(self, obj):
        d = os.path.join(OUT, "replays", self.pid)
        os.makedirs(d, exist_ok=True)
        txt = json.dumps(obj, indent=1, sort_keys=True, default=str)
        p = os.path.join(d, hashlib.sha1(txt.encode()).hexdigest()[:16] + ".json")
        open(p, "w").write(txt)
        return p

    def violation(self, obj, key=None, no_input=False):
        """report a violation unless its key is a listed known finding"""
        obj = dict(obj)
        obj.setdefault("property", self.pid)
        obj.setdefault("seed", self.seed)
        if key is not None:
            obj["key"] = key
            for (_, k, text) in self.findings:
                if k == key:
                    if key not in [h[0] for h in self.known_hits]:
                        self.known_hits.append((key, text))
                    return
        if len(self.violations) >= 5:
            return
        p = self.replay_path(obj)
        self.violations.append((p, " no-failing-input-found" if no_input else ""))

    def sample(self, x):
        if len(self.cov["samples"]) < 6:
            self.cov["samples"].append(x)

    def finish(self, level="proof", extra_assumptions=()):
        # a broken obligation with no concrete failing input is still a violation
        if self.broken and not self.violations:
            self.violation({"kind": "obligation", "no_longer_checks": self.broken,
                            "note": "proof obligation / correspondence broken; search found no failing input"},
                           no_input=True)
        for key, text in self.known_hits:
            print("KNOWN-FINDING: property=%s %s (%s)" % (self.pid, text, key))
        for p, suffix in self.violations:
            print("VIOLATION property=%s replay=%s%s" % (self.pid, p, suffix))
        cov = self.cov
        if not cov["samples"]:
            cov["samples"] = ["<none>"]
        tb = [
            "Coq 8.16.1 kernel (coqc, full .vo build, no -vos); vm_compute used; native_compute not used",
            "axioms reported by Print Assumptions for this property's theorems: " +
            (", ".join(getattr(self, "axioms", [])) or "none (all theorems closed under the global context)"),
            "extraction: Require Extraction + ExtrOcamlBasic only (its Extract Inductive for bool, option, unit, "
            "list, prod, sumbool, sumor and Extract Inlined Constant for fst/snd/andb/orb/negb etc.); "
            "Z/N/positive/nat stay Coq datatypes",
            "hand-written model tied to the code by the correspondence run of this check (OCaml driver, C++ harness, "
            "canonicalisation, generators) and by coq/Gen/*.v regenerated from the repo's sources",
        ] + list(cov.get("trusted_base", []))
        cov["trusted_base"] = tb
        ev = {
            "property_id": self.pid, "tier": self.tier, "seed": self.seed, "level": level,
            "coverage": cov, "assumptions": list(self.assumptions) + list(extra_assumptions),
            "wall_s": round(time.time() - self.t0, 2), "violations": len(self.violations),
        }
        os.makedirs(os.path.join(OUT, "evidence"), exist_ok=True)
        with open(os.path.join(OUT, "evidence", self.pid + ".json"), "w") as f:
            json.dump(ev, f, indent=1, sort_keys=True, default=str)
        shutil.rmtree(self.work, ignore_errors=True)
        return 1 if self.violations else 0


# --------------------------------------------------------------------------
def run_lines(cmd, infile, timeout=1800, env=None):
    """run `cmd < infile`, return (rc, {id: rest-of-line}, oracle_failures[(id,text)], stderr)"""
    with open(infile, "rb") as f:
        data = f.read()
    rc, out, err = sh(cmd, stdin=data, timeout=timeout, env=env)
    res = {}
    orc = []
    for line in out.split("\n"):
        if not line:
            continue
        if line[0] == "!":
            i, _, t = line[1:].partition(" ")
            orc.append((i, t))
            continue
        i, _, t = line.partition(" ")
        res[i] = t
    return rc, res, orc, err


def diff_results(a, b):
    """ids present in either whose lines differ (missing counts as differing)"""
    ids = list(a.keys()) + [k for k in b.keys() if k not in a]
    return [i for i in ids if a.get(i) != b.get(i)]
